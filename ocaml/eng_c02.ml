(* engine c02: drives TreeDB.step (the ideal node database) with the script language of harness/cgio_h.c *)
open Model
open Zutil

let zi s = z_of_int (int_of_string s)
let parse_sel (s:string) : ((z * z) * z) list =
  if s = "-" then [] else
  List.map (fun t -> match String.split_on_char ':' t with
    | [a; b; c] -> ((zi a, zi b), zi c)
    | _ -> failwith "sel") (String.split_on_char ',' s)
let hex_data (d : z option list) : string =
  if d = [] then "-" else
  String.concat "" (List.map (fun b -> match b with Some v -> Printf.sprintf "%02x" (int_of_z v) | None -> "??") d)
let print_result (r:result) =
  match r with
  | RErr -> print_string "err\n"
  | ROk -> print_string "ok\n"
  | RInt v -> Printf.printf "ok %d\n" (int_of_z v)
  | RBytes b -> Printf.printf "ok b:%s\n" (hex_of_bytes b)
  | RData d -> Printf.printf "ok d:%s\n" (hex_data d)
  | RInts l -> Printf.printf "ok i:%s\n" (csv_of_zs l)
  | RNames l -> Printf.printf "ok n:%s\n" (if l = [] then "-" else String.concat "," (List.map hex_of_bytes l))
  | RNode (n, l) -> Printf.printf "ok N:%s:%s\n" (hex_of_bytes n) (hex_of_bytes l)
  | RLink (f, p) -> Printf.printf "ok L:%s:%s\n" (hex_of_bytes f) (hex_of_bytes p)

let run () =
  let st = ref empty_session in
  let apply f o = let (s', r) = step !st (zi f) o in st := s'; print_result r in
  (try while true do
    let line = input_line stdin in
    let t = String.split_on_char ' ' (String.trim line) in
    match t with
    | ["file"; f; _; be; md] ->
        let (s', r) = open_file !st (zi f) (md = "w") (z_of_int (if md = "r" then 1 else 2))
                        (z_of_int (if be = "hdf5" then 1 else 0)) in st := s'; print_result r
    | ["closef"; f] -> let (s', r) = close_file !st (zi f) in st := s'; print_result r
    | ["reopen"; f; md] ->
        let (s1, _) = close_file !st (zi f) in
        let (s2, r) = open_file s1 (zi f) false (z_of_int (if md = "r" then 1 else 2)) Z0 in st := s2; print_result r
    | ["create"; f; p; u; nm] -> apply f (OCreate (zi p, zi u, bytes_of_hex nm))
    | ["link"; f; p; u; nm; fl; pa] -> apply f (OLink (zi p, zi u, bytes_of_hex nm, bytes_of_hex fl, bytes_of_hex pa))
    | ["delete"; f; p; u] -> apply f (ODelete (zi p, zi u))
    | ["rename"; f; p; u; nm] -> apply f (ORename (zi p, zi u, bytes_of_hex nm))
    | ["move"; f; p; u; np] -> apply f (OMove (zi p, zi u, zi np))
    | ["label"; f; u; l] -> apply f (OLabel (zi u, bytes_of_hex l))
    | ["dims"; f; u; ty; d] -> apply f (ODims (zi u, List.map z_of_int (List.map Char.code (List.init (String.length ty) (String.get ty))), zs_of_csv d))
    | ["wall"; f; u; d] -> apply f (OWriteAll (zi u, bytes_of_hex d))
    | ["wblock"; f; u; b; e; d] -> apply f (OWriteBlock (zi u, zi b, zi e, bytes_of_hex d))
    | ["wsel"; f; u; s; md; ms; mem] -> apply f (OWriteSel (zi u, parse_sel s, zs_of_csv md, parse_sel ms, bytes_of_hex mem))
    | ["rsel"; f; u; s; md; ms; mem] -> apply f (OReadSel (zi u, parse_sel s, zs_of_csv md, parse_sel ms, bytes_of_hex mem))
    | ["rall"; f; u] -> apply f (OReadAll (zi u))
    | ["rblock"; f; u; b; e] -> apply f (OReadBlock (zi u, zi b, zi e))
    | ["nchild"; f; u] -> apply f (ONChildren (zi u))
    | ["names"; f; u; s; n] -> apply f (OChildNames (zi u, zi s, zi n))
    | ["lookup"; f; u; p] -> apply f (OLookup (zi u, bytes_of_hex p))
    | ["info"; f; u; w] -> apply f (OInfo (zi u, zi w))
    | [""] -> ()
    | _ -> if String.length line > 0 && line.[0] = '#' then () else Printf.printf "badline %s\n" line
  done with End_of_file -> ())
