(* engine c12: the predicates of coq/Validate.v evaluated on the regenerated table coq/Gen_C12.v, and the getter model.
   Sys.argv.(1):
     lists     l <list> <name> ...       the name lists behind the table-level theorems (late / tolerant / silent entry
                                         points, getters that do not fail cleanly, the exception lists, unknown externs)
     claims    c <entry point> <param position (1-based)>:<class> ...    parameters certainly validated on the spine
               m <entry point> <read|write|modify> ...                     open modes certainly demanded on the spine
     getters   reads lines  `g <row> <n> <i>`  (row = index into Gen_C12.getters, n = count, i = index) and prints
               `g <row> <n> <i> <offset>` : the offset of the element the getter model returns on the array [0..n-1],
               -1 for NULL, -2 for an access outside the array, -3 when the row is not an index row
               `rows` prints  r <row> <getter> <idx> <parent> <cnt> <arr>  for every index row                  *)
open Model
open Zutil

let char_of_ascii (Ascii (a, b, c, d, e, f, g, h)) =
  let bit x i = if x then 1 lsl i else 0 in
  Char.chr (bit a 0 + bit b 1 + bit c 2 + bit d 3 + bit e 4 + bit f 5 + bit g 6 + bit h 7)
let rec str s = match s with EmptyString -> "" | String (c, r) -> String.make 1 (char_of_ascii c) ^ str r
let pl tag l = Printf.printf "l %s %s\n" tag (String.concat " " (List.map str l))
let gm m = match m with MRead -> "read" | MWrite -> "write" | MModify -> "modify"

let run () =
  let what = if Array.length Sys.argv > 1 then Sys.argv.(1) else "lists" in
  if what = "lists" then begin
    let tb = prepare table in
    let a = vanalyse tb externs mirrors in
    Printf.printf "l van_ok %b\n" (van_ok tb a);
    Printf.printf "l all_parsed %b\n" (vall_parsed_b table);
    pl "late" (late_names tb a);
    pl "tolerant" (tolerant_names tb);
    pl "silent" (silent_names12 tb a);
    pl "unclean_getters" (unclean_getters tb a getter_names);
    pl "bad_getters" (bad_getters alloc_pairs getters);
    pl "unknown_externs" (unknown_externs externs);
    pl "revalidating_wrappers" revalidating_wrappers;
    pl "known_late" known_late;
    pl "known_tolerant" known_tolerant;
    pl "known_silent" known_silent;
    pl "file_ops" c12_file_ops;
    Printf.printf "l unclaimed %s\n" (String.concat " " (List.concat_map (fun (n, ps) -> List.map (fun p -> Printf.sprintf "%s:%d" (str n) (int_of_pos p)) ps) (unclaimed_all tb)));
    Printf.printf "l known_unvalidated %s\n" (String.concat " " (List.map (fun (n, p) -> Printf.sprintf "%s:%d" (str n) (int_of_pos p)) known_unvalidated));
    Printf.printf "l getters_ok %b\n" (getters_ok_b alloc_pairs getters);
    Printf.printf "l addr_macro_ok %b\n" (addr_macro_ok addr_macro);
    Printf.printf "l addr_rows %d\n" (List.length addr_rows)
  end else if what = "claims" then begin
    let tb = prepare table in
    List.iter (fun (n, l) ->
        Printf.printf "c %s %s\n" (str n) (String.concat " " (List.map (fun (p, v) -> Printf.sprintf "%d:%s" (int_of_pos p) (str v)) l)))
      (claims_all tb);
    List.iter (fun (n, l) -> Printf.printf "m %s %s\n" (str n) (String.concat " " (List.map gm l))) (mode_gates_all tb)
  end else begin
    let rows = Array.of_list getters in
    Array.iteri (fun k g -> match g with
        | GIdx (n, idx, parent, cnt, arr, _, _, _, _) ->
          Printf.printf "r %d %s %s %s %s %s\n" k (str n) (str idx) (str parent) (str cnt) (str arr)
        | _ -> ()) rows;
    (try
       while true do
         let line = input_line stdin in
         match String.split_on_char ' ' (String.trim line) with
         | ["g"; k; n; i] ->
           let k = int_of_string k and n = int_of_string n and i = int_of_string i in
           let off = (match (if k >= 0 && k < Array.length rows then Some rows.(k) else None) with
               | Some (GIdx (_, _, _, _, _, hi, lo, lo_val, sub)) -> int_of_z (getter_sample hi lo lo_val sub (z_of_int n) (z_of_int i))
               | _ -> -3) in
           Printf.printf "g %d %d %d %d\n" k n i off
         | _ -> ()
       done
     with End_of_file -> ())
  end
