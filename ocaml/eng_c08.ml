(* engine c08: drives coq/Links.v (link resolution over a world of TreeDB files) with the script language of
   harness/c08_cgio.c.  Sys.argv.(1) = adf | hdf5 selects the transcription.  Trusted glue: handle table
   (file number -> path), printing.  A model result [EStack] / a non-returning close prints "crash" and stops, as
   the process under test would (possible with the Old transcription only; for Cur it is proved unreachable for
   resolutions). *)
open Model
open Zutil

let zi s = z_of_int (int_of_string s)
(* Sys.argv.(2) = "old" runs the transcription of the code before the repairs (historical witnesses only) *)
let flags = if Array.length Sys.argv > 2 then String.split_on_char ',' Sys.argv.(2) else []
let ver = if List.mem "old" flags then Old else Cur
(* finer switches, set by the check when a regression witness shows that the library is in the state before a repair *)
let ver_h5create = if List.mem "old" flags || List.mem "h5create-old" flags then Old else Cur
(* nesting of chase <-> get_node_id: the current code allows exactly ADF_MAXIMUM_LINK_DEPTH activations; for the old
   code the number stands for the C stack *)
let fuel = nat_of_int (match ver with Cur -> 100 | Old -> 48)
let cfuel = nat_of_int 64         (* nesting of ADFI_close_file *)

let str_of_hex h = if h = "-" then "" else String.init (String.length h / 2) (fun i -> Char.chr (int_of_string ("0x" ^ String.sub h (2*i) 2)))
let bytes_of_str s = List.init (String.length s) (fun i -> z_of_int (Char.code s.[i]))
let hex_data (d : z option list) : string =
  if d = [] then "-" else
  String.concat "" (List.map (fun b -> match b with Some v -> Printf.sprintf "%02x" (int_of_z v) | None -> "??") d)

exception Crash
let eclass e = match e with
  | ENotFound -> "notfound" | ELinkTarget -> "linktarget" | ELinkFile -> "linkfile" | ETooDeep -> "linkdepth"
  | EOther -> "other" | EStack -> raise Crash

let pr_res (r:result) = match r with RErr -> print_string "err other\n" | _ -> print_string "ok\n"

let run () =
  let adf = (Array.length Sys.argv > 1 && Sys.argv.(1) = "adf") in
  let st = ref ast0 in                      (* ADF session; for HDF5 only its disk is used *)
  let paths : (int, z list) Hashtbl.t = Hashtbl.create 8 in
  let opened : (int, bool) Hashtbl.t = Hashtbl.create 8 in
  let foreign : (int, bool) Hashtbl.t = Hashtbl.create 8 in
  let is_open f = try Hashtbl.find opened f with Not_found -> false in
  let env_adf = ref [] and env_hdf = ref [] and env_cgns = ref [] and plist = ref [] in
  let push_env () = st := adf_setenv !st { e_adf = !env_adf; e_hdf = !env_hdf; e_cgns = !env_cgns; e_list = !plist } in
  let set_disk d = st := with_disk !st d in
  let mutate f o =
    if not (is_open f) then print_string "err other\n" else
    let p = Hashtbl.find paths f in
    if adf then (let (s', r) = adf_mutate ver !st p o in st := s'; pr_res r)
    else (let (d', r) = h5_mutate ver_h5create !st.a_disk p o in set_disk d'; pr_res r) in
  let get (i : z list * z) (w:int) : result =
    if adf then (let (s', a) = adf_read ver fuel !st i (z_of_int w) in st := s';
                 match a with AVal r -> r | AErr e -> failwith (eclass e))
    else (match h5_get ver !st.a_disk i (z_of_int w) with AVal r -> r | AErr e -> failwith (eclass e)) in
  let lookup i path =
    if adf then (let (s', r) = adf_lookup ver fuel !st i path in st := s'; match r with Ok j -> j | Err e -> failwith (eclass e))
    else (match h5_lookup ver !st.a_disk i path with Ok j -> j | Err e -> failwith (eclass e)) in
  let close_file f =
    if adf then (match adf_close ver cfuel !st (Hashtbl.find paths f) with
                 | None -> raise Crash
                 | Some (s', r) -> st := s'; Hashtbl.replace opened f false; r)
    else (Hashtbl.replace opened f false; ROk) in
  let open_file f create =
    let p = Hashtbl.find paths f in
    let r = if adf then (let (s', r) = adf_open !st p create in st := s'; r)
            else (let (d', r) = h5_open !st.a_disk p create in set_disk d'; r) in
    (match r with ROk -> Hashtbl.replace opened f true | _ -> ()); r in
  let bs r = match r with RBytes b -> hex_of_bytes b | _ -> "?" in
  (try
    (try while true do
      let line = input_line stdin in
      let t = String.split_on_char ' ' (String.trim line) in
      match t with
      | ["setenv"; nm; v] ->
          let b = bytes_of_hex v in
          (match nm with "ADF_LINK_PATH" -> env_adf := b | "HDF5_LINK_PATH" -> env_hdf := b
                        | "CGNS_LINK_PATH" -> env_cgns := b | _ -> ());
          push_env (); print_string "ok\n"
      | ["pathadd"; p] -> if p = "-" then print_string "err other\n" else (plist := !plist @ [bytes_of_hex p]; push_env (); print_string "ok\n")
      | ["pathdel"] -> plist := []; push_env (); print_string "ok\n"
      (* the mid-level setters: the list transitions are the Coq definitions mll_set_path / mll_add_path / mll_configure *)
      | [("setpath" | "addpath" | "cfgset" | "cfgadd") as op; p] ->
          let arg = if p = "NULL" then None else Some (bytes_of_hex p) in
          let e0 = !st.a_env in
          let (e1, ok) = (match op with "setpath" -> mll_set_path e0 arg | "addpath" -> mll_add_path e0 arg
                                      | "cfgset" -> mll_configure (z_of_int 1) e0 arg | _ -> mll_configure (z_of_int 2) e0 arg) in
          plist := e1.e_list; push_env (); print_string (if ok then "ok\n" else "err other\n")
      (* a create that is expected to be refused: the handle is not kept *)
      | ["tryc"; f; pp; u; nm] ->
          let f = int_of_string f in
          if not (is_open f) then print_string "err other\n" else
          let p = Hashtbl.find paths f in
          if adf then (let (_, r) = adf_mutate ver !st p (OCreate (zi pp, zi u, bytes_of_hex nm)) in pr_res r)
          else (let (_, r) = h5_mutate ver_h5create !st.a_disk p (OCreate (zi pp, zi u, bytes_of_hex nm)) in pr_res r)
      | ["chdir"; _] -> print_string "ok\n"
      | ["dbg"] ->
          List.iteri (fun k (sl : slot) -> Printf.eprintf "slot %d use=%d name=%s links=%s\n" k (int_of_z sl.sl_use)
            (String.concat "" (List.map (fun c -> String.make 1 (Char.chr (int_of_z c))) sl.sl_name)) (csv_of_zs sl.sl_links)) !st.a_slots;
          (match !st.a_cache with None -> Printf.eprintf "cache empty\n" | Some ((_, a), (_, b)) -> Printf.eprintf "cache %d -> %d\n" (int_of_z a) (int_of_z b));
          print_string "ok\n"
      | ["decoy"; p; ty] -> set_disk (disk_set !st.a_disk { d_path = bytes_of_hex p; d_type = zi ty; d_tab = [] }); print_string "ok\n"
      | ["unlinkf"; p] -> set_disk (disk_del !st.a_disk (bytes_of_hex p)); print_string "ok\n"
      | ["junk"; p] -> set_disk (disk_set !st.a_disk { d_path = bytes_of_hex p; d_type = Z0; d_tab = [] }); print_string "ok\n"
      | ["file"; f; p; be; md] when (be = "adf") <> adf ->
          (* a file of the OTHER back end: for this session it only exists (a decoy on the search path) *)
          let f = int_of_string f in
          if md = "w" then set_disk (disk_set !st.a_disk { d_path = bytes_of_hex p; d_type = z_of_int (if be = "adf" then 1 else 2); d_tab = [] });
          Hashtbl.replace foreign f true; print_string "ok\n"
      | ["closef"; f] when Hashtbl.mem foreign (int_of_string f) -> Hashtbl.remove foreign (int_of_string f); print_string "ok\n"
      | ["file"; f; p; _; md] ->
          let f = int_of_string f in
          Hashtbl.replace paths f (bytes_of_hex p);
          pr_res (open_file f (md = "w"))
      | ["closef"; f] ->
          let f = int_of_string f in
          if not (is_open f) then print_string "err other\n" else pr_res (close_file f)
      | ["reopen"; f; _] ->
          let f = int_of_string f in
          let ok1 = if is_open f then (match close_file f with ROk -> true | _ -> false) else true in
          if not ok1 then print_string "err other\n" else pr_res (open_file f false)
      | ["create"; f; p; u; nm] -> mutate (int_of_string f) (OCreate (zi p, zi u, bytes_of_hex nm))
      | ["link"; f; p; u; nm; fl; pa] -> mutate (int_of_string f) (OLink (zi p, zi u, bytes_of_hex nm, bytes_of_hex fl, bytes_of_hex pa))
      | ["delete"; f; p; u] -> mutate (int_of_string f) (ODelete (zi p, zi u))
      | ["rename"; f; p; u; nm] -> mutate (int_of_string f) (ORename (zi p, zi u, bytes_of_hex nm))
      | ["move"; f; p; u; np] -> mutate (int_of_string f) (OMove (zi p, zi u, zi np))
      | ["label"; f; u; l] -> mutate (int_of_string f) (OLabel (zi u, bytes_of_hex l))
      | ["dims"; f; u; ty; d] -> mutate (int_of_string f) (ODims (zi u, bytes_of_str ty, zs_of_csv d))
      | ["wall"; f; u; d] -> mutate (int_of_string f) (OWriteAll (zi u, bytes_of_hex d))
      | ["rd"; f; u; path] ->
          let f = int_of_string f in
          if not (is_open f) then print_string "err other\n" else
          let i0 = (Hashtbl.find paths f, zi u) in
          (try
            (match get i0 4 with RInt _ -> () | _ -> failwith "other");      (* the handle must be alive *)
            let i = if path = "-" then i0 else lookup i0 (bytes_of_hex path) in
            let nm = get i 0 in let lb = get i 1 in let ty = get i 2 in let dm = get i 3 in
            let dims = (match dm with RInts l -> l | _ -> []) in
            let tys = (match ty with RBytes b -> String.concat "" (List.map (fun c -> String.make 1 (Char.chr (int_of_z c))) b) | _ -> "") in
            let tsz = (match tys with "C1" | "B1" -> 1 | "I4" | "U4" | "R4" -> 4 | "I8" | "U8" | "R8" | "X4" -> 8 | "X8" -> 16 | _ -> 0) in
            let n = if dims = [] || tsz = 0 then 0 else List.fold_left (fun a x -> a * int_of_z x) tsz dims in
            let data = if n > 0 then (match get i 6 with RData d -> hex_data d | _ -> "?") else "-" in
            let nk = (match get i 7 with RInt v -> int_of_z v | _ -> -1) in
            let names = (match get i 8 with RNames l -> if l = [] then "-" else String.concat "," (List.map hex_of_bytes l) | _ -> "?") in
            Printf.printf "ok R:%s:%s:%s:%s:%s:%d:%s\n" (bs nm) (bs lb) (bs ty) (csv_of_zs dims) data nk names
          with Failure c -> Printf.printf "err %s\n" c)
      | ["lnk"; f; u] ->
          let f = int_of_string f in
          if not (is_open f) then print_string "err other\n" else
          let i0 = (Hashtbl.find paths f, zi u) in
          (try
            (match get i0 4 with
             | RInt Z0 -> print_string "ok L:0\n"
             | RInt _ -> (match get i0 5 with RLink (fl, pa) -> Printf.printf "ok L:1:%s:%s\n" (hex_of_bytes fl) (hex_of_bytes pa) | _ -> print_string "err other\n")
             | _ -> print_string "err other\n")
          with Failure c -> Printf.printf "err %s\n" c)
      | ["sub"; f; u] ->
          let f = int_of_string f in
          if not (is_open f) then print_string "err other\n" else
          let p = Hashtbl.find paths f in
          let alive = (match disk_get !st.a_disk p with Some df -> (match find_node df.d_tab (zi u) with Some _ -> true | None -> false) | None -> false) in
          if alive && adf && not (file_open !st p) then print_string "ok S: !err other\n" else
          (match disk_get !st.a_disk p with
           | None -> print_string "err other\n"
           | Some df ->
             let t = df.d_tab in
             let buf = Buffer.create 256 in
             let rec dump (r : nrec) depth =
               Buffer.add_string buf ("{" ^ hex_of_bytes r.n_name);
               (match r.n_link with
                | Some (fl0, pa0) ->
                    let (fl, pa) = if adf then (match adf_link_of r with Some x -> x | None -> (fl0, pa0)) else (fl0, pa0) in
                    Buffer.add_string buf (" L " ^ hex_of_bytes fl ^ " " ^ hex_of_bytes pa ^ "}")
                | None ->
                    let tys = String.concat "" (List.map (fun c -> String.make 1 (Char.chr (int_of_z c))) r.n_dt) in
                    Buffer.add_string buf (" " ^ hex_of_bytes r.n_label ^ " " ^ tys ^ " " ^ csv_of_zs r.n_dims ^ " " ^ hex_data r.n_data);
                    if depth < 40 then List.iter (fun k -> dump k (depth + 1)) (children t r.n_uid);
                    Buffer.add_string buf "}") in
             (match find_node t (zi u) with
              | None -> print_string "err other\n"
              | Some r -> dump r 0; Printf.printf "ok S:%s\n" (Buffer.contents buf)))
      | [""] -> ()
      | _ -> if String.length line > 0 && line.[0] = '#' then () else Printf.printf "badline %s\n" line
    done with End_of_file -> ());
    (* the harness closes what is still open, in file-number order *)
    List.iter (fun f -> if is_open f then ignore (close_file f))
      (List.sort compare (Hashtbl.fold (fun k _ acc -> k :: acc) opened []))
  with Crash -> print_string "crash\n")
