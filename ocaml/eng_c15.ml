(* engine c15: prints what the Compact model (with the table regenerated from the sources) predicts.
   script lines:
     toks <plain|symlink> <r|m>   expected path-level system-call sequence of a kill-free run
     states <plain|symlink>       abstract state (original/temporary) after each statement of rewrite_file
     ok                           code_ok, safe_order and fault_safe of both paths *)
open Model
open Zutil

let role = function RFile -> "F" | RTmp -> "T" | RName -> "N"
let tok = function
  | KUnlink r -> "unlink:" ^ role r
  | KCreate r -> "create:" ^ role r
  | KWrites r -> "writes:" ^ role r
  | KClose r -> "close:" ^ role r
  | KSync r -> "sync:" ^ role r
  | KRename (a, b) -> "rename:" ^ role a ^ ">" ^ role b
  | KStat r -> "stat:" ^ role r
  | KBad -> "UNPARSED"
let fst_ = function FO -> "FO" | FG -> "FG" | FN -> "FN"
let tst_ = function TJ -> "TJ" | TA -> "TA" | TE -> "TE" | TC -> "TC" | TF -> "TF"
let code v = if v = "symlink" then code_symlink else code_plain
let b x = if x then 1 else 0

let run () =
  (try while true do
    let line = input_line stdin in
    match String.split_on_char ' ' (String.trim line) with
    | ["toks"; v; m] ->
        Printf.printf "T %s\n" (String.concat " " (List.map tok (expected_toks (m = "m") (code v))))
    | ["states"; v] ->
        Printf.printf "S %s\n" (String.concat " " (List.map (function
            | None -> "UNSAFE"
            | Some (f, t) -> fst_ f ^ "/" ^ tst_ t) (states_after (code v) (FO, TJ))))
    | ["ok"] ->
        Printf.printf "ok code_ok=%d safe_plain=%d safe_symlink=%d fault_safe_plain=%d fault_safe_symlink=%d\n"
          (b code_ok) (b (safe_order code_plain)) (b (safe_order code_symlink))
          (b (fault_safe code_plain)) (b (fault_safe code_symlink))
    | [""] -> ()
    | _ -> Printf.printf "badline %s\n" line
  done with End_of_file -> ())
