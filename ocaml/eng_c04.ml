(* engine c04: the mirror model of coq/Mirror.v driven by the dispatcher table regenerated from the current sources
   (Gen_C04) and the goto table (Gen_C11).
   Script (one command per line, words separated by blanks; names contain no blanks, commas or colons).  A PARENT
   INSTANCE is named by the path of node names leading to it (/Base/Zone1/Sol2 ...); each instance is one Mirror.parent.
     w <path> <parent label> <label> <name> <payload>   create / overwrite by name            -> "w <status> <index | 0>"
     u <path> <parent label> <label> <name> <payload>   create / rewrite the array IN PLACE    -> "w <status> <index | 0>"
     d <path> <parent label> <name>                     cg_delete_node(name) at that position   -> "d <status>"
     v <path> <parent label> <label>                    the session view of one kind            -> "v <n> name:payload,..."
     ln <path> <parent label> <label> <name> <file|-> <target path>   cg_link_write: Mirror.link_at (the file learns of the
                                                        link, the session does not; refused under a parent label that is
                                                        not on the regenerated white list)      -> "l <status>"
                                                        the payload of the link is a negative code of (file, target path),
                                                        printed name:@<file>|<target path> by v
     raw <path> <parent label> <name> <payload>         a Blob_t node created through cgio: Mirror.link_new (file only); `v ... Blob_t`
                                                        prints Mirror.view_file of that kind    -> "l <status>"
     reopen ...                                         cg_close + cg_open: every instance      -> "o 0"
     drop <path>                                        forget the instances at and below <path> (a single child the model
                                                        does not represent was deleted)         -> nothing
     tables                                             verdicts of the decidable table predicates and the diagnostic lists
   Writing or deleting an entity drops every instance below <path>/<name> (the subtree is gone from file and memory).
   Every other command of the C script (ft, compress, open, mk ...) is ignored by this engine. *)
open Model

(* ---- glue: OCaml strings <-> extracted Coq strings, ints <-> Z *)
let rec pos_of_int (n : int) : positive =
  if n = 1 then XH else if n land 1 = 0 then XO (pos_of_int (n lsr 1)) else XI (pos_of_int (n lsr 1))
let z_of_int (n : int) : z = if n = 0 then Z0 else if n > 0 then Zpos (pos_of_int n) else Zneg (pos_of_int (-n))
let rec int_of_pos (p : positive) : int = match p with XH -> 1 | XO q -> 2 * int_of_pos q | XI q -> 2 * int_of_pos q + 1
let int_of_z (x : z) : int = match x with Z0 -> 0 | Zpos p -> int_of_pos p | Zneg p -> - (int_of_pos p)

let ascii_of_char (c : char) : ascii =
  let n = Char.code c in
  let b i = (n lsr i) land 1 = 1 in
  Ascii (b 0, b 1, b 2, b 3, b 4, b 5, b 6, b 7)
let char_of_ascii (a : ascii) : char =
  let Ascii (b0, b1, b2, b3, b4, b5, b6, b7) = a in
  let v b i = if b then 1 lsl i else 0 in
  Char.chr (v b0 0 + v b1 1 + v b2 2 + v b3 3 + v b4 4 + v b5 5 + v b6 6 + v b7 7)
let cs (s : Stdlib.String.t) : Model.string =
  let r = ref EmptyString in
  for i = Stdlib.String.length s - 1 downto 0 do r := String (ascii_of_char s.[i], !r) done;
  !r
let os (s : Model.string) : Stdlib.String.t =
  let b = Buffer.create 16 in
  let rec go s = match s with EmptyString -> () | String (a, t) -> Buffer.add_char b (char_of_ascii a); go t in
  go s; Buffer.contents b

let insts : (Stdlib.String.t, parent) Hashtbl.t = Hashtbl.create 64
let labels : (Stdlib.String.t, Stdlib.String.t) Hashtbl.t = Hashtbl.create 64     (* node path -> its label *)
let get path = match Hashtbl.find_opt insts path with Some p -> p | None -> empty_parent
let drop_below prefix =
  let n = Stdlib.String.length prefix in
  let dead = Hashtbl.fold (fun k _ acc ->
      if k = prefix || (Stdlib.String.length k > n && Stdlib.String.sub k 0 n = prefix && k.[n] = '/') then k :: acc else acc) insts [] in
  Stdlib.List.iter (Hashtbl.remove insts) dead

let join path name = if path = "/" then "/" ^ name else path ^ "/" ^ name

(* the identity of a link (file, path) <-> the opaque negative payload the model carries *)
let link_ids : (Stdlib.String.t, int) Hashtbl.t = Hashtbl.create 16
let link_strs : (int, Stdlib.String.t) Hashtbl.t = Hashtbl.create 16
let link_code (s : Stdlib.String.t) : int =
  match Hashtbl.find_opt link_ids s with
  | Some c -> c
  | None -> let c = - (Hashtbl.length link_ids + 1) in Hashtbl.replace link_ids s c; Hashtbl.replace link_strs c s; c

let show_view (v : (Model.string * z) list) =
  let n = Stdlib.List.length v in
  let pay p = let i = int_of_z p in
    if i < 0 then "@" ^ (match Hashtbl.find_opt link_strs i with Some s -> s | None -> "?") else string_of_int i in
  Printf.printf "v %d %s\n" n
    (if n = 0 then "-" else Stdlib.String.concat "," (Stdlib.List.map (fun (nm, p) -> Printf.sprintf "%s:%s" (os nm) (pay p)) v))

let tables () =
  Printf.printf "delete_table_ok %b\n"
    (delete_table_ok structs goto_table free_sigs preamble dispatch_tail macro_shift macro_child not_deletable delete_table);
  Printf.printf "write_table_ok %b\n" (write_table_ok structs free_sigs write_table);
  Printf.printf "addr_tails_ok %b\n" (addr_tails_ok free_sigs addr_tails);
  Printf.printf "sorting_ok %b\n" (sorting_ok sort_calls sort_comparator sort_names_callers);
  Printf.printf "general_write_mentions_cache %b\n" general_write_mentions_cache;
  Printf.printf "zconn_arm_keeps_current %b\n" (zconn_arm_keeps_current delete_table);
  Printf.printf "data_sizes_ok %b\n" (data_sizes_ok data_size_rows);
  Printf.printf "link_writer_ok %b\n" (link_writer_ok goto_table link_parents link_calls link_assigns);
  Printf.printf "copy_keeps_links %b\n" (copy_keeps_links copy_link_guard copy_else_recurses copy_callers);
  Stdlib.List.iter (fun l -> Printf.printf "bad_link_parent %s\n" (Stdlib.String.concat "_" (Stdlib.String.split_on_char ' ' (os l))))
    (bad_link_parents goto_table link_parents);
  Printf.printf "link_parents %s\n" (Stdlib.String.concat "," (Stdlib.List.map os link_parents));
  Stdlib.List.iter (fun b -> Printf.printf "bad_dblock %s\n" (os b)) (bad_dblocks structs free_sigs not_deletable goto_table delete_table);
  Stdlib.List.iter (fun b -> Printf.printf "bad_wrow %s\n" (os b)) (bad_wrows structs free_sigs write_table);
  Stdlib.List.iter (fun (f, h) -> Printf.printf "bad_nrow %s %s\n" (os f) (Stdlib.String.concat "_" (Stdlib.String.split_on_char ' ' (os h))))
    (bad_nrows ctx_writers);
  Stdlib.List.iter (fun (f, l) -> Printf.printf "bad_rrow %s %s\n" (os f) (Stdlib.String.concat "," (Stdlib.List.map os l)))
    (bad_rrows structs reinit_rows);
  Stdlib.List.iter (fun ((p, l), q) -> Printf.printf "bad_single %s %s %s\n" (os p) (os l) (os q))
    (bad_singles child_names reader_name_tests delete_table not_deletable goto_table);
  Stdlib.List.iter (fun (p, n) -> Printf.printf "unjustified_name %s %s\n" (os p) (os n))
    (unjustified_names child_names reader_name_tests delete_table);
  Stdlib.List.iter (fun ((p, l), q) -> Printf.printf "user_single %s %s %s\n" (os p) (os l) (os q))
    (user_named_singles child_names reader_name_tests delete_table goto_table);
  Stdlib.List.iter (fun ((p, l), n) -> Printf.printf "shadowed_single %s %s %s\n" (os p) (os l) (os n))
    (shadowed_singles child_names reader_name_tests delete_table not_deletable goto_table);
  Stdlib.List.iter (fun ((p, l), n) -> Printf.printf "shadowed %s %s %s\n" (os p) (os l) (os n))
    (shadowed delete_table not_deletable goto_table);
  let withkids = positions_with_children goto_table in
  Stdlib.List.iter (fun p ->
      Printf.printf "no_block %s %s\n" (os p) (if Stdlib.List.exists (fun q -> os q = os p) withkids then "has_children" else "leaf"))
    (positions_without_block delete_table goto_table);
  Stdlib.List.iter (fun p ->
      Stdlib.List.iter (fun l -> Printf.printf "unsound %s %s\n" (os p) (os l)) (unsound_kinds delete_table not_deletable goto_table p);
      Printf.printf "goto %s %s\n" (os p) (Stdlib.String.concat "," (Stdlib.List.map os (goto_children goto_table p)));
      Printf.printf "kinds %s %s\n" (os p)
        (Stdlib.String.concat "," (Stdlib.List.map os (sound_kinds delete_table not_deletable goto_table p))))
    (all_positions goto_table);
  Printf.printf "nrows delete_blocks=%d not_deletable=%d write_rows=%d addr_tails=%d\n"
    (Stdlib.List.length delete_table) (Stdlib.List.length not_deletable) (Stdlib.List.length write_table) (Stdlib.List.length addr_tails)

let run () =
  (try while true do
    let line = input_line stdin in
    let ws = Stdlib.List.filter (fun w -> w <> "") (Stdlib.String.split_on_char ' ' (Stdlib.String.trim line)) in
    (match ws with
    | [("w" | "u") as c; path; pl; label; name; p] ->
        Hashtbl.replace labels path pl;
        let s = get path in
        let ((s', st), idx) = (if c = "w" then write else write_inplace) s (cs label) (cs name) (z_of_int (int_of_string p)) in
        Hashtbl.replace insts path s';
        if c = "w" then drop_below (join path name);      (* re-created: the subtree is gone; rewritten in place: it stays *)
        let st = int_of_z st in
        Printf.printf "w %d %d\n" st (if st = 0 then int_of_z idx else 0)
    | ["d"; path; pl; name] ->
        Hashtbl.replace labels path pl;
        let s = get path in
        let (s', st) = delete (disp_of delete_table not_deletable goto_table (cs pl)) s (cs name) in
        Hashtbl.replace insts path s';
        let st = int_of_z st in
        if st = 0 then drop_below (join path name);
        Printf.printf "d %d\n" (if st = 0 then 0 else 1)
    | ["ln"; path; pl; label; name; file; target] ->
        Hashtbl.replace labels path pl;
        let s = get path in
        let code = link_code ((if file = "-" then "" else file) ^ "|" ^ target) in
        let (s', st) = link_at link_parents (cs pl) s (cs label) (cs name) (z_of_int code) in
        Hashtbl.replace insts path s';
        Printf.printf "l %d\n" (int_of_z st)
    | ["raw"; path; pl; name; p] ->
        (* a node the mid-level library does not interpret, created through cgio: in the file only (Mirror.link_new) *)
        Hashtbl.replace labels path pl;
        let (s', st) = link_new (get path) (cs "Blob_t") (cs name) (z_of_int (int_of_string p)) in
        Hashtbl.replace insts path s';
        Printf.printf "l %d\n" (int_of_z st)
    | ["v"; path; pl; "Blob_t"] ->
        (* ... and listed through cgio: what the file holds *)
        Hashtbl.replace labels path pl;
        show_view (view_file (cgns_sorted (cs pl)) (get path) (cs "Blob_t"))
    | ["v"; path; pl; label] ->
        Hashtbl.replace labels path pl;
        show_view (view_session (get path) (cs label))
    | "reopen" :: _ ->
        let keys = Hashtbl.fold (fun k _ acc -> k :: acc) insts [] in
        Stdlib.List.iter (fun k ->
            let pl = match Hashtbl.find_opt labels k with Some l -> l | None -> "" in
            Hashtbl.replace insts k (reopen (cgns_sorted (cs pl)) (Hashtbl.find insts k))) keys;
        Printf.printf "o 0\n"
    | ["drop"; path] -> drop_below path
    | ["tables"] -> tables ()
    | _ -> ());
    flush stdout
  done with End_of_file -> ())
