(* engine c09: the extracted copy / cgnsdiff model (coq/Copy.v, version Cur = the code of /repo now) driven by a world
   description.

   input (one item per line, names / labels / types / paths / data as lowercase hex, "-" = empty):
     F <file> <adf|hdf5>                          begin the definition of a file (its root is the back end's new root)
     N <depth> <name> <label> <type> <dims csv|-> <data|->      a proper node, pre-order, depth >= 1
     L <depth> <name> <file|-> <path>                            a link node
     E                                            end of the file definition
     copy <src> <dst> <dst adf|hdf5> <follow 0|1> cgio_copy_file / cg_save_as / cgnsconvert; dst is added to the world
     rewrite <src> <filename> <adf|hdf5>          rewrite_file / cgio_compress_file / cgnscompress
     dump <file>                                  canonical dump, links reported
     view <file>                                  canonical dump of the fully resolved view
     mver old|cur                                 the matching code before / after /repo 180fd8e (default cur)
     diff <f1> <f2> <opts> [<tol>]                cgnsdiff's standard output; opts over d f c i, "-" for none; tol = -t as the 16
                                                  hex digits of the double
     diffds <f1> <ds1> <f2> <ds2> <opts>          dataset mode (opts may contain r)
   output: dump lines as harness/c09_ops.c prints them, closed by "E <status>". *)
open Model
open Zutil

let hexs (b : z list) = hex_of_bytes b
let str_of_bytes (b : z list) = Stdlib.String.concat "" (Stdlib.List.map (fun c -> Stdlib.String.make 1 (Stdlib.Char.chr (int_of_z c))) b)

let fnv (d : z list) : string =
  let h = ref 0xcbf29ce484222325L in
  Stdlib.List.iter (fun b -> h := Stdlib.Int64.mul (Stdlib.Int64.logxor !h (Stdlib.Int64.of_int (int_of_z b))) 0x100000001b3L) d;
  Stdlib.Printf.sprintf "%016Lx" !h

let cmp_name a b = if bytes_ltb (node_name a) (node_name b) then -1 else if bytes_ltb (node_name b) (node_name a) then 1 else 0

let rec dump_node (path : string) (n : node) =
  match n with
  | LinkNode (nm, f, p) ->
      Stdlib.Printf.printf "L %s/%s %s %s\n" path (hexs nm) (hexs f) (hexs p)
  | Node (nm, l, dt, dims, data, ks) ->
      let me = path ^ "/" ^ hexs nm in
      let nodata = dims <> [] && str_of_bytes dt <> "MT" && data = [] in
      Stdlib.Printf.printf "N %s %s %s %s %s %s\n" me (hexs l) (hexs dt) (csv_of_zs dims)
        (if nodata then "nodata" else string_of_int (Stdlib.List.length data)) (if data = [] then "-" else fnv data);
      dump_kids me ks
and dump_kids path ks = Stdlib.List.iter (dump_node path) (Stdlib.List.stable_sort cmp_name ks)

let print_dline (d : dline) =
  let s = str_of_bytes in
  match d with
  | DLabel (a, b) -> Stdlib.Printf.printf "%s <> %s : labels differ\n" (s a) (s b)
  | DType (a, b) -> Stdlib.Printf.printf "%s <> %s : data types differ\n" (s a) (s b)
  | DNdim (a, b) -> Stdlib.Printf.printf "%s <> %s : number of dimensions differ\n" (s a) (s b)
  | DDims (a, b) -> Stdlib.Printf.printf "%s <> %s : dimensions differ\n" (s a) (s b)
  | DData (a, b) -> Stdlib.Printf.printf "%s <> %s : data values differ\n" (s a) (s b)
  | DLeft a -> Stdlib.Printf.printf "< %s\n" (s a)
  | DRight a -> Stdlib.Printf.printf "> %s\n" (s a)
  | DErrExit -> print_string "!err_exit\n"
  | DPathOverflow -> print_string "!path_overflow\n"
  | DOutOfBounds -> print_string "!out_of_bounds\n"
  | DFuel -> print_string "!fuel\n"

(* pre-order (depth, node-without-children) list -> forest *)
type item = int * (node list -> node)
let rec build (d : int) (items : item list) : node list * item list =
  match items with
  | (d', mk) :: rest when d' = d ->
      let (kids, rest') = build (d + 1) rest in
      let (sibs, rest'') = build d rest' in
      (mk kids :: sibs, rest'')
  | _ -> ([], items)

let with_kids root ks = match root with Node (n, l, t, d, da, _) -> Node (n, l, t, d, da, ks) | x -> x
let fuel = nat_of_int 200
(* -t: the 16 hex digits of the double atof yields; absent = 0.0 *)
let rec z_of_hex (s : string) : z =
  let n = Stdlib.String.length s in
  let rec go i acc = if i >= n then acc else go (i + 1) (Z.add (Z.mul acc (z_of_int 16)) (z_of_int (hexval s.[i]))) in go 0 Z0
let tol_of tl = match tl with t :: _ -> z_of_hex t | [] -> Z0

let run () =
  let w : ((z list * node) list) ref = ref [] in
  let cur : (z list * bool * item list) option ref = ref None in
  let mv = ref MCur in
  let status r = match r with Ok _ -> "ok" | Err -> "err" | OutOfFuel -> "fuel" | Overflow -> "overflow" in
  (try while true do
    let line = input_line stdin in
    let t = Stdlib.String.split_on_char ' ' (Stdlib.String.trim line) in
    match t with
    | ["F"; f; be] -> cur := Some (bytes_of_hex f, be = "hdf5", [])
    | ["N"; d; nm; l; ty; dims; data] ->
        (match !cur with
         | Some (f, h, items) ->
             let nm = bytes_of_hex nm and l = bytes_of_hex l and ty = bytes_of_hex ty and dims = zs_of_csv dims and data = bytes_of_hex data in
             cur := Some (f, h, (int_of_string d, (fun ks -> Node (nm, l, ty, dims, data, ks))) :: items)
         | None -> print_string "badline\n")
    | ["L"; d; nm; lf; lp] ->
        (match !cur with
         | Some (f, h, items) ->
             let nm = bytes_of_hex nm and lf = bytes_of_hex lf and lp = bytes_of_hex lp in
             cur := Some (f, h, (int_of_string d, (fun _ -> LinkNode (nm, lf, lp))) :: items)
         | None -> print_string "badline\n")
    | ["E"] ->
        (match !cur with
         | Some (f, h, items) ->
             let (ks, _) = build 1 (Stdlib.List.rev items) in
             w := set_file !w f (with_kids (new_root h) ks); cur := None
         | None -> print_string "badline\n")
    | ["copy"; src; dst; be; follow] ->
        let r = do_copy_file Cur fuel !w (bytes_of_hex src) (bytes_of_hex dst) (be = "hdf5") (follow = "1") in
        print_string "B copy\n";
        (match r with
         | Ok w' -> w := w'; (match get_file w' (bytes_of_hex dst) with Some r -> dump_kids "" (kids_of r) | None -> ())
         | _ -> ());
        Stdlib.Printf.printf "E %s\n" (status r)
    | ["rewrite"; src; fn; be] ->
        let r = rewrite_file Cur fuel !w (bytes_of_hex src) (bytes_of_hex fn) (be = "hdf5") in
        print_string "B rewrite\n";
        (match r with
         | Ok w' -> w := w'; (match get_file w' (bytes_of_hex fn) with Some r -> dump_kids "" (kids_of r) | None -> ())
         | _ -> ());
        Stdlib.Printf.printf "E %s\n" (status r)
    | ["dump"; f] ->
        print_string "B dump\n";
        (match get_file !w (bytes_of_hex f) with
         | Some r -> dump_kids "" (kids_of r); print_string "E ok\n"
         | None -> print_string "E err\n")
    | ["view"; f] ->
        print_string "B view\n";
        (match get_file !w (bytes_of_hex f) with
         | Some r -> (match full_view (nat_of_int 100) !w (bytes_of_hex f) r with
                      | Some v -> dump_kids "" (kids_of v); print_string "E ok\n"
                      | None -> print_string "E none\n")
         | None -> print_string "E err\n")
    | ["mver"; x] -> mv := (if x = "old" then MOld else MCur)
    | "diff" :: f1 :: f2 :: opts :: tl ->
        (* opts: a string over d f c i (or "-"); whole-file mode forces recurse *)
        let has c = Stdlib.String.contains opts c in
        let o = { d_data = has 'd'; d_follow = has 'f'; d_case = has 'c'; d_space = has 'i'; d_recurse = true; d_tol = tol_of tl } in
        print_string "B diff\n";
        Stdlib.List.iter print_dline (cgnsdiff Cur !mv o !w !w fuel (bytes_of_hex f1) (bytes_of_hex f2));
        print_string "E diff\n"
    | "diffds" :: f1 :: ds1 :: f2 :: ds2 :: opts :: tl ->
        (* dataset mode: cgnsdiff [opts] file1 ds1 file2 ds2 ; r = -r *)
        let has c = Stdlib.String.contains opts c in
        let o = { d_data = has 'd'; d_follow = has 'f'; d_case = has 'c'; d_space = has 'i'; d_recurse = has 'r'; d_tol = tol_of tl } in
        print_string "B diffds\n";
        Stdlib.List.iter print_dline (cgnsdiff_ds Cur !mv o !w !w fuel (bytes_of_hex f1) (bytes_of_hex ds1) (bytes_of_hex f2) (bytes_of_hex ds2));
        print_string "E diffds\n"
    | [""] -> ()
    | _ -> if Stdlib.String.length line > 0 && line.[0] = '#' then () else Stdlib.Printf.printf "badline %s\n" line
  done with End_of_file -> ())
