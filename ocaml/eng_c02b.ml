(* engine c02b: replays a trace of harness/c02b_trace.c (the "T ..." lines; everything else on stdin is ignored)
   through the extracted AdfCache / AdfStack / AdfChildTab models.
   For each T line one output line:
     ok                              model and implementation agree on the result and on the cache state
     DIFF <what> model=.. impl=..    they do not
   possibly preceded by lines
     VIOL unsafe|range|discipline <event> ...     the side condition of a theorem does not hold at this step
   and at the end  SUMMARY key=value ...  (hits, flushes, evictions, ... as the MODEL took them). *)
open Model
open Zutil

let zi = z_of_int and iz = int_of_z
let hp = 2147483647
let hbytes_z (l : z list) = List.fold_left (fun h b -> (h * 131 + iz b + 1) mod hp) 7 l
let split s = List.filter (fun x -> x <> "") (String.split_on_char ' ' s)
let str_of_hex s = if s = "-" then "" else String.init (String.length s / 2) (fun i -> Char.chr (int_of_string ("0x" ^ String.sub s (2*i) 2)))

(* physical-equality cache for the hashes of the two 4096-byte buffers *)
let rd_c = ref ([], 0) and wr_c = ref ([], 0)
let hbuf c l = if fst !c == l then snd !c else (let h = hbytes_z l in c := (l, h); h)

let st = ref init_st
let tst = ref init_tst
let closed : (string, disk) Hashtbl.t = Hashtbl.create 8
let fipath : (int, string) Hashtbl.t = Hashtbl.create 8
let tabs : (string * int, ctab) Hashtbl.t = Hashtbl.create 64
let pending_close = ref (-1)
let cnt = Hashtbl.create 16
let bump k = Hashtbl.replace cnt k (1 + try Hashtbl.find cnt k with Not_found -> 0)
let maxopen = ref 0 and nopen = ref 0

let state_string () =
  let c = !st.c_ in
  Printf.sprintf "%d %d %d %d %d %d %d %d" (iz c.last_rd_block) (iz c.last_rd_file) (iz c.num_in_rd)
    (iz c.last_wr_block) (iz c.last_wr_file) (iz c.flush_wr) (hbuf rd_c c.rd_buf) (hbuf wr_c c.wr_buf)

let stack_hash () =
  let h = ref 11 in
  let mix v = h := (!h * 1000003 + ((v + 2) mod hp)) mod hp in
  List.iter (fun e -> mix (iz e.e_file); mix ((iz e.e_block) mod hp); mix (iz e.e_off); mix (iz e.e_type); mix (iz e.e_prio)) !tst.t_stk.stk;
  !h

let disk_sig (d : disk) = let l = disk_to_list d in (List.length l, hbytes_z l)
let inuse f = match fget !st (zi f) with Some _ -> true | None -> false

let out = Buffer.create 65536
let say s = Buffer.add_string out s; Buffer.add_char out '\n'
let flush_out () = print_string (Buffer.contents out); Buffer.clear out

let res_code = function RUnit -> -1 | RBytes _ -> -1 | RErr e -> iz e

let cache_op (o : op) (desc : string) =
  if not (safe_step !st o) then say ("VIOL unsafe " ^ desc ^ " state=" ^ state_string ());
  if not (in_c_range o) then say ("VIOL range " ^ desc);
  let c = !st.c_ in
  let dirty = iz c.flush_wr > 0 and wb = iz c.last_wr_block and wf = iz c.last_wr_file in
  let (r, s') = step !st o in
  st := s';
  let c' = s'.c_ in
  if dirty && (iz c'.flush_wr <= 0 || iz c'.last_wr_block <> wb || iz c'.last_wr_file <> wf) then bump "flushes";
  r

let cmp_state rest = match rest with
  | ["S"; "-"] -> None
  | "S" :: l -> let impl = String.concat " " l in let m = state_string () in if m = impl then None else Some ("state model=" ^ m ^ " impl=" ^ impl)
  | _ -> Some "state missing"

let parse_entries (s : string) : (z list * (z * z)) list =
  if s = "-" then [] else
  List.map (fun e -> match String.split_on_char ':' e with
    | [n; b; o] -> (bytes_of_hex n, (zi (int_of_string b), zi (int_of_string o)))
    | _ -> failwith "entry") (String.split_on_char ',' s)

let tab_string (t : ctab) =
  Printf.sprintf "%d %d %s" (iz t.num) (iz t.cap)
    (if t.ents = [] then "-" else String.concat "," (List.map (fun (n, (b, o)) -> Printf.sprintf "%s:%d:%d" (hex_of_bytes n) (iz b) (iz o)) t.ents))

let tab_key fi addr = ((try Hashtbl.find fipath fi with Not_found -> "?"), addr)

let handle (w : string list) =
  let pc = !pending_close in
  pending_close := -1;
  match w with
  | ["O"; fi; size; hash; path] ->
      let fi = int_of_string fi and size = int_of_string size and hash = int_of_string hash in
      let path = str_of_hex path in
      Hashtbl.replace fipath fi path;
      let d = if size = 0 then (Hashtbl.filter_map_inplace (fun (p, _) v -> if p = path then None else Some v) tabs; disk_of_list [])
              else (try Hashtbl.find closed path with Not_found -> disk_of_list []) in
      let (ms, mh) = disk_sig d in
      let r = cache_op (OOpen (zi fi, d)) ("open " ^ string_of_int fi) in
      let (t', okd) = tstep !tst (TOpen (zi fi, d)) in
      tst := t';
      if not okd then say (Printf.sprintf "VIOL discipline open %d: entries of this slot are still cached" fi);
      incr nopen; if !nopen > !maxopen then maxopen := !nopen;
      if r <> RUnit then say "DIFF open model refuses"
      else if (ms, mh) <> (size, hash) then say (Printf.sprintf "DIFF file-at-open model=%d/%d impl=%d/%d" ms mh size hash)
      else say "ok"
  | "R" :: fi :: b :: o :: len :: err :: how :: data :: rest ->
      let fi = int_of_string fi and b = int_of_string b and o = int_of_string o and len = int_of_string len
      and err = int_of_string err and how = int_of_string how in
      let c = !st.c_ in
      let mhow = if len + o > 4096 then 3
        else if iz c.num_in_rd >= 4096 && iz c.last_rd_block = b && iz c.last_rd_file = fi then 0
        else if iz c.last_wr_block = b && iz c.last_wr_file = fi then 1 else 2 in
      let desc = Printf.sprintf "read %d %d %d %d" fi b o len in
      let r = cache_op (ORead (zi fi, zi b, zi o, zi len)) desc in
      if err = -1 then bump (Printf.sprintf "read_how%d" mhow);
      let d1 = match r with
        | RBytes bs -> if err <> -1 then Some (Printf.sprintf "status model=-1 impl=%d" err)
                       else let m = hex_of_bytes bs in if m = data then None else Some ("bytes model=" ^ m ^ " impl=" ^ data)
        | RErr e -> if err = iz e then None else Some (Printf.sprintf "status model=%d impl=%d" (iz e) err)
        | RUnit -> Some "model returned unit" in
      let d2 = if how >= 0 && how <> mhow then Some (Printf.sprintf "path model=%d impl=%d" mhow how) else None in
      (match d1, d2, cmp_state rest with
       | None, None, None -> say "ok"
       | Some x, _, _ | None, Some x, _ | None, None, Some x -> say ("DIFF " ^ desc ^ " " ^ x))
  | "W" :: fi :: b :: o :: len :: err :: data :: rest ->
      let fi = int_of_string fi and b = int_of_string b and o = int_of_string o and len = int_of_string len
      and err = int_of_string err in
      let bytes = bytes_of_hex data in
      let desc = Printf.sprintf "write %d %d %d %d" fi b o len in
      if len + o > 4096 then bump "multiblock_writes";
      let r = cache_op (OWrite (zi fi, zi b, zi o, bytes)) desc in
      if err = -1 && len > 0 then begin
        let (t', okd) = tstep !tst (TWrite (zi fi, zi (b * 4096 + o), bytes)) in
        tst := t'; if not okd then say ("VIOL discipline " ^ desc)
      end;
      let d1 = if res_code r = err then None else Some (Printf.sprintf "status model=%d impl=%d" (res_code r) err) in
      (match d1, cmp_state rest with
       | None, None -> say "ok"
       | Some x, _ | None, Some x -> say ("DIFF " ^ desc ^ " " ^ x))
  | "F" :: fi :: mode :: err :: size :: hash :: rest ->
      let fi = int_of_string fi and mode = int_of_string mode and err = int_of_string err
      and size = int_of_string size and hash = int_of_string hash in
      let desc = Printf.sprintf "flush %d %d" fi mode in
      let r = cache_op (if mode = 1 then OFlushClose (zi fi) else OFlush (zi fi)) desc in
      let d1 = if res_code r = err then None else Some (Printf.sprintf "status model=%d impl=%d" (res_code r) err) in
      let d2 = if mode = 1 && err = -1 then
          (match fget !st (zi fi) with
           | Some d -> let (ms, mh) = disk_sig d in
               if (ms, mh) = (size, hash) then None else Some (Printf.sprintf "file-after-flush-close model=%d/%d impl=%d/%d" ms mh size hash)
           | None -> Some "model has no such file")
        else None in
      if mode = 1 then pending_close := fi;
      (match d1, d2, cmp_state rest with
       | None, None, None -> say "ok"
       | Some x, _, _ | None, Some x, _ | None, None, Some x -> say ("DIFF " ^ desc ^ " " ^ x))
  | "K" :: mode :: fi :: b :: o :: ty :: len :: ret :: data :: rest ->
      let mode = int_of_string mode and fi = int_of_string fi and b = int_of_string b and o = int_of_string o
      and ty = int_of_string ty and len = int_of_string len and ret = int_of_string ret in
      let desc = Printf.sprintf "stack mode=%d %d %d %d type=%d len=%d" mode fi b o ty len in
      let sop = match mode with
        | 0 -> SInit | 1 -> SClear (zi fi) | 2 -> SClearType (zi fi, zi ty) | 3 -> SDel (zi fi, zi b, zi o)
        | 4 -> SGet (zi fi, zi b, zi o, zi ty, zi len) | _ -> SSet (zi fi, zi b, zi o, zi ty, bytes_of_hex data) in
      let u = inuse fi in
      let ((r, _), ev) = sstep u !tst.t_stk sop in
      let (t', okd) = tstep !tst (TStack (u, sop)) in
      tst := t';
      if not okd then say ("VIOL discipline " ^ desc);
      if ev <> None then bump "stack_evictions";
      (match r with SFound _ -> bump "stack_hits" | SNotFound -> bump "stack_misses" | _ -> ());
      let d1 = match r with
        | SOk -> if ret = -1 then None else Some (Printf.sprintf "status model=-1 impl=%d" ret)
        | SFound d -> if ret <> -1 then Some (Printf.sprintf "status model=found impl=%d" ret)
                      else let m = hex_of_bytes d in if m = data then None else Some ("bytes model=" ^ m ^ " impl=" ^ data)
        | SNotFound -> if ret = 59 then None else Some (Printf.sprintf "status model=59 impl=%d" ret)
        | SErr e -> if ret = iz e then None else Some (Printf.sprintf "status model=%d impl=%d" (iz e) ret) in
      let d2 = match rest with
        | ["S"; "-"] -> None
        | ["S"; h; link] ->
            let mh = stack_hash () in
            if mh <> int_of_string h then Some (Printf.sprintf "stack-headers model=%d impl=%s" mh h)
            else if mode <= 2 && ret = -1 && link <> "0" then Some "link cache not reset by a clear mode" else None
        | _ -> Some "state missing" in
      if mode = 1 && pc = fi then begin
        (* ADFI_close_file: FLUSH_CLOSE, close(fd), CLEAR_STK, in_use = 0 *)
        (match fget !st (zi fi) with Some d -> Hashtbl.replace closed (try Hashtbl.find fipath fi with Not_found -> "?") d | None -> ());
        ignore (cache_op (OClose (zi fi)) ("close " ^ string_of_int fi)); decr nopen
      end;
      (match d1, d2 with
       | None, None -> say "ok"
       | Some x, _ | None, Some x -> say ("DIFF " ^ desc ^ " " ^ x))
  | [("A" | "D") as k; fi; pb; po; caddr; err; cname; ccap; num; cap; ents] ->
      let fi = int_of_string fi and pb = int_of_string pb and po = int_of_string po and caddr = int_of_string caddr
      and err = int_of_string err and ccap = int_of_string ccap in
      let pkey = tab_key fi (pb * 4096 + po) and ckey = tab_key fi caddr in
      let t = try Hashtbl.find tabs pkey with Not_found -> empty_tab in
      let child = (zi (caddr / 4096), zi (caddr mod 4096)) in
      let desc = Printf.sprintf "%s parent=%d/%d child=%d" (if k = "A" then "add_child" else "del_child") pb po caddr in
      if err <> -1 then say "ok" else begin
        let impl = Printf.sprintf "%s %s %s" num cap ents in
        if k = "A" then begin
          if ccap = 0 then Hashtbl.remove tabs ckey;
          bump "child_adds";
          let nm = bytes_of_hex cname in
          let dup = match check_child t nm with Some _ -> true | None -> false in
          match add_child t nm child with
          | Some (COk t') ->
              if iz t'.cap <> iz t.cap then bump "child_table_growths";
              Hashtbl.replace tabs pkey t';
              let m = tab_string t' in
              if dup then say ("DIFF " ^ desc ^ " name already present in the model table")
              else if m = impl then say "ok"
              else (Hashtbl.replace tabs pkey { cap = zi (int_of_string cap); num = zi (int_of_string num); ents = parse_entries ents };
                    say ("DIFF " ^ desc ^ " table model=" ^ m ^ " impl=" ^ impl))
          | Some (CErr e) -> say (Printf.sprintf "DIFF %s model error %d" desc (iz e))
          | None -> say ("DIFF " ^ desc ^ " outside the model")
        end else begin
          bump "child_deletes";
          (* the child may have been MOVED (ADF_Move_Child adds to the new parent, then deletes from the old one):
             its own table stays; a table left behind by a deleted node is reset when its address is reused (ccap = 0) *)
          match del_child t child with
          | COk t' ->
              Hashtbl.replace tabs pkey t';
              let m = tab_string t' in
              if m = impl then say "ok"
              else (Hashtbl.replace tabs pkey { cap = zi (int_of_string cap); num = zi (int_of_string num); ents = parse_entries ents };
                    say ("DIFF " ^ desc ^ " table model=" ^ m ^ " impl=" ^ impl))
          | CErr e -> say (Printf.sprintf "DIFF %s model error %d" desc (iz e))
        end
      end
  | ["N"; fi; pb; po; oldn; newn; num; cap; ents] ->
      let fi = int_of_string fi and pb = int_of_string pb and po = int_of_string po in
      let pkey = tab_key fi (pb * 4096 + po) in
      let t = try Hashtbl.find tabs pkey with Not_found -> empty_tab in
      let desc = Printf.sprintf "rename parent=%d/%d" pb po in
      bump "child_renames";
      (match rename_child t (bytes_of_hex oldn) (bytes_of_hex newn) with
       | COk t' ->
           Hashtbl.replace tabs pkey t';
           let m = tab_string t' and impl = Printf.sprintf "%s %s %s" num cap ents in
           if m = impl then say "ok"
           else (Hashtbl.replace tabs pkey { cap = zi (int_of_string cap); num = zi (int_of_string num); ents = parse_entries ents };
                 say ("DIFF " ^ desc ^ " table model=" ^ m ^ " impl=" ^ impl))
       | CErr e -> say (Printf.sprintf "DIFF %s model error %d" desc (iz e)))
  | "C" :: cs ->
      let g k = try Hashtbl.find cnt k with Not_found -> 0 in
      let model = [g "read_how0"; g "read_how1"; g "read_how2"; g "read_how3"; g "flushes"; g "multiblock_writes"; g "stack_hits"; g "stack_evictions"] in
      let impl = List.map int_of_string cs in
      if model = impl then say "ok" else say (Printf.sprintf "DIFF counters model=%s impl=%s" (csv_of_ints model) (csv_of_ints impl))
  | _ -> say ("DIFF unparsed " ^ String.concat " " w)

(* hygiene at the end of every API call (any line that is not a trace line): no live entry may still sit on bytes that
   were overwritten after it was set -- "every write path must SET or DEL the entry it overwrites on disk" in its
   strict reading (the theorem needs only: before the entry is looked up again) *)
let leftovers_seen : (int * int * int, unit) Hashtbl.t = Hashtbl.create 16
let check_leftovers () =
  if !tst.t_taint <> [] then
    List.iter (fun e ->
        if iz e.e_type >= 0 && tainted !tst.t_taint (entry_key e) then begin
          let k = (iz e.e_file, iz e.e_block, iz e.e_off) in
          if not (Hashtbl.mem leftovers_seen k) then begin
            Hashtbl.replace leftovers_seen k ();
            say (Printf.sprintf "VIOL leftover file=%d block=%d offset=%d type=%d: cached entry not refreshed/deleted by the call that overwrote its bytes"
                   (iz e.e_file) (iz e.e_block) (iz e.e_off) (iz e.e_type))
          end
        end) !tst.t_stk.stk

let run () =
  (try while true do
    let line = input_line stdin in
    if String.length line > 2 && line.[0] = 'T' && line.[1] = ' ' then begin
      (try handle (split (String.sub line 2 (String.length line - 2)))
       with Failure m -> say ("DIFF engine-failure " ^ m));
      if Buffer.length out > 60000 then flush_out ()
    end else if String.length line >= 2 && (String.sub line 0 2 = "ok" || String.sub line 0 2 = "er") then check_leftovers ()
  done with End_of_file -> ());
  let g k = try Hashtbl.find cnt k with Not_found -> 0 in
  say (Printf.sprintf "SUMMARY rd_hits=%d rd_from_wr=%d rd_disk=%d rd_large=%d flushes=%d multiblock_writes=%d stack_hits=%d stack_misses=%d stack_evictions=%d child_adds=%d child_deletes=%d child_renames=%d child_table_growths=%d max_files_open=%d live_stack=%d"
         (g "read_how0") (g "read_how1") (g "read_how2") (g "read_how3") (g "flushes") (g "multiblock_writes")
         (g "stack_hits") (g "stack_misses") (g "stack_evictions") (g "child_adds") (g "child_deletes") (g "child_renames")
         (g "child_table_growths") !maxopen (int_of_nat (live_count !tst.t_stk.stk)));
  flush_out ()
