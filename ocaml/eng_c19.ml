(* engine c19: argv.(1) = "unit" drives the converters / chunk loops / header functions of AdfFormat directly,
   "api" replays ADF_* call scripts on a table of model files.  Same script language and output lines as
   harness/c19_unit.c and harness/c19_api.c.  Parsing, printing and the bookkeeping of nodes are trusted glue;
   every byte that is converted, compared or reported comes from the extracted model. *)
open Model
open Zutil

let ztab = Array.init 256 z_of_int
let zb i = ztab.(i land 255)
let bytes_of_hex_fast (s:string) : z list =
  if s = "-" || s = "" then [] else begin
    let n = String.length s / 2 in
    let r = ref [] in
    for i = n - 1 downto 0 do r := zb (hexval s.[2*i] * 16 + hexval s.[2*i+1]) :: !r done;
    !r end
let hex_of_bytes_fast (l:z list) : string =
  if l = [] then "-" else begin
    let b = Buffer.create 1024 in
    List.iter (fun x -> Buffer.add_string b (Printf.sprintf "%02x" (int_of_z x))) l;
    Buffer.contents b end
let zs (s:string) : z list = List.init (String.length s) (fun i -> zb (Char.code s.[i]))
let str_of_zs (l:z list) : string = String.concat "" (List.map (fun x -> String.make 1 (Char.chr (int_of_z x))) l)
let zc (s:string) : z = zb (Char.code s.[0])
let temp0 = List.init 16 (fun _ -> zb 0)
let garb = ((zb 63, zb 63), zb 63)
let dtype_of_string (s:string) : dtype =
  match dtype_of_chars (zb (Char.code s.[0])) (zb (Char.code s.[1])) with Ok d -> d | Err _ -> failwith "dtype"
let rec take n l = if n <= 0 then [] else match l with [] -> [] | x :: r -> x :: take (n-1) r
let rec drop n l = if n <= 0 then l else match l with [] -> [] | _ :: r -> drop (n-1) r
let rec rtake n l acc = if n <= 0 then List.rev acc else match l with [] -> List.rev acc | x :: r -> rtake (n-1) r (x :: acc)
let take n l = rtake n l []
let fmt_opt s = if s = "NULL" then None else Some (zs s)

(* ------------------------------------------------------------------ unit *)
let run_unit () =
  (try while true do
    let line = input_line stdin in
    match String.split_on_char ' ' (String.trim line) with
    | ["sizes"] ->
        Printf.printf "sizes %s\n" (String.concat "|" (List.map (fun r ->
          String.concat "," (List.map (fun x -> string_of_int (int_of_z x)) r)) machine_sizes))
    | ["figure"; f] ->
        let (((e, mf), fu), ou) = figure_machine_format this_host (fmt_opt f) garb in
        Printf.printf "figure err=%d machine=%c use=%c os=%c\n" (int_of_z e) (Char.chr (int_of_z mf))
          (Char.chr (int_of_z fu)) (Char.chr (int_of_z ou))
    | ["header"; f; o] ->
        (match fill_initial_file_header this_host (zc f) (zc o) with
         | Err e -> Printf.printf "header err=%d -\n" (int_of_z e)
         | Ok h -> Printf.printf "header err=-1 %s\n" (hex_of_bytes_fast (header_bytes h)))
    | ["conv"; ff; fos; tf; tos; dir; ty; fsz; msz; len; count; hex] ->
        let t = dtype_of_string ty in
        let fs = int_of_string fsz and ms = int_of_string msz and ln = int_of_string len in
        let tt = { tt_toks = [ { tk_type = t; tk_len = z_of_int ln; tk_fsize = z_of_int fs; tk_msize = z_of_int ms } ];
                   tt_fbytes = z_of_int (fs * ln); tt_mbytes = z_of_int (ms * ln) } in
        (match convert_number_format (zc ff) (zc fos) (zc tf) (zc tos) (dir = "1") tt (z_of_int (int_of_string count))
                 (bytes_of_hex_fast hex) temp0 with
         | Err e -> Printf.printf "conv err=%d -\n" (int_of_z e)
         | Ok o -> Printf.printf "conv err=-1 %s\n" (hex_of_bytes_fast o))
    | ["wt"; mf; mo; ff; fo; ty; fsz; msz; count; hex] ->
        let t = dtype_of_string ty in
        let fs = int_of_string fsz and ms = int_of_string msz and cnt = int_of_string count in
        let tt = { tt_toks = [ { tk_type = t; tk_len = z_of_int 1; tk_fsize = z_of_int fs; tk_msize = z_of_int ms } ];
                   tt_fbytes = z_of_int fs; tt_mbytes = z_of_int ms } in
        let (ws, e) = write_data_translated (zc mf) (zc mo) (zc ff) (zc fo) tt (z_of_int fs) (z_of_int (fs * cnt))
                        (bytes_of_hex_fast hex) temp0 in
        let file = apply_writes [] Z0 ws in
        Printf.printf "wt err=%d %s\n" (int_of_z e) (hex_of_bytes_fast (take (fs * cnt) file))
    | ["rt"; mf; mo; ff; fo; ty; fsz; msz; count; hex] ->
        let t = dtype_of_string ty in
        let fs = int_of_string fsz and ms = int_of_string msz and cnt = int_of_string count in
        let tt = { tt_toks = [ { tk_type = t; tk_len = z_of_int 1; tk_fsize = z_of_int fs; tk_msize = z_of_int ms } ];
                   tt_fbytes = z_of_int fs; tt_mbytes = z_of_int ms } in
        let (o, e) = read_data_translated (zc ff) (zc fo) (zc mf) (zc mo) tt (z_of_int fs) (z_of_int (fs * cnt))
                       (bytes_of_hex_fast hex) temp0 in
        if int_of_z e = -1 then Printf.printf "rt err=-1 %s\n" (hex_of_bytes_fast o)
        else Printf.printf "rt err=%d -\n" (int_of_z e)
    | [""] -> ()
    | _ -> print_string "badline\n"
  done with End_of_file -> ())

(* ------------------------------------------------------------------ api *)
type node = { nty : dtype; nn : int; mutable ndata : z list option }
type mfile = { mutable hb : z list; old : bool; nodes : (string, node) Hashtbl.t }

let run_api () =
  let files : (string, mfile) Hashtbl.t = Hashtbl.create 7 in
  let cur : (mfile * header) option ref = ref None in
  let a5 = zb 0xA5 in
  let pad nbytes l = let n = List.length l in if n >= nbytes then take nbytes l else l @ List.init (nbytes - n) (fun _ -> a5) in
  let not_open = 54 in      (* what the ADF entry points answer on a root id of a closed / never opened file *)
  let do_open path status f =
    let st = String.uppercase_ascii status in
    if st = "NEW" then begin
      match database_open_new this_host (fmt_opt f) garb with
      | Err e -> cur := None; int_of_z e
      | Ok h ->
          let legacy = match fmt_opt f with None -> false | Some s -> stridx0 s s_LEGACY in
          let mf = { hb = header_bytes h; old = legacy; nodes = Hashtbl.create 7 } in
          Hashtbl.replace files path mf; cur := Some (mf, h); -1
    end else begin
      let mf = Hashtbl.find files path in
      match database_open_old this_host mf.old mf.hb with
      | Err e -> cur := None; int_of_z e
      | Ok h -> cur := Some (mf, h); -1
    end in
  let with_node name (k : mfile -> header -> node -> toktype -> unit) (fail : int -> unit) =
    match !cur with
    | None -> fail not_open
    | Some (mf, h) ->
        (match Hashtbl.find_opt mf.nodes name with
         | None -> fail 29
         | Some nd -> (match evaluate_datatype h nd.nty with Err e -> fail (int_of_z e) | Ok tt -> k mf h nd tt)) in
  let node_bytes nd tt = match nd.ndata with Some d -> d | None -> List.init (int_of_z tt.tt_fbytes * nd.nn) (fun _ -> zb 0) in
  let wfail e = Printf.printf "w err=%d\n" e in
  let rfail nbytes e = Printf.printf "r err=%d %s\n" e (hex_of_bytes_fast (pad nbytes [])) in
  let write_all name data =
    with_node name (fun mf h nd tt ->
      let fb = int_of_z tt.tt_fbytes in
      let (d, e) = chunk_write this_host mf.old h tt (node_bytes nd tt) Z0 (z_of_int (fb * nd.nn)) data temp0 in
      if int_of_z e = -1 then nd.ndata <- Some d;
      Printf.printf "w err=%d\n" (int_of_z e)) wfail in
  let read_all name nbytes =
    with_node name (fun mf h nd tt ->
      let fb = int_of_z tt.tt_fbytes and mb = int_of_z tt.tt_mbytes in
      match nd.ndata with
      | None -> Printf.printf "r err=33 %s\n" (hex_of_bytes_fast (pad nbytes (List.init (fb * nd.nn * mb / fb) (fun _ -> zb 0))))
      | Some d ->
          let (o, e) = chunk_read this_host mf.old h tt d Z0 (z_of_int (fb * nd.nn)) temp0 in
          Printf.printf "r err=%d %s\n" (int_of_z e) (hex_of_bytes_fast (pad nbytes o))) (rfail nbytes) in
  (try while true do
    let line = input_line stdin in
    match String.split_on_char ' ' (String.trim line) with
    | ["open"; path; status; f] -> Printf.printf "open err=%d\n" (do_open path status f)
    | ["cgopen"; path; m] ->
        let e = if m = "w" then do_open path "NEW" "NATIVE" else do_open path "OLD" "NULL" in
        Printf.printf "cgopen err=%d\n" e
    | ["fmt"] ->
        (match !cur with
         | None -> Printf.printf "fmt - err=%d\n" not_open
         | Some (_, h) -> (match get_format h with
                           | Ok s -> Printf.printf "fmt %s err=-1\n" (str_of_zs s)
                           | Err e -> Printf.printf "fmt - err=%d\n" (int_of_z e)))
    | ["close"] -> Printf.printf "close err=%d\n" (match !cur with None -> not_open | Some _ -> -1); cur := None
    | ["cgclose"] -> Printf.printf "cgclose err=%d\n" (match !cur with None -> not_open | Some _ -> -1); cur := None
    | ["patch"; path; off; hex] ->
        let mf = Hashtbl.find files path in
        let o = int_of_string off - 100 and b = bytes_of_hex_fast hex in
        mf.hb <- take o mf.hb @ b @ drop (o + List.length b) mf.hb;
        print_string "patch ok\n"
    | ["node"; name; ty; n] ->
        (match !cur with
         | None -> Printf.printf "node err=%d\n" not_open
         | Some (mf, _) -> Hashtbl.replace mf.nodes name { nty = dtype_of_string ty; nn = int_of_string n; ndata = None };
                           print_string "node err=-1\n")
    | ["redim"; name; ty; n] ->
        (* the node keeps its name; its contents are unspecified until the next full write (the generator always
           follows a redim by a wall) *)
        (match !cur with
         | None -> Printf.printf "node err=%d\n" not_open
         | Some (mf, _) ->
             if Hashtbl.mem mf.nodes name then begin
               Hashtbl.replace mf.nodes name { nty = dtype_of_string ty; nn = int_of_string n; ndata = None };
               print_string "node err=-1\n" end
             else print_string "node err=29\n")
    | ["wall"; name; hex] -> write_all name (bytes_of_hex_fast hex)
    | ["cgwrite"; name; ty; n; hex] ->
        (match !cur with
         | None -> wfail not_open
         | Some (mf, _) -> Hashtbl.replace mf.nodes name { nty = dtype_of_string ty; nn = int_of_string n; ndata = None };
                           write_all name (bytes_of_hex_fast hex))
    | ["rall"; name; nbytes] -> read_all name (int_of_string nbytes)
    | ["cgread"; name; _; nbytes] -> read_all name (int_of_string nbytes)
    | ["wblk"; name; b0; b1; hex] ->
        with_node name (fun mf h nd tt ->
          let fb = int_of_z tt.tt_fbytes in
          let sb = fb * (int_of_string b0 - 1) and eb = fb * int_of_string b1 in
          let (d, e) = chunk_write this_host mf.old h tt (node_bytes nd tt) (z_of_int sb) (z_of_int (eb - sb))
                         (bytes_of_hex_fast hex) temp0 in
          if int_of_z e = -1 then nd.ndata <- Some d;
          Printf.printf "w err=%d\n" (int_of_z e)) wfail
    | ["rblk"; name; b0; b1; nbytes] ->
        let nbytes = int_of_string nbytes in
        with_node name (fun mf h nd tt ->
          let fb = int_of_z tt.tt_fbytes in
          let sb = fb * (int_of_string b0 - 1) and eb = fb * int_of_string b1 in
          let (o, e) = chunk_read this_host mf.old h tt (node_bytes nd tt) (z_of_int sb) (z_of_int (eb - sb)) temp0 in
          Printf.printf "r err=%d %s\n" (int_of_z e) (hex_of_bytes_fast (pad nbytes o))) (rfail nbytes)
    | ["wstr"; name; s0; s1; ss; _; m0; _; ms; hex] ->
        with_node name (fun mf h nd tt ->
          let fb = int_of_z tt.tt_fbytes and mb = int_of_z tt.tt_mbytes in
          let s0 = int_of_string s0 and s1 = int_of_string s1 and ss = int_of_string ss in
          let m0 = int_of_string m0 and ms = int_of_string ms in
          let mem = bytes_of_hex_fast hex in
          let cnt = (s1 - s0) / ss + 1 in
          let d = ref (node_bytes nd tt) and err = ref (-1) in
          (try for k = 0 to cnt - 1 do
            let (d', e) = chunk_write this_host mf.old h tt !d (z_of_int ((s0 - 1 + k * ss) * fb)) (z_of_int fb)
                            (drop ((m0 - 1 + k * ms) * mb) mem) temp0 in
            d := d';
            if int_of_z e <> -1 then (err := int_of_z e; raise Exit)
          done with Exit -> ());
          nd.ndata <- Some !d;
          Printf.printf "w err=%d\n" !err) wfail
    | ["rstr"; name; s0; s1; ss; _; m0; _; ms; nbytes] ->
        let nbytes = int_of_string nbytes in
        with_node name (fun mf h nd tt ->
          let fb = int_of_z tt.tt_fbytes and mb = int_of_z tt.tt_mbytes in
          let s0 = int_of_string s0 and s1 = int_of_string s1 and ss = int_of_string ss in
          let m0 = int_of_string m0 and ms = int_of_string ms in
          let cnt = (s1 - s0) / ss + 1 in
          let mem = Array.make nbytes a5 and err = ref (-1) in
          let d = node_bytes nd tt in
          (try for k = 0 to cnt - 1 do
            let (o, e) = chunk_read this_host mf.old h tt d (z_of_int ((s0 - 1 + k * ss) * fb)) (z_of_int fb) temp0 in
            List.iteri (fun i x -> let p = (m0 - 1 + k * ms) * mb + i in if p < nbytes then mem.(p) <- x) o;
            if int_of_z e <> -1 then (err := int_of_z e; raise Exit)
          done with Exit -> ());
          Printf.printf "r err=%d %s\n" !err (hex_of_bytes_fast (Array.to_list mem))) (rfail nbytes)
    | [""] -> ()
    | _ -> print_string "badline\n"
  done with End_of_file -> ())

let run () =
  match Sys.argv.(1) with
  | "unit" -> run_unit ()
  | "api" -> run_api ()
  | e -> prerr_endline ("unknown sub-engine " ^ e); exit 2
