(* zutil.ml -- conversions between OCaml ints/strings and the extracted Z / positive / nat. Trusted glue. *)
open Model

let rec pos_of_int (n:int) : positive =
  if n = 1 then XH else if n land 1 = 0 then XO (pos_of_int (n lsr 1)) else XI (pos_of_int (n lsr 1))
let z_of_int (n:int) : z = if n = 0 then Z0 else if n > 0 then Zpos (pos_of_int n) else Zneg (pos_of_int (-n))
let rec int_of_pos (p:positive) : int = match p with XH -> 1 | XO q -> 2 * int_of_pos q | XI q -> 2 * int_of_pos q + 1
let int_of_z (x:z) : int = match x with Z0 -> 0 | Zpos p -> int_of_pos p | Zneg p -> - (int_of_pos p)
let rec nat_of_int (n:int) : nat = if n <= 0 then O else S (nat_of_int (n-1))
let rec int_of_nat (n:nat) : int = match n with O -> 0 | S m -> 1 + int_of_nat m

(* arbitrary-size Z to lowercase hex (no 0x), for 64-bit unsigned values such as hashes *)
let hex_of_pos (p:positive) : Stdlib.String.t =
  let rec bits p acc = match p with XH -> 1 :: acc | XO q -> bits q (0 :: acc) | XI q -> bits q (1 :: acc) in
  (* bits returns MSB first after accumulation *)
  let bl = bits p [] in
  let n = Stdlib.List.length bl in
  let pad = (4 - n mod 4) mod 4 in
  let bl = (Stdlib.List.init pad (fun _ -> 0)) @ bl in
  let buf = Stdlib.Buffer.create 16 in
  let rec go l = match l with
    | a::b::c::d::r -> Stdlib.Buffer.add_char buf "0123456789abcdef".[a*8+b*4+c*2+d]; go r
    | _ -> () in
  go bl; Stdlib.Buffer.contents buf
let hex_of_z (x:z) : Stdlib.String.t = match x with Z0 -> "0" | Zpos p -> hex_of_pos p | Zneg p -> "-" ^ hex_of_pos p

(* hex Stdlib.String.t of bytes <-> list of Z bytes *)
let hexval c = match c with '0'..'9' -> Stdlib.Char.code c - 48 | 'a'..'f' -> Stdlib.Char.code c - 87 | 'A'..'F' -> Stdlib.Char.code c - 55 | _ -> failwith "hex"
let bytes_of_hex (s:Stdlib.String.t) : z list =
  if s = "-" then [] else
  let n = Stdlib.String.length s / 2 in
  Stdlib.List.init n (fun i -> z_of_int (hexval s.[2*i] * 16 + hexval s.[2*i+1]))
let hex_of_bytes (l:z list) : Stdlib.String.t =
  if l = [] then "-" else
  Stdlib.String.concat "" (Stdlib.List.map (fun b -> Stdlib.Printf.sprintf "%02x" (int_of_z b)) l)
let ints_of_csv (s:Stdlib.String.t) : int list =
  if s = "" || s = "-" then [] else Stdlib.List.map int_of_string (Stdlib.String.split_on_char ',' s)
let csv_of_ints (l:int list) : Stdlib.String.t = if l = [] then "-" else Stdlib.String.concat "," (Stdlib.List.map string_of_int l)
let zs_of_csv s = Stdlib.List.map z_of_int (ints_of_csv s)
let csv_of_zs l = csv_of_ints (Stdlib.List.map int_of_z l)
