(* engine c11: the goto model of coq/Goto.v driven by the tables regenerated from the current sources (Gen_C11).
   Script (one command per line, words separated by blanks; names contain no blanks):
     node <id> <parent id | -> <field> <struct type> <label> <name> <sel>   declare a struct of the mirror (children are
                                                             appended to <field> of the parent in declaration order)
     commit <file number>                                    (re)build the mirror of the file; the position is kept
     goto B (label index)* | gorel (label index)* | golist B depth (label index)* | gopath <path> | wherereplay
                                                             -> "n <status>"
     where                                                   -> "w <status> <B> <depth> label:index ..."
     at                                                      -> "at <id of the struct the position points to | none | dangling>"
     multiple <cnt> <arr> <n>                                -> ADDRESS4MULTIPLE read of element n at the position:
                                                                "a <status | id>"
     tables                                                  -> verdicts of the decidable table predicates
   Every other command of the C script (build, mark, ...) is ignored by this engine. *)
open Model

(* ---- glue: OCaml strings <-> extracted Coq strings, ints <-> Z (no Zutil: its annotations clash with Model.string) *)
let rec pos_of_int (n : int) : positive =
  if n = 1 then XH else if n land 1 = 0 then XO (pos_of_int (n lsr 1)) else XI (pos_of_int (n lsr 1))
let z_of_int (n : int) : z = if n = 0 then Z0 else if n > 0 then Zpos (pos_of_int n) else Zneg (pos_of_int (-n))
let rec int_of_pos (p : positive) : int = match p with XH -> 1 | XO q -> 2 * int_of_pos q | XI q -> 2 * int_of_pos q + 1
let int_of_z (x : z) : int = match x with Z0 -> 0 | Zpos p -> int_of_pos p | Zneg p -> - (int_of_pos p)

let ascii_of_char (c : char) : ascii =
  let n = Char.code c in
  let b i = (n lsr i) land 1 = 1 in
  Ascii (b 0, b 1, b 2, b 3, b 4, b 5, b 6, b 7)
let char_of_ascii (a : ascii) : char =
  let Ascii (b0, b1, b2, b3, b4, b5, b6, b7) = a in
  let v b i = if b then 1 lsl i else 0 in
  Char.chr (v b0 0 + v b1 1 + v b2 2 + v b3 3 + v b4 4 + v b5 5 + v b6 6 + v b7 7)
let cs (s : Stdlib.String.t) : Model.string =
  let r = ref EmptyString in
  for i = Stdlib.String.length s - 1 downto 0 do r := String (ascii_of_char s.[i], !r) done;
  !r
let os (s : Model.string) : Stdlib.String.t =
  let b = Buffer.create 16 in
  let rec go s = match s with EmptyString -> () | String (a, t) -> Buffer.add_char b (char_of_ascii a); go t in
  go s; Buffer.contents b

(* ---- the mirror under construction *)
type pre = { pid : int; pty : Stdlib.String.t; plabel : Stdlib.String.t; pname : Stdlib.String.t;
             mutable pints : (Stdlib.String.t * int) list; mutable pkids : (Stdlib.String.t * int) list (* field, child id; reverse order *) }
let pres : (int, pre) Hashtbl.t = Hashtbl.create 64
let roots : int list ref = ref []

(* every int and pointer field the struct type declares is present: a pointer field holds its children in declaration
   order (NULL / no element = the empty list), a count declared immediately before an array holds the array's
   length, every other int is 0 *)
let rec build (id : int) : mnode =
  let p = Hashtbl.find pres id in
  let kids f = List.filter_map (fun (g, k) -> if g = f then Some (build k) else None) (List.rev p.pkids) in
  let fl = match assoc (cs p.pty) structs with Some l -> l | None -> [] in
  let declared = List.filter_map (fun (f, t) -> match t with FPtr _ -> Some (os f) | _ -> None) fl in
  let extra = List.fold_left (fun acc (f, _) -> if List.mem f acc || List.mem f declared then acc else acc @ [f]) [] (List.rev p.pkids) in
  let ptrs = List.map (fun f -> (cs f, kids f)) (declared @ extra) in
  let rec ints l = match l with
    | (c, FInt) :: (((a, FPtr _) :: _) as t) -> (c, z_of_int (List.length (kids (os a)))) :: ints t
    | (c, FInt) :: t -> (c, Z0) :: ints t
    | _ :: t -> ints t
    | [] -> [] in
  MNode (cs p.pty, cs p.plabel, cs p.pname, z_of_int id, ints fl, ptrs)

let world : (z * (mnode * fdb_t)) list ref = ref []
let state : pstate ref = ref cleared

let pairs ws =
  let rec go ws = match ws with l :: i :: t -> (cs l, z_of_int (int_of_string i)) :: go t | _ -> [] in
  go ws

let show_status (c : z) = Printf.printf "n %d\n" (int_of_z c)

let run () =
  (try while true do
    let line = input_line stdin in
    let ws = List.filter (fun w -> w <> "") (Stdlib.String.split_on_char ' ' (Stdlib.String.trim line)) in
    (match ws with
    | "node" :: id :: parent :: field :: ty :: label :: name :: _ ->
        let id = int_of_string id in
        Hashtbl.replace pres id { pid = id; pty = ty; plabel = label; pname = (if name = "<empty>" then "" else name); pints = []; pkids = [] };
        if parent = "-" then roots := id :: !roots
        else (let p = Hashtbl.find pres (int_of_string parent) in p.pkids <- (field, id) :: p.pkids)
    | ["commit"; fnum] ->
        (match !roots with
         | r :: _ ->
             let m = build r in
             world := [(z_of_int (int_of_string fnum), (m, fdb_of m))];
         | [] -> world := []);
        Hashtbl.reset pres; roots := []
    | ["closefile"] -> world := []
    | "goto" :: b :: rest ->
        let (c, st) = run_op goto_table !world (OGoto (z_of_int 1, z_of_int (int_of_string b), pairs rest)) !state in
        state := st; show_status c
    | "gorel" :: rest ->
        let (c, st) = run_op goto_table !world (OGorel (z_of_int 1, pairs rest)) !state in
        state := st; show_status c
    | "golist" :: b :: d :: rest ->
        let items = pairs rest in
        (* the harness pads the arrays to 40 entries with ("", 0) *)
        let n = List.length items in
        let items = items @ List.init (max 0 (40 - n)) (fun _ -> (cs "", Z0)) in
        let (c, st) = run_op goto_table !world (OGolist (z_of_int 1, z_of_int (int_of_string b), z_of_int (int_of_string d), items)) !state in
        state := st; show_status c
    | ["gopath"] ->
        let (c, st) = run_op goto_table !world (OGopath (z_of_int 1, cs "")) !state in state := st; show_status c
    | ["gopath"; p] ->
        let p = if p = "<empty>" then "" else p in
        let (c, st) = run_op goto_table !world (OGopath (z_of_int 1, cs p)) !state in
        state := st; show_status c
    | ["wherereplay"] ->
        let (c, st) = run_op goto_table !world OWhereReplay !state in
        state := st; show_status c
    | ["where"] ->
        (match where_ !state with
         | None -> Printf.printf "w 1\n"
         | Some ((_, b), items) ->
             Printf.printf "w 0 %d %d%s\n" (int_of_z b) (List.length items)
               (Stdlib.String.concat "" (List.map (fun (l, i) -> Printf.sprintf " %s:%d" (os l) (int_of_z i)) items)))
    | ["at"] ->
        (match !state.ps_posit, !world with
         | Some (top :: _), (_, (root, _)) :: _ ->
             (match deref root top.pe_addr with
              | Some n -> if int_of_z (m_id n) = int_of_z top.pe_id then Printf.printf "at %d\n" (int_of_z top.pe_id)
                          else Printf.printf "at mismatch ptr=%d id=%d\n" (int_of_z (m_id n)) (int_of_z top.pe_id)
              | None -> Printf.printf "at dangling\n")
         | _ -> Printf.printf "at none\n")
    | ["multiple"; cnt; arr; n] ->
        (match !state.ps_posit, !world with
         | Some (top :: _), (_, (root, _)) :: _ ->
             (match resolve_multiple root top (cs cnt) (cs arr) (z_of_int (int_of_string n)) with
              | Inl c -> Printf.printf "a status %d\n" (int_of_z c)
              | Inr a -> (match deref root a with Some c -> Printf.printf "a %d\n" (int_of_z (m_id c)) | None -> Printf.printf "a dangling\n"))
         | _ -> Printf.printf "a none\n")
    | ["tables"] ->
        Printf.printf "table_ok %b\n" (table_ok structs goto_table);
        List.iter (fun (p, c) -> Printf.printf "bad_arm %s %s\n" (os p) (os c)) (bad_arms structs goto_table);
        List.iter (fun l -> Printf.printf "bad_label %s\n" (os l)) (bad_labels structs goto_table);
        List.iter (fun (f, l) -> Printf.printf "bad_arow %s %s\n" (os f) (os l)) (bad_arows structs goto_table addr_table);
        List.iter (fun (f, l) -> Printf.printf "unreachable %s %s\n" (os f) (os l)) (unreachable_labels structs goto_table addr_table);
        List.iter (fun f -> Printf.printf "changed_shape %s\n" (os f)) (changed_shapes expected_shapes shapes)
    | _ -> ());
    flush stdout
  done with End_of_file -> ())
