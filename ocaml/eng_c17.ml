(* engine c17: runs the Refcount model on the scripts of harness/c17_io.c (sub-engine "io") and on the open/close
   skeleton of harness/c17_mll.c (sub-engine "mll"); sub-engine "h5": the forced close of the HDF5 identifiers of a file.
   io script:   variant cur|old ; fuel <n> ; world <kinds> <links a>b | a>b!> ; open <n> <r|m> ; walk|node <c> <n1|n1!> .. ; close <c>
   io output:   "<result> | io <num_open> <num_iolist> <slots> | adf <maximum_files> <in_use:fd:name:links;..> | fds <ledger size>"
                or "diverge" when ADFI_close_file runs out of fuel (the C: unbounded recursion)
   mll script:  variant cur|old ; open <h> <cgiofail|latefail|ok> ; close <h> <ok|fail>   (h = handle label of the harness)
   mll output:  "<open|close> <0|1> | mll <n_open> <n_cgns_files> <cgns_file_size> <file_number_offset> <fn>" *)
open Model
open Zutil

let i2n = nat_of_int
let n2i = int_of_nat
let words s = List.filter (fun x -> x <> "") (String.split_on_char ' ' (String.trim s))

let kind_of_string = function
  | "ok" | "okL" | "okB" | "okE" -> KOk | "missing" -> KMissing | "garbage" -> KGarbage | "badhdr" -> KBadHdr (i2n 0) | "dir" -> KDir
  | "empty" | "xg" -> KGarbage                     (* no ADF signature in the first 32 bytes: refused by cgio_check_file *)
  | s when String.length s > 1 && s.[0] = 'x' ->   (* x<code>: ADF signature intact, ADF_Database_Open refuses with that error *)
      KBadHdr (i2n (int_of_string (String.sub s 1 (String.length s - 1))))
  | s -> failwith ("kind " ^ s)


let layout_of_string = function "okL" -> LLegacy | "okB" -> LBig | "okE" -> LLittle | _ -> LNative
let attr_str (x : fattr) =
  let ch n = if n2i n = 0 then "0" else if n2i n = 32 then "_" else String.make 1 (Char.chr (n2i n)) in
  Printf.sprintf "%d%s%s%s%d" (if x.a_old then 1 else 0) (ch x.a_fmt) (ch x.a_os) (ch x.a_sep) (if x.a_vupd then 1 else 0)

let dump (s : io) =
  let b = Buffer.create 200 in
  Buffer.add_string b (Printf.sprintf " | io %d %d " (n2i s.nopen) (List.length s.iol));
  if s.iol = [] then Buffer.add_string b "-" else
    Buffer.add_string b (String.concat "," (List.map (fun o -> match o with None -> "-" | Some i ->
      if n2i i < List.length s.io_adf.tab then string_of_int (n2i i) else "?") s.iol));
  Buffer.add_string b (Printf.sprintf " | adf %d " (List.length s.io_adf.tab));
  if s.io_adf.tab = [] then Buffer.add_string b "-" else
    Buffer.add_string b (String.concat ";" (List.mapi (fun idx sl ->
      let iu = n2i sl.in_use in
      Printf.sprintf "%d:%d:%d:%s:%s" iu (if iu > 0 && sl.fd_open then 1 else 0)
        (if iu > 0 then (match sl.fname with Some n -> n2i n | None -> -1) else -1)
        (if iu = 0 || sl.links = [] then "-" else String.concat "," (List.map (fun x -> string_of_int (n2i x)) sl.links))
        (if iu = 0 then "-" else attr_str (try List.nth s.io_adf.amem idx with _ -> zero_attr)))
      s.io_adf.tab));
  Buffer.add_string b (Printf.sprintf " | fds %d" (List.length s.io_adf.ledger));
  Buffer.contents b

let parse_step x =
  let n = String.length x in
  if n > 0 && x.[n - 1] = '!' then (i2n (int_of_string (String.sub x 0 (n - 1))), true) else (i2n (int_of_string x), false)

let run_io () =
  let v = ref Cur and fuel = ref 20000 and w = ref { kinds = []; wlinks = []; wdlinks = []; layouts = [] } and s = ref io_init in
  let stop = ref false in
  (try while not !stop do
    let line = input_line stdin in
    match words line with
    | [] -> ()
    | ["variant"; x] -> v := (if x = "old" then Old else Cur)
    | ["fuel"; n] -> fuel := int_of_string n
    | ["world"; ks; ls] ->
        let kinds = List.map kind_of_string (String.split_on_char ',' ks) in
        let all = if ls = "-" then [] else List.map (fun e -> match String.split_on_char '>' e with
                   | [a; b] -> let (bn, d) = parse_step b in ((i2n (int_of_string a), bn), d) | _ -> failwith "link") (String.split_on_char ',' ls) in
        let wl = List.map fst (List.filter (fun (_, d) -> not d) all) and wd = List.map fst (List.filter (fun (_, d) -> d) all) in
        w := { kinds = kinds; wlinks = wl; wdlinks = wd; layouts = List.map layout_of_string (String.split_on_char ',' ks) }; s := io_init;
        print_string ("world ok" ^ dump !s ^ "\n")
    | op :: rest when List.mem op ["open"; "walk"; "node"; "close"] ->
        let o = (match op, rest with
          | "open", [n; m] -> OOpen (i2n (int_of_string n), m = "m")
          | "close", [c] -> OClose (i2n (max 0 (int_of_string c)))
          | _, c :: ch -> OWalk (i2n (max 0 (int_of_string c)), List.map parse_step ch)
          | _ -> failwith "op") in
        (match step !v (i2n !fuel) !w !s o with
         | None -> print_string "diverge\n"; stop := true
         | Some (s1, r) ->
             s := s1;
             let rs = (match r with
               | ResOpen None -> "open err 0"
               | ResOpen (Some c) -> Printf.sprintf "open ok %d" (n2i c)
               | ResWalk ok -> if ok then "walk ok" else "walk err"
               | ResClose ROk -> "close 0" | ResClose RBadCgio -> "close -1" | ResClose RFileType -> "close -4"
               | ResClose (RAdf e) -> Printf.sprintf "close %d" (n2i e)) in
             print_string (rs ^ dump !s ^ "\n"))
    | _ -> print_string ("badline " ^ line ^ "\n")
  done with End_of_file -> ())

let run_mll () =
  let v = ref MCur and m = ref mll_init in
  let fns = Array.make 64 0 in         (* as harness/c17_mll.c: handle label -> file number of its last successful open *)
  (try while true do
    let line = input_line stdin in
    let show tag ok fn =
      Printf.printf "%s %d | mll %d %d %d %d %d\n" tag (if ok then 0 else 1) (n2i !m.n_open) (List.length !m.files)
        (n2i !m.fsize) (n2i !m.foffset) fn in
    match words line with
    | [] -> ()
    | ["variant"; x] -> v := (if x = "old" then MOld else MCur)
    | ["open"; h; oc] ->
        let h = int_of_string h in
        let oc = (match oc with "cgiofail" -> OCgioFail | "latefail" -> OLateFail | _ -> OSuccess) in
        let ((m1, _), r) = mstep !v !m [] (MOpen oc) in
        m := m1;
        (match r with
         | Some fn -> if h >= 0 && h < 64 then fns.(h) <- n2i fn; show "open" true (n2i fn)
         | None -> show "open" false 0)
    | ["close"; h; ok] ->
        let h = int_of_string h in
        let fn = if h >= 0 && h < 64 then fns.(h) else h in
        let ((m1, _), r) = mstep !v !m [] (MClose (i2n (max 0 fn), ok = "ok")) in
        m := m1; show "close" (r <> None) 0
    | _ -> print_string ("badline " ^ line ^ "\n")
  done with End_of_file -> ())

(* sub-engine "h5": the forced close of ADFH_Database_Close on the identifier census of one file.
   input  close <datatypes> <datasets> <attributes> <groups>      output  <the four counts afterwards> <released 1|0> *)
let run_h5 () =
  (try while true do
    let line = input_line stdin in
    match words line with
    | [] -> ()
    | ["close"; t; d; a; g] ->
        let s = { n_type = i2n (int_of_string t); n_dset = i2n (int_of_string d); n_attr = i2n (int_of_string a); n_group = i2n (int_of_string g) } in
        let s' = forced_close passes_cur s in
        Printf.printf "%d %d %d %d %d\n" (n2i s'.n_type) (n2i s'.n_dset) (n2i s'.n_attr) (n2i s'.n_group) (if file_released s' then 1 else 0)
    | _ -> print_string ("badline " ^ line ^ "\n")
  done with End_of_file -> ())

let run () =
  if Array.length Sys.argv > 1 && Sys.argv.(1) = "mll" then run_mll ()
  else if Array.length Sys.argv > 1 && Sys.argv.(1) = "h5" then run_h5 () else run_io ()
