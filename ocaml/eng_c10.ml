(* engine c10: drives ElemSplice.step_gen on the script language of harness/c10_elem_h.c and prints the same
   canonical lines.  argv.(1) = "current" | "fixed" selects the parent-data resize variant, argv.(2) the
   cg_poly_elements_read variant (defaults: the model's own switches ElemSplice.impl_pvariant / impl_rvariant;
   "variant" prints those switches).  The value [undef] prints as U.  A memory error of the C
   code (RFault) prints FAULT and ends the run. *)
open Model
open Zutil

let zi s = z_of_int (int_of_string s)
let dt s = if s = "4" then I4 else I8
let pz x = if x = undef then "U" else string_of_int (int_of_z x)
let pvec l = " |" ^ (if l = [] then " -" else String.concat "" (List.map (fun x -> " " ^ pz x) l))

(* "n v1 .. vn rest" -> (values, rest) *)
let take_vec toks =
  match toks with
  | [] -> ([], [])
  | n :: r ->
    let n = int_of_string n in
    let rec go k l acc = if k <= 0 then (List.rev acc, l) else
        match l with [] -> (List.rev acc, []) | x :: t -> go (k - 1) t (zi x :: acc) in
    go n r []

let run () =
  let pv = if Array.length Sys.argv > 1 then (match Sys.argv.(1) with "fixed" -> PFixed | "current" -> PCurrent | _ -> impl_pvariant)
           else impl_pvariant in
  let rv = if Array.length Sys.argv > 2 then (match Sys.argv.(2) with "fixed" -> RFixed | "current" -> RCurrent | "old" -> ROld | _ -> impl_rvariant)
           else impl_rvariant in
  let st = ref None in
  let stop = ref false in
  let apply tag o =
    match step_gen pv rv !st o with
    | RFault -> print_string "FAULT\n"; stop := true
    | RErr -> Printf.printf "%s 1\n" tag
    | ROk (s, out) -> st := s;
      (match tag, out with
       | "i", [l] -> Printf.printf "i 0 %s\n" (String.concat " " (List.map pz l))
       | "z", [[x]] -> Printf.printf "z 0 %s\n" (pz x)
       | "r", _ -> print_string "r 0\n"
       | _, _ -> Printf.printf "%s 0%s\n" tag (String.concat "" (List.map pvec out))) in
  (try while not !stop do
    let line = input_line stdin in
    let toks = List.filter (fun s -> s <> "") (String.split_on_char ' ' (String.trim line)) in
    match toks with
    | [] -> ()
    | "secw" :: t :: a :: b :: r -> let (v, _) = take_vec r in apply "r" (OSecWrite (zi t, zi a, zi b, v))
    | "psecw" :: t :: a :: b :: r -> let (v, r2) = take_vec r in let (o, _) = take_vec r2 in
      apply "r" (OPolySecWrite (zi t, zi a, zi b, v, o))
    | ["secpw"; t; a; b] -> apply "r" (OSecPartialWrite (zi t, zi a, zi b))
    | ["secgw"; t; d; a; b; n] -> apply "r" (OSecGeneralWrite (zi t, dt d, zi a, zi b, zi n))
    | "epw" :: a :: b :: r -> let (v, _) = take_vec r in apply "r" (OElemWrite (I8, zi a, zi b, v))
    | "egw" :: m :: a :: b :: r -> let (v, _) = take_vec r in apply "r" (OElemWrite (dt m, zi a, zi b, v))
    | "ppw" :: a :: b :: r -> let (v, r2) = take_vec r in let (o, _) = take_vec r2 in
      apply "r" (OPolyWrite (I8, zi a, zi b, v, o))
    | "pgw" :: m :: a :: b :: r -> let (v, r2) = take_vec r in let (o, _) = take_vec r2 in
      apply "r" (OPolyWrite (dt m, zi a, zi b, v, o))
    | "pdw" :: r -> let (v, _) = take_vec r in apply "r" (OParentWrite v)
    | "pdpw" :: a :: b :: r -> let (v, _) = take_vec r in apply "r" (OParentPartialWrite (zi a, zi b, v))
    | ["info"] -> apply "i" OInfo
    | ["psize"; a; b] -> apply "z" (OPartialSize (zi a, zi b))
    | ["er"; p] -> apply "E" (OElemRead (p = "1"))
    | ["per"; p] -> apply "E" (OPolyRead (p = "1"))
    | ["epr"; a; b; p] -> apply "E" (OElemPartialRead (zi a, zi b, p = "1"))
    | ["ppr"; a; b; p] -> apply "E" (OPolyPartialRead (zi a, zi b, p = "1"))
    | ["egr"; m; a; b] -> apply "E" (OElemGeneralRead (dt m, zi a, zi b))
    | ["pgr"; m; a; b] -> apply "E" (OPolyGeneralRead (dt m, zi a, zi b))
    | ["pegr"; m; a; b] -> apply "E" (OParentGeneralRead (false, dt m, zi a, zi b))
    | ["pfgr"; m; a; b] -> apply "E" (OParentGeneralRead (true, dt m, zi a, zi b))
    | ["reopen"] ->
      (match !st with
       | None -> print_string "r 0\n"
       | Some _ -> (match step_gen pv rv !st OReopen with
           | ROk (s, _) -> st := s; print_string "r 0\n"
           | _ -> print_string "reopenfail\n"; stop := true))
    | ["npe"] ->
      print_string ("N" ^ String.concat "" (List.init 57 (fun t ->
          match cg_npe (z_of_int t) with Some n -> " " ^ string_of_int (int_of_z n) | None -> " -1")) ^ "\n")
    | ["variant"] -> Printf.printf "V %s %s\n" (match impl_pvariant with PCurrent -> "current" | PFixed -> "fixed")
                       (match impl_rvariant with RCurrent -> "current" | RFixed -> "fixed" | ROld -> "old")
    | _ -> Printf.printf "badline %s\n" line
  done with End_of_file -> ())
