(* engine c02c: replays the output of harness/c02c_hist.c (blocks OP / ST / DATA / RAW* / END) through the extracted
   AdfChunks model.  argv.(1) = the variant of the code as five letters 0/1, one per commit d6f9e64 (signed count),
   b21b08d (fix_wall), 3f8f7e0 (fix_wblock), 5177c7b (fix_zero), 5c54229 (fix_rblock): "11111" = the code as it is (Cur),
   a 0 = the text before that commit.

   For every operation of the implementation:
     * the allocator's answers are read off the RAW FILE after the call (header and data-chunk table decoded with the
       extracted AdfCodec decoders): the start of a chunk / table the node did not have before;
     * the monitors of the theorems' hypotheses are evaluated BEFORE the step:  VIOL unsafe-wall | unsafe-wblk | dims |
       range (65535 chunks, empty block) | buffer | alloc | zerosrc  <op>;
     * the model takes the step; compared: the status; for reads every byte the model specifies ('?' = unspecified is a
       wildcard); for mutators the decoded header (type, dimensions, number of chunks, data pointer), the decoded
       table (start and end of every entry = number of chunks and capacity of each), every chunk's OWN end pointer and
       both tags, and every byte of the dumped regions the model specifies.
   One output line per operation: "ok", "DIFF <what>", "CRASH predicted" or "SKIP <why>" (the model left its domain),
   possibly preceded by VIOL lines; at the end SUMMARY key=value ... *)
open Model
open Zutil

let zi = z_of_int and iz = int_of_z
let split s = List.filter (fun x -> x <> "") (String.split_on_char ' ' s)
let fa = fa_native
let cf = ref cur

let cnt : (string, int) Hashtbl.t = Hashtbl.create 32
let bump ?(by = 1) k = Hashtbl.replace cnt k (by + try Hashtbl.find cnt k with Not_found -> 0)
let maxi k v = Hashtbl.replace cnt k (max v (try Hashtbl.find cnt k with Not_found -> 0))

let st = ref st0
let out = Buffer.create 65536
let say s = print_string s; print_char '\n'; flush stdout

(* ---------------------------------------------------------------- raw bytes of one block *)
type blockrec = { op : string list; status : int option; data : string option; raws : (int * string) list }

let rawtab : (int, int) Hashtbl.t = Hashtbl.create 4096
let load_raw (raws : (int * string) list) =
  Hashtbl.reset rawtab;
  List.iter (fun (a, h) ->
    if h <> "-" then
      for i = 0 to String.length h / 2 - 1 do
        Hashtbl.replace rawtab (a + i) (hexval h.[2 * i] * 16 + hexval h.[2 * i + 1])
      done) raws
let raw_bytes a n : z list option =
  let rec go i acc = if i < 0 then Some acc else
      match Hashtbl.find_opt rawtab (a + i) with Some b -> go (i - 1) (zi b :: acc) | None -> None in
  go (n - 1) []

type rstruct = { r_ty : string; r_dims : int list; r_n : int; r_dc : int * int;
                 r_entries : ((int * int) * (int * int)) list;      (* table entries (or the single chunk with its own end) *)
                 r_own : (int * int) list;                          (* each chunk's own end pointer *)
                 r_tags : bool }                                    (* every start / end tag in place *)

let ip (p : ptr) = (iz (fst p), iz (snd p))
let zp (b, o) : ptr = (zi b, zi o)
let lin (b, o) = b * 4096 + o
let str_of_bytes (l : z list) = String.init (List.length l) (fun i -> Char.chr ((iz (List.nth l i)) land 255))
let rec take n l = if n <= 0 then [] else match l with [] -> [] | x :: r -> x :: take (n - 1) r

let tag_at a t = match raw_bytes a 4 with Some b -> tag4 b t | None -> false
let ptr_at a = match raw_bytes a 12 with Some b -> (match dp_dec fa b with Ok p -> Some (ip p) | _ -> None) | None -> None

(* decode what the harness dumped; naddr = address of the first RAW line (the node header) *)
let decode (raws : (int * string) list) : (rstruct, string) result =
  match raws with
  | [] -> Error "no RAW lines"
  | (naddr, _) :: _ ->
    load_raw raws;
    match raw_bytes naddr 246 with
    | None -> Error "node header not dumped"
    | Some hb ->
      match dec_node_header repaired fa hb with
      | Ok nh ->
        let ty = String.trim (str_of_bytes (List.filter (fun b -> iz b <> 0) nh.nh_dtype)) in
        let nd = iz nh.nh_ndims in
        let dims = List.map iz (take nd nh.nh_dims) in
        let n = iz nh.nh_nchunks and dc = ip nh.nh_data in
        if n = 0 then Ok { r_ty = ty; r_dims = dims; r_n = 0; r_dc = dc; r_entries = []; r_own = []; r_tags = true }
        else if n = 1 then
          (match ptr_at (lin dc + 4) with
           | None -> Error "chunk header not dumped"
           | Some own -> Ok { r_ty = ty; r_dims = dims; r_n = 1; r_dc = dc; r_entries = [(dc, own)]; r_own = [own];
                              r_tags = tag_at (lin dc) tag_DaTa && tag_at (lin own) tag_dEnD })
        else
          (match ptr_at (lin dc + 4) with
           | None -> Error "table header not dumped"
           | Some te ->
             let cntE = (lin te - lin dc - 16) / 24 in
             if cntE < 0 || cntE > 70000 then Error "data-chunk table of an impossible length" else
             let ok = ref (tag_at (lin dc) tag_DCtb && tag_at (lin te) tag_dcTE) in
             let es = ref [] and owns = ref [] and bad = ref None in
             for i = 0 to cntE - 1 do
               match ptr_at (lin dc + 16 + 24 * i), ptr_at (lin dc + 16 + 24 * i + 12) with
               | Some s, Some e ->
                 es := (s, e) :: !es;
                 (match ptr_at (lin s + 4) with
                  | Some own -> owns := own :: !owns;
                    if not (tag_at (lin s) tag_DaTa && tag_at (lin own) tag_dEnD) then ok := false
                  | None -> bad := Some "a chunk header was not dumped")
               | _ -> bad := Some "table entry not dumped"
             done;
             match !bad with
             | Some m -> Error m
             | None -> Ok { r_ty = ty; r_dims = dims; r_n = n; r_dc = dc; r_entries = List.rev !es; r_own = List.rev !owns; r_tags = !ok })
      | _ -> Error "node header does not decode"

(* ---------------------------------------------------------------- model side *)
let ty_of_string = function
  | "MT" -> MT | "C1" -> C1 | "B1" -> B1 | "I4" -> I4 | "U4" -> U4 | "R4" -> R4 | "I8" -> I8 | "U8" -> U8 | "R8" -> R8
  | "X4" -> X4 | "X8" -> X8 | s -> failwith ("type " ^ s)
let string_of_ty = function
  | MT -> "MT" | C1 -> "C1" | B1 -> "B1" | I4 -> "I4" | U4 -> "U4" | R4 -> "R4" | I8 -> "I8" | U8 -> "U8" | R8 -> "R8"
  | X4 -> "X4" | X8 -> "X8"

let model_chunks () : ((int * int) * (int * int)) list option =
  match chunks_of fa !st.s_h !st.s_d with Ok cs -> Some (List.map (fun (s, e) -> (ip s, ip e)) cs) | _ -> None

let model_struct_string () =
  let h = !st.s_h in
  Printf.sprintf "%s [%s] n=%d dc=%d:%d chunks=%s" (string_of_ty h.h_ty) (String.concat "," (List.map (fun d -> string_of_int (iz d)) h.h_dims))
    (iz h.h_n) (iz (fst h.h_dc)) (iz (snd h.h_dc))
    (match model_chunks () with
     | Some cs -> String.concat ";" (List.map (fun ((a, b), (c, d)) -> Printf.sprintf "%d:%d-%d:%d" a b c d) cs)
     | None -> "?")
let rstruct_string r =
  Printf.sprintf "%s [%s] n=%d dc=%d:%d chunks=%s own=%s tags=%b" r.r_ty (String.concat "," (List.map string_of_int r.r_dims)) r.r_n
    (fst r.r_dc) (snd r.r_dc)
    (String.concat ";" (List.map (fun ((a, b), (c, d)) -> Printf.sprintf "%d:%d-%d:%d" a b c d) r.r_entries))
    (String.concat ";" (List.map (fun (c, d) -> Printf.sprintf "%d:%d" c d) r.r_own)) r.r_tags

(* compare the model's post-state with the decoded raw structure and the raw bytes *)
let compare_struct (r : rstruct) : string option =
  let h = !st.s_h in
  let mdims = List.map iz h.h_dims in
  if string_of_ty h.h_ty <> r.r_ty then Some ("type model=" ^ string_of_ty h.h_ty ^ " file=" ^ r.r_ty)
  else if mdims <> r.r_dims then Some "dimensions"
  else if iz h.h_n <> r.r_n then Some (Printf.sprintf "number_of_data_chunks model=%d file=%d" (iz h.h_n) r.r_n)
  else if r.r_n > 0 && ip h.h_dc <> r.r_dc then Some "data_chunks pointer"
  else
    match model_chunks () with
    | None -> if r.r_n = 0 then None else Some "model cannot read its own chunk table"
    | Some cs ->
      if cs <> r.r_entries then Some ("chunk table model=" ^ model_struct_string () ^ " file=" ^ rstruct_string r)
      else begin
        (* each chunk's own end pointer, and every dumped byte the model specifies *)
        let bad = ref None in
        List.iteri (fun i ((s, _), own) ->
            match read_ptr fa !st.s_d (zi (fst s), zi (snd s + 4)) with
            | Ok p -> if ip p <> own && !bad = None then bad := Some (Printf.sprintf "own end pointer of chunk %d model=%d:%d file=%d:%d" i (iz (fst p)) (iz (snd p)) (fst own) (snd own))
            | _ -> bump "own_end_pointers_unspecified_in_model")
          (List.combine cs r.r_own);
        if !bad = None && not r.r_tags then begin
          (* the file has a tag out of place: the model must have it out of place too (compared bytewise below) *)
          bump "states_with_a_displaced_tag"
        end;
        let nb = ref 0 in
        Hashtbl.iter (fun a b ->
            match dget !st.s_d (zi a) with
            | Some v -> Stdlib.incr nb; if iz v <> b && !bad = None then bad := Some (Printf.sprintf "byte at %d model=%02x file=%02x" a (iz v) b)
            | None -> ()) rawtab;
        bump ~by:!nb "raw_bytes_compared";
        !bad
      end

let status_of (r : ans out) : (int, string) result =
  match r with
  | Ok _ -> Ok 0
  | Err c -> Ok (iz c)
  | OOBR s -> Error (Printf.sprintf "OOBR%d" (iz s))
  | OOBW s -> Error (Printf.sprintf "OOBW%d" (iz s))
  | Ext -> Error "Ext" | OutOfFuel -> Error "OutOfOracle" | Abort -> Error "Abort" | UB -> Error "UB"
  | Uninit -> Error "Uninit" | Stale -> Error "Stale"

let parse_sel (w : string list) : ((z * z) * z) list * string list =
  match w with
  | r :: rest ->
    let r = int_of_string r in
    let rec go k l acc = if k = 0 then (List.rev acc, l) else
        match l with a :: b :: c :: t -> go (k - 1) t (((zi (int_of_string a), zi (int_of_string b)), zi (int_of_string c)) :: acc)
                   | _ -> failwith "sel" in
    go r rest []
  | [] -> failwith "sel"

(* chunk geometry of the pre-state for the evidence counters *)
let pre_caps () = match chunks_of fa !st.s_h !st.s_d with Ok cs -> List.map (fun c -> iz (csize c)) cs | _ -> []

let note_strided_boundaries (sel : ((z * z) * z) list) =
  (* does the selection contain the first element of a later chunk / the last element of a chunk? *)
  let caps = pre_caps () in
  if List.length caps >= 2 then begin
    let fb = iz (esz !st.s_h.h_ty) in
    match sel_positions !st.s_h sel with
    | Ok ps ->
      let sums = let acc = ref 0 in List.map (fun c -> acc := !acc + c; !acc) caps in
      let firsts = List.filter (fun p -> List.mem (iz p * fb) sums) ps in
      let lasts = List.filter (fun p -> List.mem ((iz p + 1) * fb) sums) ps in
      if firsts <> [] then bump "strided_ops_hitting_first_element_of_a_later_chunk";
      if lasts <> [] then bump "strided_ops_hitting_last_element_of_a_chunk";
      (match ps with p0 :: _ when List.mem (iz p0 * fb) sums -> bump "strided_ops_starting_on_a_chunk_boundary" | _ -> ());
      (match List.rev ps with pl :: _ when List.mem (iz pl * fb) sums -> bump "strided_ops_ending_on_first_element_of_a_later_chunk" | _ -> ())
    | _ -> ()
  end

let note_block (bs : int) (be : int) =
  let caps = pre_caps () in
  if List.length caps >= 2 then begin
    let fb = iz (esz !st.s_h.h_ty) in
    let sb = fb * (bs - 1) and eb = fb * be in
    let acc = ref 0 and touched = ref 0 in
    List.iter (fun c -> let lo = !acc and hi = !acc + c in acc := hi; if sb < hi && eb > lo then Stdlib.incr touched) caps;
    if !touched >= 2 then bump "block_ops_straddling_chunks"
  end

let do_block (b : blockrec) =
  let w = b.op in
  let desc = String.concat " " (List.map (fun s -> if String.length s > 40 then String.sub s 0 40 ^ ".." else s) w) in
  let mutate (o : op) =
    (* the raw structure after the call and the allocator's answers *)
    let post = match b.status with Some 0 -> (match decode b.raws with Ok r -> Some r | Error m -> say ("DIFF raw dump: " ^ m); None) | _ -> None in
    let pre_n = iz !st.s_h.h_n in
    let al : ptr list =
      match post with
      | Some r when r.r_n = pre_n + 1 && r.r_entries <> [] ->
        let (s, _) = List.nth r.r_entries (List.length r.r_entries - 1) in
        if pre_n = 0 then [zp r.r_dc] else [zp s; zp r.r_dc]
      | _ -> [] in
    (match o with
     | PutDims (_, _) -> if not (safe_step !cf fa !st o) then say ("VIOL dims " ^ desc)
     | WriteAll _ -> if not (wall_safe !cf fa !st) then say ("VIOL unsafe-wall " ^ desc)
                     else if not (safe_step !cf fa !st o) then say ("VIOL range " ^ desc)
     | WriteBlock (bs, be, _) -> if not (wblock_safe !cf fa !st bs be) then say ("VIOL unsafe-wblk " ^ desc)
                                 else if not (safe_step !cf fa !st o) then say ("VIOL range " ^ desc)
     | _ -> if not (safe_step !cf fa !st o) then say ("VIOL range " ^ desc));
    if not (buf_ok !st.s_h o) then say ("VIOL buffer " ^ desc);
    if al <> [] && not (alloc_ok fa !st o al) then say ("VIOL alloc " ^ desc);
    if not (zero_ok !cf fa !st o al) then say ("VIOL zerosrc " ^ desc);
    let pre_total = iz (total_bytes !st.s_h) and pre_caps_l = pre_caps () in
    let (r, s') = step !cf fa !st o al in
    st := s';
    (* evidence *)
    (match o, r with
     | PutDims (_, _), Ok _ ->
       let nt = iz (total_bytes s'.s_h) in
       if iz s'.s_h.h_n > 0 && nt < pre_total then begin
         bump "shrinks_keeping_data";
         (match pre_caps_l with c0 :: _ :: _ when nt < c0 -> bump "shrinks_below_first_chunk" | _ -> ())
       end;
       if iz s'.s_h.h_n > 0 && nt > pre_total then bump "grows_keeping_data";
       if pre_n > 0 && iz s'.s_h.h_n = 0 then bump "data_lost_by_redimension"
     | _, Ok _ ->
       let n' = iz s'.s_h.h_n in
       if n' = pre_n + 1 then bump (if pre_n = 0 then "alloc_first_chunk" else if pre_n = 1 then "alloc_second_chunk_and_table" else "alloc_further_chunk");
       maxi "max_chunks" n'
     | _ -> ());
    match b.status, status_of r with
    | None, Error m when String.length m >= 4 && String.sub m 0 4 = "OOBR" -> bump "crashes_predicted"; say "CRASH predicted"
    | None, _ -> say ("DIFF implementation stopped inside " ^ desc)
    | Some _, Error m -> bump "skipped"; say ("SKIP model " ^ m ^ " at " ^ desc)
    | Some si, Ok sm when si <> sm -> say (Printf.sprintf "DIFF status model=%d impl=%d at %s" sm si desc)
    | Some si, Ok _ ->
      if si <> 0 then say "ok"
      else (match post with
          | None -> ()            (* DIFF already said *)
          | Some rs -> (match compare_struct rs with None -> say "ok" | Some m -> say ("DIFF " ^ m ^ " after " ^ desc)))
  in
  let readop (o : op) =
    let (r, _) = step !cf fa !st o [] in
    match b.status, r with
    | None, (OOBW _ | OOBR _) -> bump "crashes_predicted"; say "CRASH predicted"
    | None, _ -> say ("DIFF implementation stopped inside " ^ desc)
    | Some si, Ok (ABytes l) ->
      if si <> 0 then begin
        (* the model answers from unspecified bytes where the implementation may meet the end of the file *)
        if List.exists (fun x -> x = None) l then (bump "skipped"; say ("SKIP read of unspecified bytes failed in the implementation at " ^ desc))
        else say (Printf.sprintf "DIFF status model=0 impl=%d at %s" si desc)
      end else begin
        let d = match b.data with Some s -> s | None -> "-" in
        let n = if d = "-" then 0 else String.length d / 2 in
        if n <> List.length l then say (Printf.sprintf "DIFF length model=%d impl=%d at %s" (List.length l) n desc)
        else begin
          let bad = ref (-1) and unspec = ref 0 in
          List.iteri (fun i x -> match x with
              | Some v -> if !bad < 0 && iz v <> hexval d.[2 * i] * 16 + hexval d.[2 * i + 1] then bad := i
              | None -> Stdlib.incr unspec) l;
          bump ~by:(n - !unspec) "read_bytes_compared"; bump ~by:!unspec "read_bytes_unspecified";
          if !bad >= 0 then say (Printf.sprintf "DIFF byte %d of the answer model=%02x impl=%s at %s" !bad
                                   (match List.nth l !bad with Some v -> iz v | None -> 0) (String.sub d (2 * !bad) 2) desc)
          else say "ok"
        end
      end
    | Some si, Ok AUnit -> say (Printf.sprintf "DIFF model returned no bytes (impl %d) at %s" si desc)
    | Some si, r ->
      (match status_of r with
       | Ok sm -> if sm = si then say "ok" else say (Printf.sprintf "DIFF status model=%d impl=%d at %s" sm si desc)
       | Error m -> bump "skipped"; say ("SKIP model " ^ m ^ " at " ^ desc))
  in
  bump "ops";
  match w with
  | "new" :: _ ->
    st := st0;
    (match b.status with
     | Some 0 -> (match decode b.raws with
         | Ok r -> if r.r_n = 0 && r.r_ty = "MT" && r.r_dims = [] then say "ok" else say ("DIFF fresh node " ^ rstruct_string r)
         | Error m -> say ("DIFF raw dump: " ^ m))
     | _ -> say "DIFF new failed")
  | ("pad" | "reopen") :: _ ->
    if List.hd w = "reopen" then bump "reopens";
    (match b.status with
     | Some 0 -> (match decode b.raws with
         | Ok r -> (match compare_struct r with None -> say "ok" | Some m -> say ("DIFF " ^ m ^ " after " ^ desc))
         | Error m -> say ("DIFF raw dump: " ^ m))
     | Some s -> say (Printf.sprintf "DIFF %s failed with %d" (List.hd w) s)
     | None -> say ("DIFF implementation stopped inside " ^ desc))
  | "dims" :: ty :: _ :: ds -> mutate (PutDims (ty_of_string ty, List.map (fun d -> zi (int_of_string d)) ds))
  | ["wall"; h] -> bump "write_all"; mutate (WriteAll (bytes_of_hex h))
  | ["wblk"; bs; be; h] -> bump "write_block"; note_block (int_of_string bs) (int_of_string be);
    mutate (WriteBlock (zi (int_of_string bs), zi (int_of_string be), bytes_of_hex h))
  | "wsel" :: rest -> bump "write_strided";
    let (sel, tl) = parse_sel rest in
    note_strided_boundaries sel;
    mutate (WriteStrided (sel, bytes_of_hex (match tl with [h] -> h | _ -> "-")))
  | ["rall"] -> bump "read_all"; readop ReadAll
  | ["rblk"; bs; be] -> bump "read_block"; note_block (int_of_string bs) (int_of_string be);
    readop (ReadBlock (zi (int_of_string bs), zi (int_of_string be)))
  | "rsel" :: rest -> bump "read_strided"; let (sel, _) = parse_sel rest in note_strided_boundaries sel; readop (ReadStrided sel)
  | ["close"] | ["arm"] | ["disarm"] -> say "ok"
  | _ -> say ("DIFF unknown op " ^ desc)

let run () =
  (if Array.length Sys.argv > 1 then
     let a = Sys.argv.(1) in
     if String.length a = 5 then
       cf := { c_signed = a.[0] = '1'; c_fix_wall = a.[1] = '1'; c_fix_wblock = a.[2] = '1'; c_fix_zero = a.[3] = '1';
               c_fix_rblock = a.[4] = '1' });
  let cur_op = ref None and status = ref None and data = ref None and raws = ref [] in
  let finish () =
    match !cur_op with
    | Some o -> do_block { op = o; status = !status; data = !data; raws = List.rev !raws };
      cur_op := None; status := None; data := None; raws := []
    | None -> () in
  (try
     while true do
       let l = input_line stdin in
       let n = String.length l in
       if n >= 3 && String.sub l 0 3 = "OP " then begin finish (); cur_op := Some (split (String.sub l 3 (n - 3))) end
       else if n >= 3 && String.sub l 0 3 = "ST " then status := Some (int_of_string (String.trim (String.sub l 3 (n - 3))))
       else if n >= 5 && String.sub l 0 5 = "DATA " then data := Some (String.trim (String.sub l 5 (n - 5)))
       else if n >= 4 && String.sub l 0 4 = "RAW " then
         (match split l with [_; a; h] -> raws := (int_of_string a, h) :: !raws | _ -> ())
       else if l = "END" then finish ()
     done
   with End_of_file -> finish ());
  let keys = List.sort compare (Hashtbl.fold (fun k _ acc -> k :: acc) cnt []) in
  say ("SUMMARY " ^ String.concat " " (List.map (fun k -> Printf.sprintf "%s=%d" k (Hashtbl.find cnt k)) keys))
