(* engine c01: the SIDS codec model of coq/SidsCodec.v.
   Script (one command per line, blank separated words; names, strings and data are hex):
     open w <file>                                   a new session (root0)
     call <fn> <path|-> <name hex|-> <ints csv|-> <strs hex;hex|-> [<dt>:<dims csv>:<data hex>]...
     callp <slab spec> <fn> ...                      the same call: the implementation writes the array in slabs, the
                                                     entity (and so the model's effect) is the same
                                                     -> "i <index>" | "i -" (the function returns no index) | "i fail"
     dump                                            -> the node tree the calls produce ([enc]): one "N" line per node,
                                                        depth first, children in creation order, then "E dump ok"
     read                                            -> what a reader rebuilds ([api_fill] of [view]): "R" lines, then
                                                        "E read wf=<b> dec=<same|differs|none>"
     tables                                          -> "schema_ok <b>" ...
   Every other line (ft, cfg, close ...) is ignored. *)
open Model
open Zutil

let bytes_of_str (s : Stdlib.String.t) : z list = Stdlib.List.init (Stdlib.String.length s) (fun i -> z_of_int (Stdlib.Char.code s.[i]))
let str_of_bytes (l : z list) : Stdlib.String.t = Stdlib.String.concat "" (Stdlib.List.map (fun b -> Stdlib.String.make 1 (Stdlib.Char.chr ((int_of_z b) land 255))) l)
let hexs (l : z list) = hex_of_bytes l
let unhex s = if s = "-" then [] else bytes_of_hex s

let kinds : (Stdlib.String.t * kind) list = Stdlib.List.map (fun k -> (str_of_bytes (kind_name k), k)) all_kinds
let kind_of_name n = try Stdlib.List.assoc n kinds with Not_found -> failwith ("unknown kind " ^ n)
let name_of_kind k = str_of_bytes (kind_name k)
let fns : (Stdlib.String.t * fnid) list = Stdlib.List.map (fun (f, n) -> (str_of_bytes n, f)) all_fns

let parse_path (s : Stdlib.String.t) : (kind * z) list =
  if s = "-" then [] else
  Stdlib.List.map (fun st ->
    let i = Stdlib.String.rindex st ':' in
    (kind_of_name (Stdlib.String.sub st 0 i), z_of_int (int_of_string (Stdlib.String.sub st (i + 1) (Stdlib.String.length st - i - 1)))))
    (Stdlib.String.split_on_char '/' s)

let parse_arr (s : Stdlib.String.t) =
  match Stdlib.String.split_on_char ':' s with
  | [dt; dims; data] -> ((bytes_of_str dt, zs_of_csv dims), unhex data)
  | _ -> failwith ("bad array " ^ s)

let csv_big (l : z list) : Stdlib.String.t =
  if l = [] then "-" else Stdlib.String.concat "," (Stdlib.List.map (fun x -> string_of_int (int_of_z x)) l)

let payload_str (v : pval) : Stdlib.String.t =
  match v with
  | VNone -> "none"
  | VStr x -> "str:" ^ hexs x
  | VEnum i -> "enum:" ^ string_of_int (int_of_z i)
  | VEnums l -> "enums:" ^ csv_big l
  | VInts (dims, vals) -> "ints:" ^ csv_big dims ^ ":" ^ csv_big vals
  | VArr (dt, dims, data) -> "arr:" ^ str_of_bytes dt ^ ":" ^ csv_big dims ^ ":" ^ hexs data

let rec dump_tree (path : Stdlib.String.t) (t : tree) =
  let T (nm, lbl, dt, dims, data, kids) = t in
  let p = path ^ "/" ^ hexs nm in
  Stdlib.Printf.printf "N %s %s %s %s %s\n" p (hexs lbl) (str_of_bytes dt) (csv_big dims) (hexs data);
  Stdlib.List.iter (dump_tree p) kids

let rec print_r (path : Stdlib.String.t) (r : rnode) =
  let R (k, nm, v, slots) = r in
  if path <> "" then Stdlib.Printf.printf "R %s %s %s\n" path (hexs nm) (payload_str v);
  let sp = (spec k).k_slots in
  let rec go sp slots = match sp, slots with
    | s :: sp', l :: sl' ->
        Stdlib.List.iteri (fun i r' -> print_r (Stdlib.Printf.sprintf "%s/%s:%d" path (name_of_kind s.s_kind) (i + 1)) r') l;
        go sp' sl'
    | _, _ -> () in
  go sp slots

let root : ent ref = ref root0

let words l = Stdlib.List.filter (fun w -> w <> "") (Stdlib.String.split_on_char ' ' (Stdlib.String.trim l))

let run () =
  (try while true do
    let line = input_line stdin in
    let ws = (match words line with "callp" :: _ :: rest -> "call" :: rest | l -> l) in     (* the same entity, written in slabs *)
    (match ws with
    | "open" :: "w" :: _ -> root := root0
    | "call" :: fn :: path :: name :: ints :: strs :: arrs ->
        let f = try Stdlib.List.assoc fn fns with Not_found -> failwith ("unknown fn " ^ fn) in
        let cl = { c_fn = f; c_at = parse_path path; c_name = unhex name; c_ints = zs_of_csv ints;
                   c_strs = (if strs = "-" then [] else Stdlib.List.map unhex (Stdlib.String.split_on_char ';' strs));
                   c_arrs = Stdlib.List.map parse_arr arrs } in
        (match exec !root cl with
         | Some (r', i) ->
             root := r';
             if fn_returns_index f then Stdlib.Printf.printf "i %d\n" (int_of_z i) else Stdlib.Printf.printf "i -\n"
         | None -> Stdlib.Printf.printf "i fail\n")
    | "dump" :: _ ->
        let T (_, _, _, _, _, kids) = enc !root in
        Stdlib.List.iter (dump_tree "") kids;
        Stdlib.Printf.printf "E dump ok\n"
    | "read" :: _ ->
        let v = view !root in
        print_r "" (api_fill ctx0 v);
        let w = wf ctx0 !root in
        let d = match read_file (enc !root) with
          | Some r -> if r = v then "same" else "differs"
          | None -> "none" in
        Stdlib.Printf.printf "E read wf=%b dec=%s\n" w d
    | ["tables"] ->
        Stdlib.Printf.printf "schema_ok %b\n" schema_ok;
        Stdlib.Printf.printf "kind_names_distinct %b\n" kind_names_distinct;
        Stdlib.Printf.printf "labels_closed %b\n" (labels_closed gen_writers gen_readers);
        Stdlib.Printf.printf "schema_in_sources %b\n" (schema_in_sources gen_writers gen_readers);
        Stdlib.Printf.printf "enum_tables_match %b\n" (enum_tables_match gen_enum_tables);
        Stdlib.List.iter (fun w -> match w with
          | WRow (f, p, nm, l, d, nd) ->
              Stdlib.Printf.printf "open_wrow %s %s %s %s %s\n" (str_of_bytes f) (str_of_bytes p) (str_of_bytes l)
                (match d with WLit x -> str_of_bytes x | WSize -> "cgsize" | WParam -> "param")
                (match nm with Some n -> str_of_bytes n | None -> "*")
          | WUnparsed (f, w) -> Stdlib.Printf.printf "open_wrow unparsed %s %s\n" (str_of_bytes f) (str_of_bytes w))
          (open_wrows gen_writers gen_readers);
        Stdlib.List.iter (fun r -> match r with
          | RUnparsed (f, w) -> Stdlib.Printf.printf "unparsed_reader %s %s\n" (str_of_bytes f) (str_of_bytes w)
          | _ -> ()) gen_readers;
        Stdlib.List.iter (fun ((p, c), dts) ->
          Stdlib.Printf.printf "unbacked %s %s %s\n" (str_of_bytes p) (str_of_bytes c)
            (Stdlib.String.concat "," (Stdlib.List.map str_of_bytes dts))) (unbacked_rows gen_writers gen_readers);
        Stdlib.List.iter (fun ((p, c), dts) ->
          Stdlib.Printf.printf "row %s %s %s\n" (str_of_bytes p) (str_of_bytes c)
            (Stdlib.String.concat "," (Stdlib.List.map str_of_bytes dts))) schema_rows
    | _ -> ());
    flush stdout
  done with End_of_file -> ())
