(* engine c05: argv.(1) = "lo" (cgio level) or "mid" (cg_*_general_* level), argv.(2) = adf | hdf5.
   Reads the same script as harness/c05_lo.c / harness/c05_mid.c and prints the same canonical lines, computed
   with the extracted Hyperslab model.  Trusted glue: parsing, zipping the parallel arrays into per-dimension
   records, the guard-zone / fill formulas shared with the harnesses (GUARD elements before and after every
   user buffer, value -(9000000+i) before and -(9500000+i) after). *)
open Model
open Zutil

let guard = 4
let pre_guard () = List.init guard (fun i -> -(9000000 + i))
let post_guard () = List.init guard (fun i -> -(9500000 + i))
let csv l = if l = [] then "-" else String.concat "," (List.map string_of_int l)
let zl l = List.map z_of_int l
let il l = List.map int_of_z l
let split c s = String.split_on_char c s
(* "a:b:c,a:b:c" -> list of int lists *)
let parse_ranges s = if s = "-" || s = "" then [] else List.map (fun t -> List.map int_of_string (split ':' t)) (split ',' s)
let parse_ints s = if s = "-" || s = "" then [] else List.map int_of_string (split ',' s)
(* buffer length rule shared with the harnesses: product of max(d,1) *)
let buflen dims = List.fold_left (fun a d -> a * (max d 1)) 1 dims
let after_eq s = let i = String.index s '=' in String.sub s (i + 1) (String.length s - i - 1)
let backend () = match Sys.argv.(2) with "adf" -> ADF | "hdf5" -> ADFH | "hdf5old" -> ADFH_OLD (* before 358f914 *) | b -> prerr_endline ("backend? " ^ b); exit 2

let mk_dsel dims rs =
  List.map2 (fun d r -> match r with
    | [a; b; c] -> { d_dim = z_of_int d; d_start = z_of_int a; d_end = z_of_int b; d_stride = z_of_int c }
    | _ -> failwith "range") dims rs

(* m=<dims>;<ranges> *)
let parse_m s = match split ';' s with
  | [d; r] -> (parse_ints d, parse_ranges r)
  | _ -> failwith "m="

(* ---------------------------------------------------------------- cgio level *)
let run_lo () =
  let b = backend () in
  let nodes : (string, int list * z list) Hashtbl.t = Hashtbl.create 16 in
  (try while true do
    let line = String.trim (input_line stdin) in
    match split ' ' line with
    | ["node"; name; _ty; dims; base] ->
        let dims = parse_ints dims and base = int_of_string base in
        let n = buflen dims in
        Hashtbl.replace nodes name (dims, List.init n (fun j -> z_of_int (base + j)));
        print_string "node ok\n"
    | ["grow"; name; dims; base] ->
        (* cgio_set_dimensions to larger extents of the same rank, then a full-range cgio_write_data *)
        let dims = parse_ints dims and base = int_of_string base in
        let n = buflen dims in
        let mem = List.init n (fun j -> z_of_int (base + j)) in
        let file0 = List.init n (fun _ -> Z0) in
        let sel = mk_dsel dims (List.map (fun d -> [1; d; 1]) dims) in
        (match xfer_write b file0 mem sel sel with
         | Inr f -> Hashtbl.replace nodes name (dims, f); Printf.printf "grow ok\nF %s\n" (csv (il f))
         | Inl e -> Printf.printf "grow err %d\n" (int_of_z (aerr_code e)))
    | [op; name; s; m; base] when op = "w" || op = "r" ->
        let (dims, file) = Hashtbl.find nodes name in
        let srs = parse_ranges (after_eq s) in
        let (mdims, mrs) = parse_m (after_eq m) in
        let base = int_of_string base in
        let sds = mk_dsel dims srs and mds = mk_dsel mdims mrs in
        let n = buflen mdims in
        if op = "w" then begin
          let mem = List.init n (fun j -> z_of_int (base + j)) in
          (match xfer_write b file mem sds mds with
           | Inr f -> Hashtbl.replace nodes name (dims, f); Printf.printf "w ok\n"
           | Inl e -> Printf.printf "w err %d\n" (int_of_z (aerr_code e)));
          let (_, f) = Hashtbl.find nodes name in
          Printf.printf "F %s\n" (csv (il f))
        end else begin
          let mem = List.init n (fun j -> z_of_int (-(base + j))) in
          let res = match xfer_read b file mem sds mds with
            | Inr m' -> Printf.printf "r ok\n"; m'
            | Inl e -> Printf.printf "r err %d\n" (int_of_z (aerr_code e)); mem in
          Printf.printf "M %s|%s|%s\n" (csv (pre_guard ())) (csv (il res)) (csv (post_guard ()))
        end
    | [""] -> ()
    | _ -> if String.length line > 0 && line.[0] = '#' then () else Printf.printf "badline %s\n" line
  done with End_of_file -> ())

(* ---------------------------------------------------------------- mid level *)
(* w|r <target> <name> <api> t=<type> sdims=<..> rlo=<..|-> s=<rmin:rmax,..> m=<mdims>;<rmin:rmax,..> <base>
   cfg zero|core ; every other line (zone, grid, sol, ud, open ...) only concerns the harness. *)
let run_mid () =
  let b = backend () in
  let arrays : (string, int list * z list) Hashtbl.t = Hashtbl.create 16 in
  let rind_zero = ref false in
  (try while true do
    let line = String.trim (input_line stdin) in
    match split ' ' line with
    | ["cfg"; "zero"] -> rind_zero := true; print_string "cfg ok\n"
    | ["cfg"; "core"] -> rind_zero := false; print_string "cfg ok\n"
    | [op; target; name; api; ty; sdims; rlo; s; m; base] when op = "w" || op = "r" ->
        (* t=<mem>/<file>: a converting read.  Hyperslab.v models equal types; the one type-dependent decision of
           cgi_array_general_read is kept here, in the driver: on ADF a converting read into a partial memory range
           is refused before anything is transferred (on HDF5 libhdf5 converts in place). *)
        let converting = String.contains ty '/' in
        let key = target ^ "/" ^ name in
        let sdims = parse_ints (after_eq sdims) in
        let rlo = after_eq rlo in
        let srs = parse_ranges (after_eq s) in
        let (mdims, mrs) = parse_m (after_eq m) in
        let base = int_of_string base in
        let old = !rind_zero || rlo = "-" in
        let rlos = if rlo = "-" then List.map (fun _ -> 0) sdims else parse_ints rlo in
        let sd = List.map2 (fun (d, r) l -> match r with
            | [a; c] -> { v_dim = z_of_int d; v_rmin = z_of_int a; v_rmax = z_of_int c; v_rlo = z_of_int l }
            | _ -> failwith "srange") (List.combine sdims srs) rlos in
        let md = List.map2 (fun d r -> match r with
            | [a; c] -> { m_dim = z_of_int d; m_rmin = z_of_int a; m_rmax = z_of_int c }
            | _ -> failwith "mrange") mdims mrs in
        let n = buflen mdims in
        let exists = Hashtbl.mem arrays key in
        let file = if exists then snd (Hashtbl.find arrays key) else List.init (buflen sdims) (fun _ -> Z0) in
        if op = "w" then begin
          let mem = List.init n (fun j -> z_of_int (base + j)) in
          (match mid_write b old sd md file mem with
           | MidOk f -> Hashtbl.replace arrays key (sdims, f); print_string "w ok\n"
           | MidIoError _ -> Hashtbl.replace arrays key (sdims, file); print_string "w err\n"
           | MidRejected -> print_string "w err\n");
          (match Hashtbl.find_opt arrays key with
           | Some (d, f) -> Printf.printf "F %s|%s\n" (csv d) (csv (il f))
           | None -> print_string "F none\n")
        end else begin
          let mem = List.init n (fun j -> z_of_int (-(base + j))) in
          let res =
            if not exists then (print_string "r err\n"; mem)       (* array not found *)
            else if converting && api = "general" && Sys.argv.(2) = "adf" &&
                    List.exists2 (fun d r -> r <> [1; d]) mdims mrs &&
                    (match mid_read b old sd md file mem with MidOk _ -> true | _ -> false)
            then (print_string "r err\n"; mem)
            else match mid_read b old sd md file mem with
              | MidOk m' -> print_string "r ok\n"; m'
              | _ -> print_string "r err\n"; mem in
          Printf.printf "M %s|%s|%s\n" (csv (pre_guard ())) (csv (il res)) (csv (post_guard ()))
        end
    | [""] -> ()
    | _ -> ()
  done with End_of_file -> ())

let run () =
  match Sys.argv.(1) with
  | "lo" -> run_lo ()
  | "mid" -> run_mid ()
  | e -> prerr_endline ("unknown sub-engine " ^ e); exit 2
