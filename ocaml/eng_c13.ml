(* engine c13: drives the extracted AdfCodec / AdfWalk models.  Line-oriented script on stdin.
   Numbers that may exceed 62 bits (blocks, offsets, dims) are written/read in lower-case hex.
     hex MN MX HEXBYTES            ADFI_ASCII_Hex_2_unsigned_int            -> r ok V | r err E
     dp HEXBYTES                   ADFI_disk_pointer_from_ASCII_Hex         -> r ok B:O | r err E
     base HEXFILE                  set the current file
     walk FUEL                     database_open + walk of the current file -> event lines, END
     mut FUEL OFF HEXBYTES         the same on the current file with HEXBYTES patched in at OFF
     mutn FUEL OFF:HEX,OFF:HEX     the same with several patches ; mcheckn OFF:HEX,... for check_file
     trunc FUEL LEN                the same on the first LEN bytes
     file FUEL HEXFILE             the same on a complete file given inline
     check | mcheck OFF HEX | tcheck LEN     cgio_check_file (ADF branch)   -> c N
     layout                        structures located by the model's decoders in the current file
     fields                        the field tables of file header and node header
     witness NAME                  the witness files of AdfWalk.v (valid oobw oobr cycle linkrec biglink abort tagscan stale
                                   dct neglink hugelink toklink longfile longpath nosep ver fmtneg dtov rtype dim sizes)
     cfg BITS                      which repairs the modelled code contains: 16 characters 0/1 in the order of the record
                                   AdfCodec.fixes (snt dct link nest fmt tag dtov rtype dim short sizes rad lfile lpath lnosep ver); default = all 0
     enc dp B O | enc hex N V | enc snt EB EO name:b:o;... | enc dct EB EO sb:so:eb:eo;... | enc data EB EO HEX
                                   encoders, with the open attributes of the current file      -> e HEXBYTES *)
open Model
open Zutil

let z_of_hexstr (s:string) : z =
  let acc = ref None in
  String.iter (fun c ->
    let d = hexval c in
    List.iter (fun bit ->
      acc := (match !acc, bit with
        | None, false -> None | None, true -> Some XH
        | Some p, false -> Some (XO p) | Some p, true -> Some (XI p)))
      [d land 8 <> 0; d land 4 <> 0; d land 2 <> 0; d land 1 <> 0]) s;
  match !acc with None -> Z0 | Some p -> Zpos p
let hz = hex_of_z
let hb (l:z list) = hex_of_bytes l
let pp (p:ptr) = let (b, o) = p in hz b ^ ":" ^ hz o

let out_str (f:'a -> string) (r:'a out) : string = match r with
  | Ok a -> f a | Err e -> "err " ^ string_of_int (int_of_z e)
  | OOBW s -> "!OOBW" ^ string_of_int (int_of_z s) | OOBR s -> "!OOBR" ^ string_of_int (int_of_z s)
  | Uninit -> "!Uninit" | Stale -> "!Stale" | Abort -> "!Abort" | UB -> "!UB" | Ext -> "!Ext" | OutOfFuel -> "!OutOfFuel"

let print_ev (e:ev) = match e with
  | EvN (d, r) -> Printf.printf "N %d %s\n" (int_of_z d) (out_str hb r)
  | EvK0 r -> Printf.printf "K0 %s\n" (out_str (fun z -> string_of_int (int_of_z z)) r)
  | EvK r -> Printf.printf "K %s\n" (out_str (fun (a, b) -> hb a ^ " " ^ hb b) r)
  | EvL r -> Printf.printf "L %s\n" (out_str hb r)
  | EvT t -> Printf.printf "T %s\n" (hb t)
  | EvD n -> Printf.printf "D %d\n" (int_of_z n)
  | EvV r -> Printf.printf "V %s\n" (out_str (fun l -> String.concat "," (List.map hz l)) r)
  | EvC n -> Printf.printf "C %d\n" (int_of_z n)
  | EvX r -> Printf.printf "X %s\n" (out_str (fun (w, d) ->
        if int_of_z w = 0 then Printf.sprintf "ok %d %s" (List.length d) (hz (cksum d)) else "err " ^ string_of_int (int_of_z w)) r)
  | EvM r -> Printf.printf "M %s\n" (out_str (fun l -> Printf.sprintf "%d %s" (List.length l) (String.concat "," (List.map hb l))) r)
  | EvI r -> Printf.printf "I %s\n" (out_str (fun l -> if l = [] then "-" else String.concat "," (List.map pp l)) r)
  | EvG r -> Printf.printf "G %s\n" (out_str pp r)
  | EvVer r -> Printf.printf "VER %s\n" (out_str hb r)
  | EvFuel -> print_string "FUEL\n"

let cfg = ref legacy
let set_cfg (b:string) =
  let g i = String.length b > i && b.[i] = '1' in
  cfg := { fx_snt = g 0; fx_dct = g 1; fx_link = g 2; fx_nest = g 3; fx_fmt = g 4; fx_tag = g 5; fx_dtov = g 6;
           fx_rtype = g 7; fx_dim = g 8; fx_short = g 9; fx_sizes = g 10; fx_rad = g 11;
           fx_lfile = g 12; fx_lpath = g 13; fx_lnosep = g 14; fx_ver = g 15 }

let do_walk fuel (bs:z list) =
  (match walk !cfg (nat_of_int fuel) bs with
   | WOpenFail r -> Printf.printf "open %s\n" (out_str (fun _ -> "?") r)
   | WOk (root, evs) -> Printf.printf "open ok %s\n" (pp root); List.iter print_ev evs);
  print_string "END\n"

let patch (bs:z list) (off:int) (p:z list) : z list =
  let a = Array.of_list bs in
  List.iteri (fun i b -> if off + i < Array.length a then a.(off + i) <- b) p;
  Array.to_list a
let patchn (bs:z list) (ps:string) : z list =
  List.fold_left (fun acc p -> match String.split_on_char ':' p with
      | [off; h] -> patch acc (int_of_string off) (bytes_of_hex h) | _ -> failwith "patchn") bs (String.split_on_char ',' ps)
let rec take k l = if k <= 0 then [] else match l with [] -> [] | x :: r -> x :: take (k - 1) r

let abspos (p:ptr) = let (b, o) = p in int_of_z b * 4096 + int_of_z o

(* structures reachable from the root, located with the model's own decoders *)
let layout (bs:z list) =
  let flen = List.length bs in
  Printf.printf "S fileheader 0\nS fct 186\n";
  (match database_open !cfg bs with
   | Ok (f, root) ->
     let seen = Hashtbl.create 64 in
     let rec node (p:ptr) depth =
       let a = abspos p in
       if depth < 40 && not (Hashtbl.mem seen a) && a < flen then begin
         Hashtbl.add seen a ();
         match read_node_header !cfg f p with
         | Ok h ->
           Printf.printf "S node %d nsub=%d entries=%d ndims=%d nchunks=%d type=%s name=%s\n" a (int_of_z h.nh_nsub)
             (int_of_z h.nh_entries) (int_of_z h.nh_ndims) (int_of_z h.nh_nchunks) (hb (take 2 h.nh_dtype)) (hb h.nh_name);
           (if int_of_z h.nh_nchunks = 1 then
              (match read_chunk_length !cfg f h.nh_data with
               | Ok (_, e) -> Printf.printf "S data %d end=%d\n" (abspos h.nh_data) (abspos e) | _ -> ())
            else if int_of_z h.nh_nchunks > 1 then
              (match read_chunk_length !cfg f h.nh_data with
               | Ok (_, e) ->
                 Printf.printf "S dct %d end=%d n=%d\n" (abspos h.nh_data) (abspos e) (int_of_z (dct_count h.nh_data e));
                 (match read_dct {!cfg with fx_dct = false} f h.nh_data (z_of_int 100000) with
                  | Ok tbl -> List.iter (fun (s, en) ->
                      (match read_chunk_length !cfg f s with
                       | Ok (_, e2) -> Printf.printf "S data %d end=%d tblend=%d\n" (abspos s) (abspos e2) (abspos en) | _ -> ())) tbl
                  | _ -> ())
               | _ -> ()));
           if int_of_z h.nh_nsub > 0 then
             (match read_chunk_length !cfg f h.nh_snt with
              | Ok (_, e) ->
                Printf.printf "S snt %d end=%d n=%d parent=%d\n" (abspos h.nh_snt) (abspos e) (int_of_z (snt_count h.nh_snt e)) a;
                (match read_sub_node_table {!cfg with fx_snt = false} f h.nh_snt (z_of_int 100000) with
                 | Ok tbl -> List.iteri (fun i (nm, cp) ->
                     if i < int_of_z h.nh_nsub then begin
                       Printf.printf "S child %d -> %d parent=%d\n" (abspos h.nh_snt + 16 + 44 * i) (abspos cp) a;
                       node cp (depth + 1) end) tbl
                 | _ -> ())
              | _ -> ())
         | _ -> ()
       end in
     node root 0
   | _ -> ());
  print_string "END\n"

let parse_ptr s = match String.split_on_char ':' s with
  | [b; o] -> (z_of_hexstr b, z_of_hexstr o) | _ -> failwith "ptr"

let run () =
  let base = ref [] in
  let attr () = (mkfile !base).f_attr in
  let attr () = match database_open !cfg !base with Ok (f, _) -> f.f_attr | _ -> attr () in
  (try while true do
    let line = input_line stdin in
    match String.split_on_char ' ' (String.trim line) with
    | ["hex"; mn; mx; s] ->
      Printf.printf "r %s\n" (out_str (fun v -> "ok " ^ hz v) (hex2uint (z_of_hexstr mn) (z_of_hexstr mx) (bytes_of_hex s)))
    | ["dp"; s] -> Printf.printf "r %s\n" (out_str (fun p -> "ok " ^ pp p) (dp_from_hex (bytes_of_hex s)))
    | ["base"; s] -> base := bytes_of_hex s
    | ["cfg"; b] -> set_cfg b
    | ["walk"; fu] -> do_walk (int_of_string fu) !base
    | ["mut"; fu; off; s] -> do_walk (int_of_string fu) (patch !base (int_of_string off) (bytes_of_hex s))
    | ["mutn"; fu; ps] -> do_walk (int_of_string fu) (patchn !base ps)
    | ["mcheckn"; ps] -> Printf.printf "c %d\n" (int_of_z (check_file (patchn !base ps)))
    | ["trunc"; fu; len] -> do_walk (int_of_string fu) (take (int_of_string len) !base)
    | ["file"; fu; s] -> do_walk (int_of_string fu) (bytes_of_hex s)
    | ["check"] -> Printf.printf "c %d\n" (int_of_z (check_file !base))
    | ["mcheck"; off; s] -> Printf.printf "c %d\n" (int_of_z (check_file (patch !base (int_of_string off) (bytes_of_hex s))))
    | ["tcheck"; len] -> Printf.printf "c %d\n" (int_of_z (check_file (take (int_of_string len) !base)))
    | ["layout"] -> layout !base
    | ["fields"] ->
      List.iter (fun ((i, o), l) -> Printf.printf "F fileheader %d %d %d\n" (int_of_z i) (int_of_z o) (int_of_z l)) file_header_fields;
      List.iter (fun ((i, o), l) -> Printf.printf "F node %d %d %d\n" (int_of_z i) (int_of_z o) (int_of_z l)) node_header_fields;
      print_string "END\n"
    | ["witness"; nm] ->
      let w = (match nm with "valid" -> wit_valid | "oobw" -> wit_oobw | "oobr" -> wit_oobr | "cycle" -> wit_cycle
                           | "linkrec" -> wit_linkrec | "biglink" -> wit_biglink | "abort" -> wit_abort
                           | "tagscan" -> wit_tagscan | "stale" -> wit_stale | "dct" -> wit_dct | "neglink" -> wit_neglink
                           | "hugelink" -> wit_hugelink | "longfile" -> wit_longfile | "longpath" -> wit_longpath | "nosep" -> wit_nosep | "ver" -> wit_ver | "toklink" -> wit_toklink | "fmtneg" -> wit_fmtneg | "dtov" -> wit_dtov
                           | "rtype" -> wit_rtype | "dim" -> wit_dim | "sizes" -> wit_sizes | "radset" -> wit_radset | "radneg" -> wit_radneg | _ -> []) in
      Printf.printf "w %s\n" (hb w)
    | ["attr"] -> let a = attr () in Printf.printf "a old=%d fmt=%d os=%d\n" (if a.fa_old then 1 else 0) (int_of_z a.fa_fmt) (int_of_z a.fa_os)
    | ["enc"; "dp"; b; o] -> Printf.printf "e %s\n" (hb (dp_enc (attr ()) (z_of_hexstr b, z_of_hexstr o)))
    | ["enc"; "hex"; n; v] -> Printf.printf "e %s\n" (hb (hexenc (nat_of_int (int_of_string n)) (z_of_hexstr v)))
    | ["enc"; "int"; n; v] -> Printf.printf "e %s\n" (hb (conv_int_enc (attr ()).fa_fmt (nat_of_int (int_of_string n)) (z_of_hexstr v)))
    | ["enc"; "snt"; eb; eo; es] ->
      let es = if es = "-" then [] else List.map (fun e -> match String.split_on_char ':' e with
          | [nm; b; o] -> (bytes_of_hex nm, (z_of_hexstr b, z_of_hexstr o)) | _ -> failwith "snt entry") (String.split_on_char ';' es) in
      Printf.printf "e %s\n" (hb (enc_snt (attr ()) (z_of_hexstr eb, z_of_hexstr eo) es))
    | ["enc"; "dct"; eb; eo; es] ->
      let es = if es = "-" then [] else List.map (fun e -> match String.split_on_char ':' e with
          | [a; b; c; d] -> ((z_of_hexstr a, z_of_hexstr b), (z_of_hexstr c, z_of_hexstr d)) | _ -> failwith "dct entry") (String.split_on_char ';' es) in
      Printf.printf "e %s\n" (hb (enc_dct (attr ()) (z_of_hexstr eb, z_of_hexstr eo) es))
    | ["enc"; "data"; eb; eo; d] -> Printf.printf "e %s\n" (hb (enc_data_chunk (attr ()) (z_of_hexstr eb, z_of_hexstr eo) (bytes_of_hex d)))
    | [""] -> ()
    | _ -> Printf.printf "badline %s\n" (String.sub line 0 (min 60 (String.length line)))
  done with End_of_file -> ())
