(* engine c18: argv.(1) = "hashmap" drives HashMap.mstep, "zones" drives ZoneMirror.zstep *)
open Model
open Zutil

let dump (m:hmap) =
  let n = int_of_z m.m_nentries in
  let idx = String.concat "," (List.map (fun x -> string_of_int (int_of_z x)) m.m_indices) in
  let rec take k l = if k <= 0 then [] else match l with [] -> [] | x::r -> x :: take (k-1) r in
  let ents = String.concat ";" (List.map (fun e ->
      Printf.sprintf "%s:%d:%s" (hex_of_z e.e_hash) (int_of_z e.e_val) (hex_of_bytes e.e_key)) (take n m.m_entries)) in
  Printf.printf "D static=%d size=%d usable=%d nentries=%d used=%d | %s | %s\n"
    (if m.m_static then 1 else 0) (int_of_z m.m_size) (int_of_z m.m_usable) n (int_of_z m.m_used)
    (if m.m_static then "-" else idx) ents

let run_hashmap () =
  let st = ref empty_map in
  let apply op =
    match mstep !st op with
    | None -> print_string "outoffuel\n"
    | Some (m, r) -> st := m; Printf.printf "r %d\n" (int_of_z r) in
  (try while true do
    let line = input_line stdin in
    match String.split_on_char ' ' (String.trim line) with
    | ["set"; k; v] -> apply (MSet (bytes_of_hex k, z_of_int (int_of_string v)))
    | ["get"; k] -> apply (MGet (bytes_of_hex k))
    | ["has"; k] -> apply (MHas (bytes_of_hex k))
    | ["del"; k] -> apply (MDel (bytes_of_hex k))
    | ["clear"] -> apply MClear
    | ["presize"; n] -> apply (MPresize (z_of_int (int_of_string n)))
    | ["hash"; k] -> Printf.printf "h %s\n" (hex_of_z (hash_cstr (bytes_of_hex k)))
    | ["dump"] -> dump !st
    | [""] -> ()
    | _ -> Printf.printf "badline %s\n" line
  done with End_of_file -> ())

let run_zones () =
  let st = ref empty_base in
  let apply op = match zstep !st op with
    | None -> print_string "outoffuel\n"
    | Some (b, r) -> st := b; Printf.printf "r %d\n" (int_of_z r) in
  (try while true do
    let line = input_line stdin in
    match String.split_on_char ' ' (String.trim line) with
    | ["zw"; k; v] -> apply (ZWrite (bytes_of_hex k, z_of_int (int_of_string v)))
    | ["zdel"; k] -> apply (ZDelete (bytes_of_hex k))
    | ["reorder"; l] -> apply (ZReopen (if l = "-" then [] else List.map bytes_of_hex (String.split_on_char ',' l)))
    | ["list"] -> Printf.printf "L %s\n" (if !st.zb_zones = [] then "-" else String.concat ","
          (List.map (fun (n, p) -> Printf.sprintf "%s:%d" (hex_of_bytes n) (int_of_z p)) !st.zb_zones))
    | [""] -> ()
    | _ -> Printf.printf "badline %s\n" line
  done with End_of_file -> ())

let run () =
  match Sys.argv.(1) with
  | "hashmap" -> run_hashmap ()
  | "zones" -> run_zones ()
  | e -> prerr_endline ("unknown sub-engine " ^ e); exit 2
