(* engine c06: argv.(1) = "conv" drives Convert.convert_data on the regenerated cast table (conversion level);
   argv.(1) = "api", argv.(2) = adf|hdf5 drives Convert.step (cgi_array_general_write/_read, cg_array_read_as).
   Same script language and canonical lines as harness/c06_conv_h.c and harness/c06_api_h.c.
   Element values travel as the hex of their little-endian bytes; the model works on the integer they encode. *)
open Model
open Zutil

let tparse = function
  | "C1" -> C1 | "I4" -> I4 | "I8" -> I8 | "R4" -> R4 | "R8" -> R8 | "X4" -> X4 | "X8" -> X8
  | s -> failwith ("type " ^ s)
let tname = function C1 -> "C1" | I4 -> "I4" | I8 -> "I8" | R4 -> "R4" | R8 -> "R8" | X4 -> "X4" | X8 -> "X8"
let tsize = function C1 -> 1 | I4 -> 4 | I8 -> 8 | R4 -> 4 | R8 -> 8 | X4 -> 8 | X8 -> 16

let z256 = z_of_int 256
(* little-endian bytes s.[off .. off+n-1] (as hex text) -> Z *)
let z_of_lehex (s:string) (off:int) (n:int) : z =
  let r = ref Z0 in
  for i = n - 1 downto 0 do
    let b = hexval s.[2*(off+i)] * 16 + hexval s.[2*(off+i)+1] in
    r := Z.add (Z.mul !r z256) (z_of_int b)
  done; !r
let lehex_of_z (v:z) (n:int) : string =
  let buf = Buffer.create (2*n) in
  let r = ref v in
  for _ = 1 to n do
    let b = int_of_z (Z.modulo !r z256) in
    Buffer.add_string buf (Printf.sprintf "%02x" b);
    r := Z.div !r z256
  done; Buffer.contents buf
let elems_of_blob (t:dtype) (blob:string) : z list =
  if blob = "-" then [] else
  let sz = tsize t in
  let n = String.length blob / (2*sz) in
  List.init n (fun i -> z_of_lehex blob (i*sz) sz)
let blob_of_elems (t:dtype) (l:z list) : string =
  if l = [] then "-" else String.concat "" (List.map (fun v -> lehex_of_z v (tsize t)) l)

let run_conv () =
  (try while true do
    let line = input_line stdin in
    match String.split_on_char ' ' (String.trim line) with
    | ["conv"; f; t; blob] ->
      let f = tparse f and t = tparse t in
      (match convert_data cast_table f t (elems_of_blob f blob) with
       | None -> print_string "c err\n"
       | Some l -> Printf.printf "c %s\n" (blob_of_elems t l))
    | ["cast"; f; t; blob] ->            (* the specification c_cast itself, not the table *)
      let f = tparse f and t = tparse t in
      Printf.printf "c %s\n" (blob_of_elems t (List.map (c_cast f t) (elems_of_blob f blob)))
    | ["repr"; f; t; blob] ->
      let f = tparse f and t = tparse t in
      Printf.printf "p %s\n" (String.concat "" (List.map (fun v -> if representable f t v then "1" else "0") (elems_of_blob f blob)))
    | [""] -> ()
    | _ -> Printf.printf "badline %s\n" line
  done with End_of_file -> ())

(* names: one namespace per parent (coordinates / fields / generic arrays) *)
let ids : (string, int) Hashtbl.t = Hashtbl.create 16
let id_of kind name =
  let ns = if String.length kind >= 5 && String.sub kind 0 5 = "coord" then "c"
           else if String.length kind >= 5 && String.sub kind 0 5 = "field" then "f" else "a" in
  let k = ns ^ ":" ^ name in
  match Hashtbl.find_opt ids k with
  | Some i -> z_of_int i
  | None -> let i = Hashtbl.length ids + 1 in Hashtbl.add ids k i; z_of_int i

let run_api () =
  let be = if Sys.argv.(2) = "hdf5" then HDF5 else ADF in
  let st = ref [] in
  let zi s = z_of_int (int_of_string s) in
  (try while true do
    let line = input_line stdin in
    match String.split_on_char ' ' (String.trim line) with
    | ["w"; kind; name; s; sd; lo; hi; m; md; mlo; mhi; blob] ->
      let s = tparse s and m = tparse m in
      let (st', r) = step cast_table be !st (OpWrite (id_of kind name, s, zi sd, zi lo, zi hi, m, zi md, zi mlo, zi mhi,
                                                      elems_of_blob m blob)) in
      st := st';
      (match r with RStatus Ok -> print_string "r ok\n" | _ -> print_string "r err\n")
    | ["r"; kind; name; lo; hi; m; md; mlo; mhi] ->
      let id = id_of kind name in
      let info = (match step cast_table be !st (OpInfo id) with (_, RInfo (t, d)) -> Some (t, d) | _ -> None) in
      let m = if kind = "arrayread" then (match info with Some (t, _) -> t | None -> C1) else tparse m in
      let mdn = int_of_string md in
      let zeros = List.init (max mdn 0) (fun _ -> Z0) in
      let op = if kind = "readas" then OpReadAs (id, m)
               else OpRead ((kind = "array"), id, zi lo, zi hi, m, zi md, zi mlo, zi mhi, zeros) in
      (match step cast_table be !st op with
       | (_, RData (Ok, d)) -> Printf.printf "d ok %s\n" (blob_of_elems m d)
       | _ -> print_string "d err\n")
    | ["i"; kind; name] ->
      (match step cast_table be !st (OpInfo (id_of kind name)) with
       | (_, RInfo (t, d)) -> Printf.printf "t %s %d\n" (tname t) (int_of_z d)
       | _ -> print_string "t none\n")
    | ["reopen"] -> print_string "reopened\n"
    | [""] -> ()
    | _ -> Printf.printf "badline %s\n" line
  done with End_of_file -> ())

let run () =
  match Sys.argv.(1) with
  | "conv" -> run_conv ()
  | "api" -> run_api ()
  | e -> prerr_endline ("unknown sub-engine " ^ e); exit 2
