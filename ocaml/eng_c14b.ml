(* engine c14b: the status-skeleton machine of coq/ErrProp.v run on the regenerated table coq/Gen_C14.v.
   Sys.argv.(1):
     lists   the verdict of the kernel-evaluated predicates and the name lists they are built from:
               ok <all_checked> <all_parsed> <exceptions_named> <ids_ok>
               bad <caller> <callee> <line> <cont>          rows that falsify all_checked
               unparsed <caller> <line>
               lossy <caller> <callee> <line> <cont>        rows whose callee reaches a primitive and whose status is
                                                            not propagated (bad rows + excused rows)
               reach <name> ...      prim <name> ...      stale <caller> <callee>      known <caller> <callee>
     run     stdin: one call per line  `<function> <n> <n> ...` (the oracle: 0 leave ok, 1 leave with an error, i+2 run
             site i; at a callee outside the table: 0 succeeds, else fails); prints
               r <ok|err|fuel> failed=<0|1> lost=<caller>:<callee>,...                                            *)
open Model
open Zutil

let char_of_ascii (Ascii (a, b, c, d, e, f, g, h)) =
  let bit x i = if x then 1 lsl i else 0 in
  Char.chr (bit a 0 + bit b 1 + bit c 2 + bit d 3 + bit e 4 + bit f 5 + bit g 6 + bit h 7)
let rec str s = match s with EmptyString -> "" | String (c, r) -> Stdlib.String.make 1 (char_of_ascii c) ^ str r
let cont_s k = match k with KReturn -> "Return" | KFlow -> "Flow" | KHandled -> "Handled" | KOverwritten -> "Overwritten"
                          | KIgnored -> "Ignored" | KUnparsed -> "Unparsed"
let b01 b = if b then 1 else 0

let run () =
  let what = if Array.length Sys.argv > 1 then Sys.argv.(1) else "lists" in
  let p = prim_set table externs in
  let pf = primf p in
  let et = eff_table table in
  let r = analyse_R table externs in
  let nm i = let s = str (name_of table externs i) in if s = "" then "?" else s in
  if what = "lists" then begin
    Printf.printf "ok %d %d %d %d\n" (b01 (all_checked pf et exceptions r)) (b01 (all_parsed table))
      (b01 (exceptions_named table externs exceptions)) (b01 (ids_ok table externs));
    List.iter (fun (((a, b), l), k) -> Printf.printf "bad %s %s %d %s\n" (str a) (nm b) (int_of_pos l) (cont_s k))
      (bad_rows pf et exceptions r);
    List.iter (fun (a, l) -> Printf.printf "unparsed %s %d\n" (str a) (int_of_pos l)) (unparsed_rows table);
    List.iter (fun (((a, b), l), k) -> Printf.printf "lossy %s %s %d %s\n" (str a) (nm b) (int_of_pos l) (cont_s k))
      (excused_rows pf et r);
    Printf.printf "reach %s\n" (String.concat " " (List.map str (reach_names table r)));
    Printf.printf "prim %s\n" (String.concat " " (List.map str prim_io));
    List.iter (fun (a, b) -> Printf.printf "stale %s %s\n" (str a) (str b)) stale_exceptions;
    List.iter (fun (a, b) -> Printf.printf "known %s %s\n" (str a) (str b)) known_unchecked
  end else begin
    let ids = Hashtbl.create 512 in
    List.iter (fun f -> Hashtbl.replace ids (str f.f_name) f.f_id) table;
    List.iter (fun (i, n) -> Hashtbl.replace ids (str n) i) externs;
    let fuel = nat_of_int 4000 in
    (try
      while true do
        let line = input_line stdin in
        match List.filter (fun x -> x <> "") (String.split_on_char ' ' (String.trim line)) with
        | [] -> ()
        | fn :: nums ->
          (match Hashtbl.find_opt ids fn with
           | None -> Printf.printf "r unknown-function %s\n" fn
           | Some id ->
             let o = List.map (fun x -> nat_of_int (int_of_string x)) nums in
             let ((res, s), _) = Model.run (rows_of et) pf fuel (nat_of_int 64) id o { failed = false; lost = [] } in
             Printf.printf "r %s failed=%d lost=%s\n" (match res with ROK -> "ok" | RERR -> "err" | RFUEL -> "fuel")
               (b01 s.failed)
               (if s.lost = [] then "-" else String.concat "," (List.rev_map (fun (a, b) -> nm a ^ ":" ^ nm b) s.lost)))
      done
    with End_of_file -> ())
  end
