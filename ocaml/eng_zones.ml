(* engine "zones": drives ZoneMirror.zstep.  Lines: zw <hexname> <payload> | zdel <hexname> | reorder <hex,hex,..> | list *)
open Model
open Zutil
let run () =
  let st = ref empty_base in
  let apply op = match zstep !st op with
    | None -> print_string "outoffuel\n"
    | Some (b, r) -> st := b; Printf.printf "r %d\n" (int_of_z r) in
  (try while true do
    let line = input_line stdin in
    match String.split_on_char ' ' (String.trim line) with
    | ["zw"; k; v] -> apply (ZWrite (bytes_of_hex k, z_of_int (int_of_string v)))
    | ["zdel"; k] -> apply (ZDelete (bytes_of_hex k))
    | ["reorder"; l] -> apply (ZReopen (if l = "-" then [] else List.map bytes_of_hex (String.split_on_char ',' l)))
    | ["list"] -> Printf.printf "L %s\n" (if !st.zb_zones = [] then "-" else String.concat ","
          (List.map (fun (n, p) -> Printf.sprintf "%s:%d" (hex_of_bytes n) (int_of_z p)) !st.zb_zones))
    | [""] -> ()
    | _ -> Printf.printf "badline %s\n" line
  done with End_of_file -> ())
