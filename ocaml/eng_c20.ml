(* engine c20: the four string helpers of cg_ftoc.c / cgio_ftoc.c as modelled in coq/Ftoc.v (run_helper).
   Script (one op per line; byte strings in hex, "-" = empty):
     toc <fortran bytes> <flen> <max_len> <initial C buffer>      to_c_string        (cgio_ftoc.c)
     s2c <fortran bytes> <flen> <max_len> <initial C buffer>      string_2_C_string  (cg_ftoc.c)
     tof <C bytes incl. NUL> <flen> <initial Fortran buffer>      to_f_string
     s2f <C bytes incl. NUL> <flen> <initial Fortran buffer>      string_2_F_string
     int32 <n>                                                    size_t -> int conversion of a hidden length
   Output: r <final buffer> oob=<indices written outside the buffer> ret=<return value or *ierr> *)
open Model
open Zutil

let show (((b, oob), ret) : (z list * z list) * z) =
  Printf.printf "r %s oob=%s ret=%d\n" (hex_of_bytes b) (csv_of_zs oob) (int_of_z ret)

let run () =
  (try while true do
    let line = input_line stdin in
    match String.split_on_char ' ' (String.trim line) with
    | ["toc"; f; n; m; b] -> show (run_helper HToC (bytes_of_hex f) (z_of_int (int_of_string n)) (z_of_int (int_of_string m)) (bytes_of_hex b))
    | ["s2c"; f; n; m; b] -> show (run_helper HS2C (bytes_of_hex f) (z_of_int (int_of_string n)) (z_of_int (int_of_string m)) (bytes_of_hex b))
    | ["tof"; c; n; b] -> show (run_helper HToF (bytes_of_hex c) (z_of_int (int_of_string n)) Z0 (bytes_of_hex b))
    | ["s2f"; c; n; b] -> show (run_helper HS2F (bytes_of_hex c) (z_of_int (int_of_string n)) Z0 (bytes_of_hex b))
    | ["int32"; n] -> Printf.printf "i %d\n" (int_of_z (to_int32 (z_of_int (int_of_string n))))
    | [""] -> ()
    | _ -> Printf.printf "badline %s\n" line
  done with End_of_file -> ())
