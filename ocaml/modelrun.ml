(* modelrun.ml -- runs an extracted model on a script read from stdin; one canonical line per op. *)
let () =
  if Array.length Sys.argv < 2 then (prerr_endline "usage: modelrun <engine>"; exit 2);
  match Sys.argv.(1) with
  | "hashmap" -> Eng_hashmap.run ()
  | "zones" -> Eng_zones.run ()
  | e -> prerr_endline ("unknown engine " ^ e); exit 2
