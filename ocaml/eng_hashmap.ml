(* engine "hashmap": drives HashMap.mstep *)
open Model
open Zutil

let dump (m:hmap) =
  let n = int_of_z m.m_nentries in
  let idx = String.concat "," (List.map (fun x -> string_of_int (int_of_z x)) m.m_indices) in
  let rec take k l = if k <= 0 then [] else match l with [] -> [] | x::r -> x :: take (k-1) r in
  let ents = String.concat ";" (List.map (fun e ->
      Printf.sprintf "%s:%d:%s" (hex_of_z e.e_hash) (int_of_z e.e_val) (hex_of_bytes e.e_key)) (take n m.m_entries)) in
  Printf.printf "D static=%d size=%d usable=%d nentries=%d used=%d | %s | %s\n"
    (if m.m_static then 1 else 0) (int_of_z m.m_size) (int_of_z m.m_usable) n (int_of_z m.m_used)
    (if m.m_static then "-" else idx) ents

let run () =
  let st = ref empty_map in
  let apply op =
    match mstep !st op with
    | None -> print_string "outoffuel\n"
    | Some (m, r) -> st := m; Printf.printf "r %d\n" (int_of_z r) in
  (try while true do
    let line = input_line stdin in
    match String.split_on_char ' ' (String.trim line) with
    | ["set"; k; v] -> apply (MSet (bytes_of_hex k, z_of_int (int_of_string v)))
    | ["get"; k] -> apply (MGet (bytes_of_hex k))
    | ["has"; k] -> apply (MHas (bytes_of_hex k))
    | ["del"; k] -> apply (MDel (bytes_of_hex k))
    | ["clear"] -> apply MClear
    | ["presize"; n] -> apply (MPresize (z_of_int (int_of_string n)))
    | ["hash"; k] -> Printf.printf "h %s\n" (hex_of_z (hash_cstr (bytes_of_hex k)))
    | ["dump"] -> dump !st
    | [""] -> ()
    | _ -> Printf.printf "badline %s\n" line
  done with End_of_file -> ())
