(* engine c03: node-name validation of the two back ends (BackendDiff.v).
   argv.(1) = adf | hdf5.  Script: one op per line
     create <hex name>     -> ok <hex stored name> | err <code>
     rename <hex name>     -> ok <hex stored name> | err <code>     (rename of a fresh node "base")
     common <hex name>     -> yes | no *)
open Model
open Zutil

let show r = match r with
  | NOk l -> Printf.printf "ok %s\n" (hex_of_bytes l)
  | NErr e -> Printf.printf "err %d\n" (int_of_z e)

let run () =
  let adf = Sys.argv.(1) = "adf" in
  (try while true do
    let line = String.trim (input_line stdin) in
    match String.split_on_char ' ' line with
    | ["create"; h] -> let s = bytes_of_hex h in show (if adf then adf_name false s else adfh_name s)
    | ["rename"; h] -> let s = bytes_of_hex h in show (if adf then adf_name true s else adfh_name s)
    | ["common"; h] -> print_string (if common_name (bytes_of_hex h) then "yes\n" else "no\n")
    | [""] -> ()
    | _ -> print_string "badline\n"
  done with End_of_file -> ())
