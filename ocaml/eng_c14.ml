(* engine c14: runs the AdfIO model on the script of harness/c14_adfi.c.
   script: first line  init <size> <seed>;  optional line  resp <r1> <r2> ...  with ri in
   ok | eintr | err:<errno> | short:<n>;  then the ops  w <block> <off> <len> <seed> | r <block> <off> <len> | f | y | c
   output: "s <status>[ <fnv>]" per op, "disk <size> <fnv>", then the system-call log "L <name> <off> <req> <ret>" *)
open Model
open Zutil

let gen seed i = (seed * 131 + i * 7 + (i lsr 8) * 13) land 0xff
let bytes n seed = List.init n (fun i -> z_of_int (gen seed i))
let fnv (l : z list) : string =
  let h = ref 0xcbf29ce484222325L in
  List.iter (fun b -> h := Int64.mul (Int64.logxor !h (Int64.of_int (int_of_z b))) 0x100000001b3L) l;
  Printf.sprintf "%016Lx" !h

let parse_resp s =
  match String.split_on_char ':' s with
  | ["ok"] -> Ok (z_of_int 0x40000000)
  | ["eintr"] -> Eintr
  | ["err"; e] -> Err (z_of_int (int_of_string e))
  | ["short"; n] -> Ok (z_of_int (int_of_string n))
  | _ -> failwith ("resp " ^ s)

let run () =
  let st = ref (mk_state [] []) in
  let init = ref [] and resps = ref [] and started = ref false in
  let start () = if not !started then (started := true; st := mk_state !init !resps) in
  let apply op =
    start ();
    match step Z0 !st op with
    | None -> print_string "outoffuel\n"
    | Some ((e, d), s') ->
        st := s';
        let code = match e with None -> -1 | Some x -> int_of_z x in
        (match op, e with
         | ORead _, None -> Printf.printf "s %d %s\n" code (fnv d)
         | _ -> Printf.printf "s %d\n" code) in
  (try while true do
    let line = input_line stdin in
    match String.split_on_char ' ' (String.trim line) with
    | ["init"; n; seed] -> init := bytes (int_of_string n) (int_of_string seed)
    | "resp" :: rs -> resps := List.map parse_resp (List.filter (fun x -> x <> "") rs)
    | ["w"; b; o; n; seed] -> apply (OWrite (z_of_int (int_of_string b), z_of_int (int_of_string o), bytes (int_of_string n) (int_of_string seed)))
    | ["r"; b; o; n] -> apply (ORead (z_of_int (int_of_string b), z_of_int (int_of_string o), nat_of_int (int_of_string n)))
    | ["f"] -> apply OFlush
    | ["y"] -> apply OFsync
    | ["c"] -> apply OClose
    | [""] -> ()
    | _ -> Printf.printf "badline %s\n" line
  done with End_of_file -> ());
  start ();
  let o = !st.o_ in
  Printf.printf "disk %d %s\n" (List.length o.disk) (fnv o.disk);
  List.iter (fun c -> match c with
    | LWrite (off, req, ret) -> Printf.printf "L write %d %d %d\n" (int_of_nat off) (int_of_nat req) (int_of_z ret)
    | LRead (off, req, ret) -> Printf.printf "L read %d %d %d\n" (int_of_nat off) (int_of_nat req) (int_of_z ret)
    | LSeek (off, ret) -> Printf.printf "L lseek %d 0 %d\n" (int_of_z off) (int_of_z ret)
    | LFsync ret -> Printf.printf "L fsync 0 0 %d\n" (int_of_z ret)
    | LClose ret -> Printf.printf "L close 0 0 %d\n" (int_of_z ret)) (List.rev o.log)
