(* engine c07 (shared by C12): the skeleton machine of coq/Gates.v run on the regenerated table coq/Gen_C07.v.
   Sys.argv.(1):
     verdicts   one line per public entry point:  v <name> read=<res>/<touched> write=.. modify=..   (empty oracle =
                valid arguments; res = ok | err | inv | fuel; touched = 1 if the file log is not empty afterwards)
     lists      the name lists the kernel-evaluated predicates are built from:  l <list> <name> ...            *)
open Model

let char_of_ascii (Ascii (a, b, c, d, e, f, g, h)) =
  let bit x i = if x then 1 lsl i else 0 in
  Char.chr (bit a 0 + bit b 1 + bit c 2 + bit d 3 + bit e 4 + bit f 5 + bit g 6 + bit h 7)
let rec str s = match s with EmptyString -> "" | String (c, r) -> String.make 1 (char_of_ascii c) ^ str r
let res_s r = match r with ROK -> "ok" | RERR -> "err" | RINV -> "inv" | RFUEL -> "fuel"
let vs (r, t) = Printf.sprintf "%s/%d" (res_s r) (if t then 1 else 0)

let run () =
  let what = if Array.length Sys.argv > 1 then Sys.argv.(1) else "verdicts" in
  if what = "verdicts" then
    List.iter (fun (n, ((a, b), c)) -> Printf.printf "v %s read=%s write=%s modify=%s\n" (str n) (vs a) (vs b) (vs c))
      (model_all table externs)
  else begin
    let a = analyse table externs in
    let pl tag l = Printf.printf "l %s %s\n" tag (String.concat " " (List.map str l)) in
    pl "mutators" (mutator_names table a);
    pl "gated" (gated_names table a);
    pl "bad_mutators" (bad_mutators table a);
    pl "bad_readers" (bad_readers table a);
    pl "mirror_readers" (mirror_readers table a);
    pl "late_validation" (late_validation table a);
    pl "silent" (silent_names table externs);
    pl "bad_getters" (bad_getters alloc_pairs getters);
    pl "unknown_externs" (unknown_externs externs);
    pl "known_ungated" known_ungated;
    pl "known_impure_readers" known_impure_readers
  end
