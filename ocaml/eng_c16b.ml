(* engine c16b: runs the Handles model on the scripts of harness/c16b_h.c.
   mll: open <cgiofail|latefail|ok> | close <fn> | get <fn>
        -> "open <0|1> <fn> | mll <n_open> <n_cgns_files> <cgns_file_size> <file_number_offset> | live <fn:slot,..>"
   io:  world <kinds> <links> | open <n> <r|m> | close <c> | use <c> | get <c>
        -> "<answer> | io <num_open> <num_iolist> <slots> | adf <maximum_files> <in_use:name:links;..> | live <c:adfslot:file,..>" *)
open Model
open Zutil

let i2n = nat_of_int
let n2i = int_of_nat
let words s = List.filter (fun x -> x <> "") (String.split_on_char ' ' (String.trim s))
let live_str l = if l = [] then "-" else
  String.concat "," (List.map (fun ((h, sl), tg) -> Printf.sprintf "%d:%d:%d" (n2i h) (n2i sl) (n2i tg)) l)

let run_mll () =
  let m = ref mll_init and live = ref [] in
  let tail () = Printf.sprintf " | mll %d %d %d %d | live %s" (n2i !m.n_open) (List.length !m.files) (n2i !m.fsize) (n2i !m.foffset) (live_str !live) in
  (try while true do
    let line = input_line stdin in
    match words line with
    | [] -> ()
    | ["open"; oc] ->
        let oc = (match oc with "cgiofail" -> OCgioFail | "latefail" -> OLateFail | _ -> OSuccess) in
        let left = (match fn_left !m oc with Some x -> n2i x | None -> -7) in   (* what is stored through fn before the outcome is known *)
        let ((m1, l1), r) = mh_step MCur !m !live (MOpen oc) in
        m := m1; live := l1;
        (match r with Some fn -> Printf.printf "open 0 %d left %d%s\n" (n2i fn) (n2i fn) (tail ())
                    | None -> Printf.printf "open 1 0 left %d%s\n" left (tail ()))
    | ["close"; fn] ->
        let ((m1, l1), r) = mh_step MCur !m !live (MClose (i2n (max 0 (int_of_string fn)), true)) in
        m := m1; live := l1; Printf.printf "close %d%s\n" (if r <> None then 0 else 1) (tail ())
    | ["get"; fn] ->
        let r = if int_of_string fn < 0 then None else cgi_get_file !m (i2n (int_of_string fn)) in
        Printf.printf "get %d%s\n" (if r <> None then 0 else 1) (tail ())
    | _ -> print_string ("badline " ^ line ^ "\n")
  done with End_of_file -> ())

let kind_of_string = function
  | "ok" | "okL" | "okB" | "okE" -> KOk | "missing" -> KMissing | "garbage" -> KGarbage | "badhdr" -> KBadHdr (i2n 0) | "dir" -> KDir
  | s -> failwith ("kind " ^ s)
let layout_of_string = function "okL" -> LLegacy | "okB" -> LBig | "okE" -> LLittle | _ -> LNative
let attr_str (x : fattr) =
  let ch n = if n2i n = 0 then "0" else if n2i n = 32 then "_" else String.make 1 (Char.chr (n2i n)) in
  Printf.sprintf "%d%s%s%s%d" (if x.a_old then 1 else 0) (ch x.a_fmt) (ch x.a_os) (ch x.a_sep) (if x.a_vupd then 1 else 0)

let run_io () =
  let w = ref { kinds = []; wlinks = []; wdlinks = []; layouts = [] } and s = ref io_init and live = ref [] and fuel = i2n 20000 in
  let dump () =
    let b = Buffer.create 200 in
    Buffer.add_string b (Printf.sprintf " | io %d %d " (n2i !s.nopen) (List.length !s.iol));
    if !s.iol = [] then Buffer.add_string b "-" else
      Buffer.add_string b (String.concat "," (List.map (fun o -> match o with None -> "-" | Some i ->
        if n2i i < List.length !s.io_adf.tab then string_of_int (n2i i) else "?") !s.iol));
    Buffer.add_string b (Printf.sprintf " | adf %d " (List.length !s.io_adf.tab));
    if !s.io_adf.tab = [] then Buffer.add_string b "-" else
      Buffer.add_string b (String.concat ";" (List.mapi (fun idx sl ->
        let iu = n2i sl.in_use in
        Printf.sprintf "%d:%d:%s:%s" iu (if iu > 0 then (match sl.fname with Some n -> n2i n | None -> -1) else -1)
          (if iu = 0 || sl.links = [] then "-" else String.concat "," (List.map (fun x -> string_of_int (n2i x)) sl.links))
          (if iu = 0 then "-" else attr_str (try List.nth !s.io_adf.amem idx with _ -> zero_attr)))
        !s.io_adf.tab));
    Buffer.add_string b (" | live " ^ live_str !live);
    Buffer.contents b in
  let stop = ref false in
  (try while not !stop do
    let line = input_line stdin in
    match words line with
    | [] -> ()
    | ["world"; ks; ls] ->
        let kinds = List.map kind_of_string (String.split_on_char ',' ks) in
        let wl = if ls = "-" then [] else List.map (fun e -> match String.split_on_char '>' e with
                   | [a; b] -> (i2n (int_of_string a), i2n (int_of_string b)) | _ -> failwith "link") (String.split_on_char ',' ls) in
        w := { kinds = kinds; wlinks = wl; wdlinks = []; layouts = List.map layout_of_string (String.split_on_char ',' ks) }; s := io_init; live := [];
        print_string ("world ok" ^ dump () ^ "\n")
    | ["open"; n; m] | ["close"; n; m] when false -> ignore (n, m)
    | ["open"; n; m] ->
        (match hstep fuel !w !s !live (OOpen (i2n (int_of_string n), m = "m")) with
         | None -> print_string "diverge\n"; stop := true
         | Some ((s1, l1), r) -> s := s1; live := l1;
             (match r with ResOpen (Some c) -> Printf.printf "open ok %d%s\n" (n2i c) (dump ())
                         | _ -> Printf.printf "open err 0%s\n" (dump ())))
    | ["close"; c] ->
        (match hstep fuel !w !s !live (OClose (i2n (max 0 (int_of_string c)))) with
         | None -> print_string "diverge\n"; stop := true
         | Some ((s1, l1), r) -> s := s1; live := l1;
             let code = (match r with ResClose ROk -> 0 | ResClose RBadCgio -> -1 | ResClose RFileType -> -4
                                    | ResClose (RAdf e) -> n2i e | _ -> 99) in
             Printf.printf "close %d%s\n" code (dump ()))
    | ["use"; c] ->
        let c = max 0 (int_of_string c) in
        (match cgio_walk Cur fuel !w !s (i2n c) [] with
         | Some (_, true) ->
             let nm = (match cgio_resolve !s (i2n c) with
                       | Some idx -> (match (List.nth !s.io_adf.tab (n2i idx)).fname with Some n -> n2i n | None -> -1)
                       | None -> -1) in
             Printf.printf "use 0 F%d_t%s\n" nm (dump ())
         | _ -> Printf.printf "use 1 -%s\n" (dump ()))
    | ["walk"; c; n] ->
        (match hstep fuel !w !s !live (OWalk (i2n (max 0 (int_of_string c)), [(i2n (int_of_string n), false)])) with
         | None -> print_string "diverge\n"; stop := true
         | Some ((s1, l1), r) -> s := s1; live := l1;
             (match r with ResWalk true -> Printf.printf "walk 0 F%s_t%s\n" n (dump ())
                         | _ -> Printf.printf "walk 1 -%s\n" (dump ())))
    | ["get"; c] ->
        let c = max 0 (int_of_string c) in
        if get_cgnsio !s (i2n c) then
          Printf.printf "get 0 %d%s\n" (match cgio_resolve !s (i2n c) with Some _ -> 1 | None -> 0) (dump ())
        else Printf.printf "get 1 -1%s\n" (dump ())
    | _ -> print_string ("badline " ^ line ^ "\n")
  done with End_of_file -> ())

let run () =
  if Array.length Sys.argv > 1 && Sys.argv.(1) = "mll" then run_mll () else run_io ()
