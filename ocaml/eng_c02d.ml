(* engine c02d: replays the allocator trace of harness/c02d_alloc.c (the "A ..." lines; everything else on stdin is
   ignored) through the extracted AdfAlloc model (one model state per FILE PATH: the state lives in the file and must
   survive close + reopen).
   For each A line one output line:
     ok [...]                        model and implementation agree
     DIFF <what> model=.. impl=..    they do not
     SNAP <k> <eof> L <live> F <free> D <dead> X <lost>   (for "A S": the model's view at a snapshot, regions as start:bytes)
   NOTE short-free ...               a free handed back fewer bytes than were allocated (allowed; the tail is [lost])
   possibly preceded by
     VIOL <kind> ...                 a hypothesis of the theorems does not hold at this step:
                                     range (in_c_range), size (malloc of <= 0), free-not-live (the freed range is not a live
                                     allocation with exactly that size), eoc (end-of-chunk pointer not normalised / not
                                     start + bytes - 4)
   and at the end  SUMMARY key=value ...
   argv.(1) = "search": ADFI_file_malloc is replayed with [malloc_search] (the text inside "#if 0", variant build). *)
open Model
open Zutil

let zi = z_of_int and iz = int_of_z
let split s = List.filter (fun x -> x <> "") (String.split_on_char ' ' s)
let out = Buffer.create 65536
let say s = Buffer.add_string out s; Buffer.add_char out '\n'

let search = Array.length Sys.argv > 1 && Sys.argv.(1) = "search"
let states : (string, st) Hashtbl.t = Hashtbl.create 8
let slot : (int, string) Hashtbl.t = Hashtbl.create 8
(* per slot: size asked, state after, position, gap still expected *)
let pending : (int, int * st * int * (int * int) option ref) Hashtbl.t = Hashtbl.create 8
let tainted : (string, unit) Hashtbl.t = Hashtbl.create 8     (* files on which a free outside the theorems' hypothesis was seen *)
let cnt = Hashtbl.create 16
let bump ?(by = 1) k = Hashtbl.replace cnt k (by + try Hashtbl.find cnt k with Not_found -> 0)

let get fi = try Some (Hashtbl.find states (Hashtbl.find slot fi)) with Not_found -> None
let put fi s = try Hashtbl.replace states (Hashtbl.find slot fi) s with Not_found -> ()

let chunks_str (f : flist) =
  if f.fl_chunks = [] then "-" else String.concat "," (List.map (fun (p, e) -> Printf.sprintf "%d:%d" (iz p) (iz e)) f.fl_chunks)
let last_str (f : flist) = match f.fl_last with None -> "-" | Some a -> string_of_int (iz a)
let first_str (f : flist) = match f.fl_chunks with [] -> "-" | (p, _) :: _ -> string_of_int (iz p)
let regs_str (l : (z * z) list) =
  if l = [] then "-" else String.concat "," (List.map (fun (p, n) -> Printf.sprintf "%d:%d" (iz p) (iz n)) l)
let lists_str (s : st) =
  Printf.sprintf "%d %s %s %s %s %s %s" (iz s.eof) (chunks_str s.small) (last_str s.small) (chunks_str s.medium) (last_str s.medium)
    (chunks_str s.large) (last_str s.large)

let class_name = function CDead -> "dead" | CSmall -> "small" | CMedium -> "medium" | CLarge -> "large"

let handle (w : string list) =
  match w with
  | ["O"; fi; size; path] ->
      let fi = int_of_string fi in
      Hashtbl.replace slot fi path; Hashtbl.remove pending fi;
      if int_of_string size = 0 || not (Hashtbl.mem states path) then (Hashtbl.replace states path init_st; bump "files_created")
      else bump "reopens";
      say "ok"
  | ["M"; fi; n] ->
      let fi = int_of_string fi and n = int_of_string n in
      (match get fi with
       | None -> say "DIFF malloc on a file the trace never opened"
       | Some s ->
           if not (in_c_range s (zi n)) then say (Printf.sprintf "VIOL range malloc %d eof=%d" n (iz s.eof));
           if not (ok_step s (OMalloc (zi n))) then say (Printf.sprintf "VIOL size malloc %d" n);
           let (s', p) = if search then malloc_search s (zi n) else malloc s (zi n) in
           let gap = if search then None else (match malloc_gap s (zi n) with Some (g, gn) -> Some (iz g, iz gn) | None -> None) in
           (if not search then match iz (malloc_arm s (zi n)) with
              | 0 -> bump "malloc_at_block_start" | 1 -> bump "malloc_block_rule" | _ -> bump "malloc_in_block");
           if search && iz p <= iz s.eof then bump "malloc_reused_free_chunk";
           bump "mallocs";
           Hashtbl.replace pending fi (n, s', iz p, ref gap);
           say "ok")
  | ["F"; fi; b; o; n; fromtags; eb; eo] ->
      let fi = int_of_string fi and a = int_of_string b * 4096 + int_of_string o and n = int_of_string n in
      let ea = int_of_string eb * 4096 + int_of_string eo in
      if int_of_string eo >= 4096 || ea <> a + n - 4 then
        say (Printf.sprintf "VIOL eoc free %d %d end-of-chunk %s %s" a n eb eo);
      (match Hashtbl.find_opt pending fi with
       | Some (_, _, _, ({ contents = Some (g, gn) } as r)) ->
           r := None;
           (match get fi with Some s -> bump ("gap_" ^ class_name (classify (zi g) (zi gn))) | None -> ());
           if (g, gn) = (a, n) then say "ok gap" else say (Printf.sprintf "DIFF block-rule free model=%d:%d impl=%d:%d" g gn a n)
       | Some (_, _, _, { contents = None }) when not search ->
           say (Printf.sprintf "DIFF ADFI_file_malloc freed %d:%d, the model frees nothing there" a n)
       | Some _ -> say "ok inner"            (* search variant: the remainder of a split chunk; the model did it inside malloc_search *)
       | None ->
           (match get fi with
            | None -> say "DIFF free on a file the trace never opened"
            | Some s ->
                if n <= 0 || not (in_c_range s (zi (max n 1))) then say (Printf.sprintf "VIOL range free %d %d" a n);
                if not (ok_step s (OFree (zi a, zi n))) then begin
                  let near = List.filter (fun (p, m) -> iz p < a + n && a < iz p + iz m) s.live in
                  say (Printf.sprintf "VIOL free-not-live %d:%d fromtags=%s overlapping-live=%s" a n fromtags (regs_str near));
                  (try Hashtbl.replace tainted (Hashtbl.find slot fi) () with Not_found -> ())
                end else if not (exact_step s (OFree (zi a, zi n))) then begin
                  (match take_live (zi a) s.live with
                   | Some ((_, m), _) -> say (Printf.sprintf "NOTE short-free %d:%d allocated=%d fromtags=%s" a n (iz m) fromtags);
                                         bump ~by:(iz m - n) "bytes_lost_behind_short_frees"
                   | None -> ());
                  bump "frees_shorter_than_the_allocation"
                end;
                bump "frees"; bump ("free_" ^ class_name (classify (zi a) (zi n)));
                if fromtags = "1" then bump "frees_sized_from_tags";
                put fi (free s (zi a) (zi n));
                say ("ok " ^ class_name (classify (zi a) (zi n)))))
  | ["f"; _; _; _; _; err] -> if err = "-1" then say "ok" else say ("DIFF ADFI_file_free failed err=" ^ err)
  | ["m"; fi; _; b; o; err] ->
      let fi = int_of_string fi and a = int_of_string b * 4096 + int_of_string o in
      (match Hashtbl.find_opt pending fi with
       | None -> say "DIFF malloc exit without entry"
       | Some (n, s', p, gap) ->
           Hashtbl.remove pending fi;
           if err <> "-1" then say ("DIFF ADFI_file_malloc failed err=" ^ err)
           else if !gap <> None then say "DIFF block-rule free expected by the model, not made"
           else if p <> a then say (Printf.sprintf "DIFF malloc(%d) position model=%d impl=%d" n p a)
           else (put fi s'; say "ok"))
  | "L" :: fi :: rest ->
      (match get (int_of_string fi) with
       | None -> say "DIFF lists of a file the trace never opened"
       | Some s ->
           let status = List.nth rest (List.length rest - 1) in
           let impl = String.concat " " (List.filteri (fun i _ -> i < List.length rest - 1) rest) in
           let m = lists_str s in
           if status <> "ok" then say ("DIFF file-structure " ^ status ^ " impl=" ^ impl)
           else if m <> impl then say ("DIFF lists model=" ^ m ^ " impl=" ^ impl)
           else say "ok")
  | ["V"; _; sl; e; sf; sl_; mf; ml; lf; ll] ->
      (match get (int_of_string sl) with
       | None -> say "DIFF view of a file the trace never opened"
       | Some s ->
           let m = Printf.sprintf "%d %s %s %s %s %s %s" (iz s.eof) (first_str s.small) (last_str s.small) (first_str s.medium)
                     (last_str s.medium) (first_str s.large) (last_str s.large) in
           let impl = String.concat " " [e; sf; sl_; mf; ml; lf; ll] in
           bump "library_views";
           if m <> impl then say ("DIFF library-view model=" ^ m ^ " impl=" ^ impl) else say "ok")
  | "V" :: _ -> say "ok noview"
  | ["S"; _; k; _; path] ->
      (match Hashtbl.find_opt states path with
       | None -> say ("SNAP " ^ k ^ " -1 L - F - D - X -")
       | Some s ->
           say (Printf.sprintf "SNAP %s %d L %s F %s D %s X %s" k (iz s.eof) (regs_str s.live) (regs_str (free_regions s)) (regs_str s.dead)
                  (regs_str s.lost)))
  | _ -> say "DIFF unparsed trace line"

let run () =
  (try
     while true do
       let l = input_line stdin in
       if String.length l > 2 && l.[0] = 'A' && l.[1] = ' ' then handle (List.tl (split l))
     done
   with End_of_file -> ());
  (* the accounting identity of the model itself, per file (a theorem; evaluated as a self-check of the extraction) *)
  Hashtbl.iter (fun path s ->
      let tot = iz (total (regions s)) in
      if tot <> iz s.eof + 1 - iz hDR && not (Hashtbl.mem tainted path) then say (Printf.sprintf "VIOL conservation %s total=%d eof=%d" path tot (iz s.eof));
      bump ~by:(iz (total s.live)) "live_bytes"; bump ~by:(iz (total (free_regions s))) "free_list_bytes";
      bump ~by:(iz (total s.dead)) "dead_bytes"; bump ~by:(iz (total s.lost)) "lost_bytes"; bump ~by:(List.length s.small.fl_chunks) "small_entries";
      bump ~by:(List.length s.medium.fl_chunks) "medium_entries"; bump ~by:(List.length s.large.fl_chunks) "large_entries") states;
  say ("SUMMARY " ^ String.concat " " (List.sort compare (Hashtbl.fold (fun k v a -> (k ^ "=" ^ string_of_int v) :: a) cnt [])));
  print_string (Buffer.contents out)
