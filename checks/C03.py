"""C03 -- ADF and HDF5 storage are observationally equivalent.

Proof side : Properties_C03.v -- the ideal node database (TreeDB) lets a back end differ in exactly one respect, the
             position of a renamed node among its siblings; everything else is policy independent.
Tie/oracle : the same low-level programs (checks/nodedb.py histories: create/delete/move/rename/relabel/re-dimension,
             full, strided and block writes, every query, close + reopen) run on an ADF file and on an HDF5 file of the
             library rebuilt from /repo; success/failure position and every answer are compared directly (child lists
             as sets, never-written bytes masked).  An ADF/HDF5 difference is by definition a failing input of the
             property; the extracted TreeDB is the third party that says which side is off.
             Mid-level programs: the MLL differential runs of C01/C04/C10 feed this property too (see DESIGN.md).
"""
import hashlib, json, os
import vlib
from checks import nodedb
from checks.C02 import profile

CHECKER = "make -C coq Properties_C03.vo (coqc 8.16.1 kernel); coqc Properties_C03.v (Print Assumptions)"


# ------------------------------------------------------------------ node names (BackendDiff.v)
PRINT = [c for c in range(33, 127) if c != 47]


def py_common(b):
    """the documented common subset, written independently of the model: 1..32 printable characters, no '/', no blank
    at either end, not '.'"""
    return 1 <= len(b) <= 32 and all(32 <= c <= 126 and c != 47 for c in b) and b[0] != 32 and b[-1] != 32 and b != b"."


def gen_names(rng, n):
    out = [b".", b"..", b" " + b"a" * 32, b"\tab", b"a\x01b", b"a" * 32, b"a" * 33, b" a", b"a ", b"  a b  ", b"a/b", b"/",
           b" ", b"\t", b" \t ", b"", b"a\t", b"a\n", b"\na", b"\xe9t\xe9", b"x" * 31 + b" ", b" " + b"x" * 31, b"a\x7f", b".a", b"a."]
    for _ in range(n):
        k = rng.random()
        L = rng.choice([1, 2, 5, 12, 31, 32, rng.randint(1, 32)])
        core = bytes(rng.choice(PRINT + [32, 32]) for _ in range(L))
        if k < 0.55:
            b = core.strip(b" ") or b"n"
        elif k < 0.7:
            b = b" " * rng.randint(0, 2) + core + b" " * rng.randint(0, 3)
        elif k < 0.8:
            b = bytes(rng.choice([9, 10, 13, 32]) for _ in range(rng.randint(1, 2))) + core
        elif k < 0.9:
            i = rng.randrange(len(core) + 1)
            b = core[:i] + bytes([rng.choice([47, 1, 7, 27, 127, 128, 200, 255, 9])]) + core[i:]
        else:
            b = core + bytes(rng.choice(PRINT) for _ in range(rng.randint(1, 8)))       # may exceed 32
        out.append(b)
    return out


def names_level(ck, dist):
    """model (extracted adf_name / adfh_name) vs library on both back ends; property oracle: inside the common subset
    both back ends accept and store exactly the name; returns the list of broken correspondences"""
    exe = vlib.build_harness("c03_names", ["c03_names.c"])
    vlib.build_modelrun("c03")
    names = gen_names(ck.rng, 260 if ck.tier == "thorough" else 90)
    script = []
    for b in names:
        h = b.hex() if b else "-"
        script += ["create " + h, "rename " + h]
    text = "\n".join(script) + "\n"
    got, model = {}, {}
    for be in ("adf", "hdf5"):
        lines, outcome = vlib.run_impl(exe, text, args=[os.path.join(ck.work, "names_%s.cgns" % be), be], timeout=600)
        got[be] = (lines, outcome)
        model[be] = vlib.run_model("c03", text, args=[be])
    corr = []
    dist["names"] = {"total": len(names), "common": 0, "outside_common": 0, "backends_differ_outside_common": 0}
    for i, op in enumerate(script):
        b = bytes.fromhex(op.split()[1]) if op.split()[1] != "-" else b""
        common = py_common(b)
        a = got["adf"][0][i] if i < len(got["adf"][0]) else "(no output: %s)" % got["adf"][1]
        h = got["hdf5"][0][i] if i < len(got["hdf5"][0]) else "(no output: %s)" % got["hdf5"][1]
        if i % 2 == 0:
            dist["names"]["common" if common else "outside_common"] += 1
            ck.case(hashlib.sha1(op.encode()).hexdigest() if not common or len(b) in (1, 31, 32) else None,
                    sample={"level": "names", "op": op, "adf": a, "hdf5": h})
        ck.cov["traces_validated_against_impl"] += 2
        if common:
            want = "ok " + b.hex()
            if a != want or h != want:
                ck.violation({"level": "names", "op": op, "name": repr(b), "adf": a, "hdf5": h, "expected_on_both": want,
                              "oracle": "a name of the documented common subset is accepted and stored unchanged by both back ends",
                              "replay_hint": "echo '%s' | .build/h/c03_names /tmp/x.cgns adf|hdf5" % op})
                return corr
        elif a != h:
            dist["names"]["backends_differ_outside_common"] += 1
            ma = model["adf"][i] if i < len(model["adf"]) else None
            mh = model["hdf5"][i] if i < len(model["hdf5"]) else None
            if ma is not None and ma == mh and ma.startswith("ok ") and a.startswith("ok ") and h.startswith("ok "):
                # both back ends accept the name, the proved model (C03_names_same_when_both_accept) says they store the same
                # name, and they do not: a concrete failing input, whatever else of the tie is broken
                ck.violation({"level": "names", "op": op, "name": repr(b), "adf": a, "hdf5": h, "model_both": ma,
                              "oracle": "ADF vs HDF5 on the same call: both accept the name and store different names, where "
                                        "C03_names_same_when_both_accept says they store the same",
                              "replay_hint": "echo '%s' | .build/h/c03_names /tmp/x.cgns adf|hdf5" % op})
                return corr
        for be, line in (("adf", a), ("hdf5", h)):
            m = model[be][i] if i < len(model[be]) else "(none)"
            if m != line and len(corr) < 5:
                corr.append({"level": "names", "backend": be, "op": op, "model": m, "impl": line})
    for be in ("adf", "hdf5"):
        if got[be][1] != "ok":
            ck.violation({"level": "names", "backend": be, "outcome": got[be][1],
                          "oracle": "no sanitizer report / crash while validating a node name"})
    return corr


# ------------------------------------------------------------------ mid-level programs (type-converting transfers)
def mll_level(ck, dist, rounds):
    """The same mid-level program (the array life cycles of checks/C06.py: every accepted (entry point, file type, memory
    type), new / existing x full / partial file range x full / partial memory range, reopen) run on an ADF file and on an
    HDF5 file; every answer is compared between the two back ends.  The only latitude is where the plain-C oracle of
    harness/c06_api_h.c itself answers differently per back end (ADF's documented refusal of a converting transfer with
    a partial memory range): those lines are not compared.  ADF converts through a temporary buffer and
    cgi_convert_data, HDF5 converts in place: a difference is a failing input of the property."""
    from checks import C06
    api_h = vlib.build_harness("c06_api_h", ["c06_api_h.c"])
    conv_h = vlib.build_harness("c06_conv_h", ["c06_conv_h.c"])
    pool = C06.Pool(ck.rng, conv_h, 200)
    md = dist.setdefault("mll", {"scripts": 0, "ops": 0, "compared": 0, "latitude": 0})
    for rnd in range(rounds):
        combos = [(e, s_, m) for e in ("coord", "field", "array") for s_ in C06.ENTRY_W[e][0] for m in C06.ENTRY_W[e][1]]
        ck.rng.shuffle(combos)
        for c0 in range(0, len(combos), 12):
            part = combos[c0:c0 + 12]
            N = ck.rng.randint(3, 9)
            ops, types = C06.gen_api_script(ck.rng, pool, "adf", N, part, "m%d%s" % (rnd, "abcdefghijklmnop"[c0 // 12 % 16]))

            def both(script):
                out = {}
                for be in ("adf", "hdf5"):
                    path = os.path.join(ck.work, "mll_%s.cgns" % be)
                    il, outcome, ol, _ = C06.run_api(api_h, script, be, N, path, want_model=False)
                    out[be] = (il, outcome, ol)
                return out

            def difference(script, tys):
                r = both(script)
                (ia, oa, ola), (ih, oh, olh) = r["adf"], r["hdf5"]
                if oa != "ok" or oh != "ok":
                    return {"outcome_adf": oa, "outcome_hdf5": oh}
                for i, o in enumerate(script):
                    la = ia[i] if i < len(ia) else None
                    lh = ih[i] if i < len(ih) else None
                    if i < len(ola) and i < len(olh) and ola[i] != olh[i]:
                        continue                                   # documented latitude
                    ty = tys[i] if tys and i < len(tys) else None
                    if o.split()[1:2] == ["arrayread"] and (la is None or lh is None):
                        ty = None
                    if not C06.same_line(ty, la, lh):
                        return {"op_index": i, "op": o[:300], "adf": (la or "<no output>")[:300], "hdf5": (lh or "<no output>")[:300]}
                return None

            r = both(ops)
            md["scripts"] += 1; md["ops"] += len(ops)
            md["latitude"] += sum(1 for a, b in zip(r["adf"][2], r["hdf5"][2]) if a != b)
            md["compared"] += sum(1 for a, b in zip(r["adf"][2], r["hdf5"][2]) if a == b)
            ck.cov["traces_validated_against_impl"] += 2
            ck.case(hashlib.sha1(("mll" + "\n".join(ops)).encode()).hexdigest(),
                    sample={"level": "mll", "N": N, "script": [o[:100] for o in ops[:5]] + ["..."]})
            d = difference(ops, types)
            if d:
                small = vlib.ddmin(ops, lambda sub: difference(sub, C06.api_types(sub)) is not None, max_tests=120)
                d2 = difference(small, C06.api_types(small)) or d
                ck.violation({"level": "mll", "N": N, "script": small, "difference": d2,
                              "oracle": "ADF vs HDF5 on the same mid-level program (harness/c06_api_h.c)",
                              "replay_hint": "printf '%s\\n' <script lines> | .build/h/c06_api_h impl /tmp/x.cgns adf|hdf5 " + str(N)})
                return


def run(ck):
    thorough = ck.tier == "thorough"
    vlib.build_impl()
    exe = vlib.build_harness("cgio_h", ["cgio_h.c"])
    vlib.build_modelrun("c02")
    res = vlib.coq_check_properties("C03")
    broken = ck.proof_result(res, CHECKER)
    forb = vlib.coq_forbidden_scan("C03")
    ck.extra["forbidden_tokens"] = forb
    if forb:
        ck.violation({"broken_obligation": "forbidden tokens", "hits": forb}, nofail=True)
    ck.cov["trusted_base"] = ["Coq 8.16.1 kernel", "extraction + OCaml runner of TreeDB (used as mask for unspecified bytes and as third party)",
                              "harness/cgio_h.c, checks/nodedb.py (generator, canonicaliser)", "libhdf5 as installed"]
    ck.assumptions = ["common subset: names of 1..32 printable characters without '/', no leading blank; at least one name requested from cgio_children_names",
                      "sibling ORDER is not compared (HDF5 re-links a renamed node to the end, ADF renames in place)"]
    ck.cov["rule"] = ("every history of checks/nodedb.py is run on ADF and on HDF5; non-trivial = contains rename or move, a strided write and a "
                      "reopen; distinct by SHA1 of the script")
    n = 260 if thorough else 70
    fails, dist = [], {"histories": 0, "ops": {}, "corpus": 0}
    # regression histories of repaired defects run first: a difference here is a violation at once
    cdir = os.path.join(vlib.ROOT, "corpus", "C03")
    for fname in sorted(os.listdir(cdir)) if os.path.isdir(cdir) else []:
        if not fname.endswith(".hist"):
            continue
        h = [l for l in open(os.path.join(cdir, fname)).read().split("\n") if l.strip() and not l.startswith("#")]
        r = nodedb.run_three(h, ck.work, "corpus", exe)
        dist["corpus"] += 1
        ck.case(hashlib.sha1(("corpus" + fname).encode()).hexdigest(), sample={"corpus": fname, "ops": h[:6]})
        ck.cov["traces_validated_against_impl"] += 2
        f = nodedb.equivalence_failure(r) or nodedb.refinement_failure(r["adf"]) or nodedb.refinement_failure(r["hdf5"])
        if f:
            ck.violation({"corpus": fname, "script": h, "difference": f,
                          "oracle": "ADF vs HDF5 on the same program, and each against the ideal tree"})
    for i in range(n):
        files, nops, big, wide = profile(i + 3)
        h = nodedb.gen_history(ck.rng, nops, files=files, big=big, wide=wide)
        r = nodedb.run_three(h, ck.work, "e%d" % i, exe)
        dist["histories"] += 1
        for l in h:
            o = l.split(" ")[0]; dist["ops"][o] = dist["ops"].get(o, 0) + 1
        nontriv = any(l.startswith(("rename", "move")) for l in h) and any(l.startswith("wsel") for l in h) and \
            any(l.startswith("reopen") for l in h)
        ck.case(hashlib.sha1("\n".join(h).encode()).hexdigest() if nontriv else None,
                sample={"ops": [nodedb.short(x, 90) for x in h[:8]] + ["..."]})
        ck.cov["traces_validated_against_impl"] += 2
        if nodedb.is_libhdf5_name_replace(r["hdf5"]):
            ck.finding(nodedb.LIBHDF5_KEY, {"outcome": r["hdf5"]["outcome"], "stack": r["hdf5"]["stack"]})
            continue
        f = nodedb.equivalence_failure(r)
        if f:
            fails.append((h, f))
            if len(fails) >= 2:
                break
    for h, f in fails[:2]:
        def still(lines):
            rr = nodedb.run_three(lines, ck.work, "shrink", exe)
            return (not nodedb.is_libhdf5_name_replace(rr["hdf5"])) and nodedb.equivalence_failure(rr) is not None
        small = vlib.ddmin(h, still, max_tests=150)
        rr = nodedb.run_three(small, ck.work, "final", exe)
        third = {be: nodedb.refinement_failure(rr[be]) for be in ("adf", "hdf5")}
        ck.violation({"script": [nodedb.short(x, 400) for x in small],
                      "script_full": small if sum(map(len, small)) < 200000 else None,
                      "difference": nodedb.equivalence_failure(rr) or f,
                      "third_party_TreeDB_says": {k: ("agrees" if v is None else v) for k, v in third.items()},
                      "oracle": "ADF vs HDF5 on the same program"})
    if not ck.violations:
        mll_level(ck, dist, 4 if thorough else 1)
    corr = names_level(ck, dist) if not ck.violations else []
    if corr and not ck.violations:
        # the transcription of a validator no longer matches the code, and no name of the common subset misbehaves:
        # look for a name on which the two back ends now disagree although both accept it (C03_names_same_when_both_accept)
        ck.violation({"broken_correspondence": "BackendDiff.adf_name / adfh_name vs cgio_create_node / cgio_set_name",
                      "first_differences": corr,
                      "theorems_no_longer_tied": ["C03_names_agree", "C03_names_same_when_both_accept",
                                                  "C03_adf_names_accepted_by_hdf5_except_dot"]}, nofail=True)
    if broken and not ck.violations:
        ck.violation({"broken_obligations": broken}, nofail=True)
    ck.extra["input_distribution"] = dist


def replay_mll(ck, r):
    from checks import C06
    api_h = vlib.build_harness("c06_api_h", ["c06_api_h.c"])
    outs = {}
    for be in ("adf", "hdf5"):
        il, outcome, ol, _ = C06.run_api(api_h, r["script"], be, r["N"], os.path.join(ck.work, "replay_%s.cgns" % be), want_model=False)
        outs[be] = (il, outcome, ol)
    tys = C06.api_types(r["script"])
    for i, o in enumerate(r["script"]):
        la = outs["adf"][0][i] if i < len(outs["adf"][0]) else None
        lh = outs["hdf5"][0][i] if i < len(outs["hdf5"][0]) else None
        if outs["adf"][2][i] != outs["hdf5"][2][i]:
            continue
        if not C06.same_line(tys[i], la, lh):
            print("replay: ADF and HDF5 differ at op %d %s: adf %s hdf5 %s" % (i, o[:120], (la or "")[:200], (lh or "")[:200]))
            return 1
    print("replay: holds"); return 0


def replay(ck, path):
    r = json.load(open(path))
    if r.get("level") == "mll":
        vlib.build_impl()
        return replay_mll(ck, r)
    vlib.build_impl(); exe = vlib.build_harness("cgio_h", ["cgio_h.c"]); vlib.build_modelrun("c02")
    script = r.get("script_full") or r.get("script")
    if not script:
        print("replay names a broken obligation, no input to run"); return 1
    f = nodedb.equivalence_failure(nodedb.run_three(script, ck.work, "replay", exe))
    print("replay: %s" % (json.dumps(f) if f else "holds"))
    return 1 if f else 0
