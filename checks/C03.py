"""C03 -- ADF and HDF5 storage are observationally equivalent.

Proof side : Properties_C03.v -- the ideal node database (TreeDB) lets a back end differ in exactly one respect, the
             position of a renamed node among its siblings; everything else is policy independent.
Tie/oracle : the same low-level programs (checks/nodedb.py histories: create/delete/move/rename/relabel/re-dimension,
             full, strided and block writes, every query, close + reopen) run on an ADF file and on an HDF5 file of the
             library rebuilt from /repo; success/failure position and every answer are compared directly (child lists
             as sets, never-written bytes masked).  An ADF/HDF5 difference is by definition a failing input of the
             property; the extracted TreeDB is the third party that says which side is off.
             Mid-level programs: the MLL differential runs of C01/C04/C10 feed this property too (see DESIGN.md).
"""
import hashlib, json, os
import vlib
from checks import nodedb
from checks.C02 import profile

CHECKER = "make -C coq Properties_C03.vo (coqc 8.16.1 kernel); coqc Properties_C03.v (Print Assumptions)"


def run(ck):
    thorough = ck.tier == "thorough"
    vlib.build_impl()
    exe = vlib.build_harness("cgio_h", ["cgio_h.c"])
    vlib.build_modelrun("c02")
    res = vlib.coq_check_properties("C03")
    broken = ck.proof_result(res, CHECKER)
    forb = vlib.coq_forbidden_scan("C03")
    ck.extra["forbidden_tokens"] = forb
    if forb:
        ck.violation({"broken_obligation": "forbidden tokens", "hits": forb}, nofail=True)
    ck.cov["trusted_base"] = ["Coq 8.16.1 kernel", "extraction + OCaml runner of TreeDB (used as mask for unspecified bytes and as third party)",
                              "harness/cgio_h.c, checks/nodedb.py (generator, canonicaliser)", "libhdf5 as installed"]
    ck.assumptions = ["common subset: names of 1..32 printable characters without '/', no leading blank; at least one name requested from cgio_children_names",
                      "sibling ORDER is not compared (HDF5 re-links a renamed node to the end, ADF renames in place)"]
    ck.cov["rule"] = ("every history of checks/nodedb.py is run on ADF and on HDF5; non-trivial = contains rename or move, a strided write and a "
                      "reopen; distinct by SHA1 of the script")
    n = 260 if thorough else 70
    fails, dist = [], {"histories": 0, "ops": {}}
    for i in range(n):
        files, nops, big, wide = profile(i + 3)
        h = nodedb.gen_history(ck.rng, nops, files=files, big=big, wide=wide)
        r = nodedb.run_three(h, ck.work, "e%d" % i, exe)
        dist["histories"] += 1
        for l in h:
            o = l.split(" ")[0]; dist["ops"][o] = dist["ops"].get(o, 0) + 1
        nontriv = any(l.startswith(("rename", "move")) for l in h) and any(l.startswith("wsel") for l in h) and \
            any(l.startswith("reopen") for l in h)
        ck.case(hashlib.sha1("\n".join(h).encode()).hexdigest() if nontriv else None,
                sample={"ops": [nodedb.short(x, 90) for x in h[:8]] + ["..."]})
        ck.cov["traces_validated_against_impl"] += 2
        if nodedb.is_libhdf5_name_replace(r["hdf5"]):
            ck.finding(nodedb.LIBHDF5_KEY, {"outcome": r["hdf5"]["outcome"], "stack": r["hdf5"]["stack"]})
            continue
        f = nodedb.equivalence_failure(r)
        if f:
            fails.append((h, f))
            if len(fails) >= 2:
                break
    for h, f in fails[:2]:
        def still(lines):
            rr = nodedb.run_three(lines, ck.work, "shrink", exe)
            return (not nodedb.is_libhdf5_name_replace(rr["hdf5"])) and nodedb.equivalence_failure(rr) is not None
        small = vlib.ddmin(h, still, max_tests=150)
        rr = nodedb.run_three(small, ck.work, "final", exe)
        third = {be: nodedb.refinement_failure(rr[be]) for be in ("adf", "hdf5")}
        ck.violation({"script": [nodedb.short(x, 400) for x in small],
                      "script_full": small if sum(map(len, small)) < 200000 else None,
                      "difference": nodedb.equivalence_failure(rr) or f,
                      "third_party_TreeDB_says": {k: ("agrees" if v is None else v) for k, v in third.items()},
                      "oracle": "ADF vs HDF5 on the same program"})
    if broken and not ck.violations:
        ck.violation({"broken_obligations": broken}, nofail=True)
    ck.extra["input_distribution"] = dist


def replay(ck, path):
    r = json.load(open(path))
    vlib.build_impl(); exe = vlib.build_harness("cgio_h", ["cgio_h.c"]); vlib.build_modelrun("c02")
    script = r.get("script_full") or r.get("script")
    if not script:
        print("replay names a broken obligation, no input to run"); return 1
    f = nodedb.equivalence_failure(nodedb.run_three(script, ck.work, "replay", exe))
    print("replay: %s" % (json.dumps(f) if f else "holds"))
    return 1 if f else 0
