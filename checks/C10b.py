"""C10b -- second half of the C10 proof obligations: VARIABLE-SIZE element sections (MIXED / NGON_n / NFACE_n).

coq/ElemSplicePolyProofs.v proves, about the UNCHANGED model coq/ElemSplice.v (the one the extracted engine
`c10` runs and checks/C10.py corresponds with the library on every run): poly_splice = splice for every relative
position and every element sizes, the three paths of cg_poly_elements_general_write (in place / relocate inside the
reserved size / in memory), histories, partial / general / full reads with rebased offsets, the reserved-slack
finding as a boolean hypothesis + refutation.  coq/Properties_C10b.v exports the theorems.

This file adds no correspondence of its own (the model is C10's): run_extra(ck) re-checks Properties_C10b.v with the
kernel inside the C10 run and folds the result into C10's evidence; it returns the broken obligations so that
checks/C10.py treats them exactly like its own (widened search for a failing input, DESIGN.md 1.3).
run(ck) lets `./check C10b` re-check the proofs alone."""
import vlib

CHECKER = "make -C coq ElemSplicePolyProofs.vo Properties_C10.vo (coqc 8.16.1 kernel) ; coqc Properties_C10b.v (Print Assumptions)"


def run_extra(ck):
    """to be called from checks/C10.py right after its own ck.proof_result(...); returns the list of broken obligations"""
    prev = {k: ck.extra.get(k) for k in ("print_assumptions", "theorems", "coq_wall_s")}
    prev_cmd = ck.cov.get("checker_cmd", "")
    res = vlib.coq_check_properties("C10b")
    broken = ck.proof_result(res, (prev_cmd + " ; " if prev_cmd and ck.pid != "C10b" else "") + CHECKER)
    if prev["theorems"] and ck.pid != "C10b":          # called from C10: keep both halves in the evidence
        pa, pb = prev["print_assumptions"] or {}, res["assumptions"]
        ck.extra["print_assumptions"] = {"closed": pa.get("closed", 0) + pb["closed"],
                                         "with_axioms": pa.get("with_axioms", 0) + pb["with_axioms"],
                                         "axioms": sorted(set(pa.get("axioms", [])) | set(pb["axioms"]))}
        ck.extra["theorems"] = list(prev["theorems"]) + list(res["theorems"])
        ck.extra["coq_wall_s"] = round((prev["coq_wall_s"] or 0) + res.get("wall_s", 0), 1)
    forb = vlib.coq_forbidden_scan("C10b")
    if forb:
        ck.violation({"broken_obligation": "forbidden tokens in the Coq development (C10b)", "hits": forb}, nofail=True)
    ck.extra["C10b"] = {
        "theorems": res["theorems"], "ok": res["ok"], "wall_s": round(res.get("wall_s", 0), 1),
        "what": "variable-size sections: poly_splice = splice for all positions / sizes (memcpy and entry-point level, three "
                "paths), histories, partial / general / full reads with rebased offsets; full read: boolean hypothesis "
                "full_read_pre + refutation on every state outside it (poly-read-fails-reserved-slack-cached)",
        "tie": "same model coq/ElemSplice.v as C10 (definitions unchanged); its correspondence with the library is C10's run"}
    return broken


def run(ck):
    broken = run_extra(ck)
    ck.cov["rule"] = "proof re-check only (Properties_C10b.v); the correspondence of the model is checks/C10.py"
    ck.cov["trusted_base"] = ["Coq 8.16.1 kernel + vm_compute", "the correspondence run of checks/C10.py for coq/ElemSplice.v"]
    ck.case(None, sample="Properties_C10b.v re-checked: %d theorems" % len(ck.extra.get("theorems", [])))
    if broken:
        ck.violation({"broken_obligations": broken, "note": "Properties_C10b.v no longer checks; run ./check C10 for a failing input"},
                     nofail=True)


def replay(ck, path):
    print("C10b has no inputs of its own; replay through ./check C10 --replay")
    return 0
