"""C14b -- the translator half of property C14 ("an I/O failure is always reported; success means the data is in the
file"): error propagation through src/adf/ADF_internals.c, src/adf/ADF_interface.c and src/cgns_io.c.

Tie T      : translators/c14_errprop.py re-extracts on every run, from the clang AST of the three files, one row per
             call site of a fallible callee (how the status is delivered, what happens to it next) -> coq/Gen_C14.v.
Proof side : coq/Properties_C14b.v -- generic C14_error_propagates (ErrProp.v machine, any table / call tree / oracle);
             kernel-evaluated obligation C14_all_statuses_checked on the regenerated table (vm_compute): every status of
             a call that can reach a primitive write / seek / close is tested-and-returned or flows to the caller,
             except the (caller, callee) pairs of ErrProp.known_unchecked.
Tie C      : harness/c14b_where.c (LD_PRELOAD, after harness/interpose.c) records the call stack of every system call of
             the scenario sessions; each stack is matched edge by edge against the rows of the table (a call edge of the
             three files without a row = the translator missed a call site), and for every injected fault the EXTRACTED
             machine (engine c14b) is run along that stack: model "error returned" => the API call must return non-zero.
Oracle     : independent of the model (as C14): every API status recorded; all statuses 0 => the files reopened in a
             clean process must equal the fault-free session's content; no crash / sanitizer report.
             Every excepted pair and every row that breaks the obligation is REPLAYED: EIO (ENOSPC for writes) injected at
             the write / lseek / close / fsync calls made under that call site.  Oracle fails -> finding
             `unchecked-status:<caller>:<callee>`.
Entry points: run_extra(ck) (called from checks/C14.py), run(ck) / replay(ck, path) standalone (./check C14b), pregen().
"""
import concurrent.futures, hashlib, json, os, shutil, subprocess, sys
import vlib
from checks import C15 as ip

sys.path.insert(0, os.path.join(vlib.ROOT, "translators"))
import c14_errprop as tr                                                   # noqa: E402

WORKERS = 4
CHECKER = ("translators/c14_errprop.py -> coq/Gen_C14.v ; make -C coq Properties_C14b.vo deps (coqc 8.16.1) ; "
           "coqc Properties_C14b.v (Print Assumptions)")
HARD = {"write": ["eio", "enospc"], "pwrite": ["eio", "enospc"], "lseek": ["eio"], "close": ["eio"], "fsync": ["eio"],
        "fdatasync": ["eio"], "ftruncate": ["eio", "enospc"]}
LINE_TOL = 8


def pregen():
    os.makedirs(vlib.IMPL, exist_ok=True)
    return tr.write_gen(repo=vlib.REPO, impl=vlib.IMPL)


# ----------------------------------------------------------------------------- build
def build_where():
    out = os.path.join(vlib.HDIR, "c14b_where.so")
    os.makedirs(vlib.HDIR, exist_ok=True)
    src = os.path.join(vlib.ROOT, "harness", "c14b_where.c")
    with vlib.Lock("h_c14b_where" + vlib._TAG):
        if not os.path.exists(out) or os.path.getmtime(out) < os.path.getmtime(src):
            rc, o = vlib.sh(["cc", "-O2", "-fPIC", "-shared", "-w", "-o", out + ".tmp", src, "-ldl"])
            if rc != 0:
                raise vlib.Infra("c14b_where does not compile:\n" + o[-3000:])
            os.replace(out + ".tmp", out)
    return out


# ----------------------------------------------------------------------------- scenarios
def scenarios(rng, tier):
    """-> list of dict(name, backend, prep=[(file, script)], script, files=[files to dump])"""
    r = lambda: rng.randint(1, 999)
    out = []
    w_adf = ["open w adf", "new / N0 Lab0_t I4 200 %d" % r(), "new /N0 N1 Lab1_t I4 200 %d" % r(), "new / N2 Lab2_t C1 7 %d" % r(),
             "new / N3 Lab3_t R8 2500 %d" % r(), "new /N0 N5 Lab5_t I4 7 %d" % r(), "wr /N0 I4 900 %d" % r(),
             "wrpart /N0 10 300 %d" % r(), "wrblock /N0 5 40 %d" % r(), "setlabel /N0/N5 Relabel_t", "rd /N3", "ls /", "close"]
    # a new file closed at once: the only session whose close still has a block to flush (every mutator ends with the
    # modification-date write, which flushes)
    out.append(dict(name="adf-create-close", backend="adf", prep=[], script=["open w adf", "close"]))
    out.append(dict(name="adf-write", backend="adf", prep=[], script=w_adf))
    out.append(dict(name="adf-modify", backend="adf", prep=[("f.cgns", w_adf)],
                    script=["open m adf", "new / M0 Mod_t R8 700 %d" % r(), "wr /N0 R8 1200 %d" % r(), "del /N2", "rename /N0/N5 N5b", "move /N0/N5b /N3",
                            "rename /N3 N3b", "new / M1 Mod_t C1 40 %d" % r(), "rdpart /N0/N1 3 90", "version", "flush",
                            "setlabel /M0 Final_t", "move /N0/N1 /", "close"]))
    b_adf = ["open w adf", "new / T Tgt_t I4 50 %d" % r(), "new /T U Tgt_t I4 5 %d" % r(), "close"]
    out.append(dict(name="adf-links", backend="adf", prep=[("b.cgns", b_adf)], files=["f.cgns", "b.cgns"],
                    script=["open w adf", "new / A Lab_t I4 30 %d" % r(), "link / L b.cgns /T", "link / L2 - /A", "lnk /L", "rd /L",
                            "new / Z Lab_t C1 9 %d" % r(), "del /L2", "del /L", "link / L3 b.cgns /T/U", "close"]))
    f_link = ["open w adf", "new / A Lab_t I4 30 %d" % r(), "link / L b.cgns /T", "close"]
    out.append(dict(name="adf-link-writethrough", backend="adf", prep=[("b.cgns", b_adf), ("f.cgns", f_link)], files=["f.cgns", "b.cgns"],
                    script=["open m adf", "wr /L I4 50 %d" % r(), "new /L V Lab_t I4 12 %d" % r(), "setlabel /A Other_t", "close"]))
    out.append(dict(name="adf-compress", backend="adf", prep=[("f.cgns", w_adf)],
                    script=["open m adf", "new / Big0 Big_t R8 2000 %d" % r(), "new / Big1 Big_t R8 2000 %d" % r(), "del /Big0", "compress"]))
    out.append(dict(name="adf-copy", backend="adf", prep=[("f.cgns", w_adf)], files=["f.cgns", "g.cgns"],
                    script=["open r adf", "open2 g.cgns adf", "copy2 /N0 C0", "copyfile2", "close2", "close"]))
    w_h5 = ["open w hdf5", "new / N0 Lab0_t I4 200 %d" % r(), "new /N0 N1 Lab1_t I4 200 %d" % r(), "new / N3 Lab3_t R8 600 %d" % r(),
            "wr /N0 I4 900 %d" % r(), "setlabel /N0/N1 Relabel_t", "link / L2 - /N3", "move /N0/N1 /", "rename /N3 N3b", "del /L2", "flush", "close"]
    out.append(dict(name="hdf5-write", backend="hdf5", prep=[], script=w_h5))
    zn = rng.choice([3, 5])
    out.append(dict(name="mll-write-adf", backend="adf", prep=[],
                    script=["cgopen w adf", "base Base", "zone Zone1 %d" % zn, "coord CoordinateX %d" % r(), "sol Sol1", "field Density %d" % r(),
                            "desc Info hello", "cgclose"]))
    # the ADFH data writers (libhdf5 flushes its raw-data buffer in H5Dclose: witness of /repo e25ed5a)
    out.append(dict(name="mll-write-hdf5", backend="hdf5", prep=[], all_hard=True,
                    script=["cgopen w hdf5", "base Base", "zone Zone1 6", "coord CoordinateX %d" % r(), "sol Sol1", "field Density %d" % r(), "cgclose"]))
    # layout-tuned scenarios: the unchecked call site does real I/O only for particular file layouts (a data chunk larger than
    # a block whose 4-byte start tag ends a block; a link whose data chunk lies in the block after its node header).  The
    # size n of a filler node is searched (known value first) until a system call is made under the target call site.
    sd = [r() for _ in range(4)]
    out.append(dict(name="adf-chunk-at-block-end", backend="adf", prep=[], script=None,
                    tune=dict(target=("ADFI_write_data_chunk", "ADFI_write_disk_pointer_2_disk"), first=2688, step=4, span=4100,
                              build=lambda n: dict(prep=[], script=["open w adf", "new / P Lab_t C1 %d %d" % (n, sd[0]),
                                                                    "new / Q Lab_t C1 5000 %d" % sd[1], "close"]))))
    out.append(dict(name="adf-delete-link-data-in-next-block", backend="adf", prep=[], script=None,
                    tune=dict(target=("ADF_Delete", "ADFI_delete_data"), first=2701, step=120, span=4300,
                              build=lambda n: dict(prep=[("f.cgns", ["open w adf", "new / A Lab_t C1 %d %d" % (n, sd[2]), "link / L - /A",
                                                                      "new / B Lab_t R8 3000 %d" % sd[3], "close"])],
                                                   script=["open m adf", "new / X Lab_t C1 5000 3", "del /L", "close"]))))
    out += extended(rng, tier)
    out.append(dict(name="hdf5-compress", backend="hdf5", prep=[("f.cgns", w_h5[:5] + ["close"])], all_hard=True, both_kinds=True,
                    script=["open m hdf5", "new / Big0 Big_t R8 2000 %d" % r(), "del /Big0", "compress"]))
    for s in out:
        s.setdefault("files", ["f.cgns"])
    return corpus() + out


FORMATS = ["IEEE_BIG_64", "IEEE_BIG_32", "IEEE_LITTLE_32", "CRAY", "IEEE_LITTLE_64", "NATIVE"]


def extended(rng, tier):
    """scenario FAMILIES that reach the rarely used code: files in every number format ADF can create (as they come from
    another machine: every array is translated piecewise while it is written / read), with arrays above one disk block and
    above the 100000-byte conversion buffer; partial writes of NGON_n / MIXED / fixed-size sections in MODIFY mode (the
    connectivity is not in memory) whose new length fits / does not fit / extends the section; the other mid-level paths that
    make two consecutive I/O calls (bounding box, partial coordinate / field writes, parent data, cg_save_as, cg_close with
    compaction).  One short session per operation, so that each one starts from the state a fresh cg_open leaves.
    They get a fault at every call under a target row and a small sample elsewhere (ext)."""
    r = lambda: rng.randint(1, 999)
    out = []
    fmts = FORMATS if tier == "thorough" else FORMATS[:4]
    for f in fmts:
        out.append(dict(name="fmt-%s-mll" % f, backend="adf", prep=[("f.cgns", ["adfnew " + f])],
                        script=["cgopen m adf", "base Base", "zone Zone1 9", "coord CoordinateX %d" % r(), "sol Sol1", "field Density %d" % r(),
                                "coordpart CoordinateX 3 6 %d" % r(), "getcoord CoordinateX", "cgclose"]))
        out.append(dict(name="fmt-%s-cgio" % f, backend="adf", prep=[("f.cgns", ["adfnew " + f])],
                        script=["open m adf", "new / N0 L_t I4 2000 %d" % r(), "new / N1 L_t R8 14000 %d" % r(), "wr /N0 I4 3000 %d" % r(),
                                "wrpart /N0 10 2000 %d" % r(), "wrblock /N0 100 1500 %d" % r(), "rd /N1", "rdpart /N0 5 1500", "close"]))
    pre = ["cgopen w adf", "base Base", "uzone Zone 5000 3000", "ngon Faces 3000 4 %d" % r(), "mixed Mix 500 %d" % r(), "elems Tets 400 %d" % r(), "cgclose"]
    ops = [("ngon-shrink-fits", ["polypart 1 101 600 3 %d" % r()]),           # quads -> triangles on an inner range: the tail is moved
           ("ngon-grow-nofit", ["polypart 1 700 800 5 %d" % r()]),            # does not fit: the array is re-dimensioned
           ("ngon-same", ["polypart 1 900 1200 4 %d" % r()]),
           ("ngon-tail", ["polypart 1 2900 3000 3 %d" % r()]),                # up to the end of the section: no tail
           ("mixed-shrink", ["mixpart 2 3100 3200 3 %d" % r()]),
           ("mixed-grow", ["mixpart 2 3300 3350 4 %d" % r()]),
           ("tets-inner", ["elempart 3 3510 3600 %d" % r()]),
           ("tets-extend", ["elempart 3 3890 3950 %d" % r()]),               # beyond the end of the section: it grows
           ("parent-data", ["parentpart 3 3501 3900 %d" % r(), "parentpart 3 3600 3700 %d" % r()]),
           ("section-init", ["cgsel 1 1 3901", "secpart New 100", "elempart 4 3901 4000 %d" % r(), "ngon-placeholder"])]
    for name, body in ops:
        body = [b for b in body if b != "ngon-placeholder"]
        out.append(dict(name="poly-" + name, backend="adf", prep=[("f.cgns", pre)], script=["cgopen m adf"] + body + ["cgclose"]))
    out.append(dict(name="poly-combined", backend="adf", prep=[("f.cgns", pre)],
                    script=["cgopen m adf", "polypart 1 101 600 3 %d" % r(), "polypart 1 700 800 5 %d" % r(), "mixpart 2 3100 3200 3 %d" % r(),
                            "elempart 3 3890 3950 %d" % r(), "getelems 1", "cgclose"]))
    pre5 = [x.replace("cgopen w adf", "cgopen w hdf5") for x in pre]
    out.append(dict(name="poly-ngon-shrink-fits-hdf5", backend="hdf5", prep=[("f.cgns", pre5)], all_hard=True,
                    script=["cgopen m hdf5", "polypart 1 101 600 3 %d" % r(), "cgclose"]))
    # sections stored as 32-bit integers, written from 64-bit memory: the converting arms of WRITE_PART_1D_DATA & co.
    for be in ("adf", "hdf5"):
        pre4 = ["cgopen w " + be, "base Base", "uzone Zone 5000 1200", "ngon4 Faces 1200 4 %d" % r(), "cgclose"]
        out.append(dict(name="poly-i4-shrink-fits-" + be, backend=be, prep=[("f.cgns", pre4)], all_hard=(be == "hdf5"),
                        script=["cgopen m " + be, "polypart 1 101 400 3 %d" % r(), "cgclose"]))
        out.append(dict(name="poly-i4-grow-nofit-" + be, backend=be, prep=[("f.cgns", pre4)], all_hard=(be == "hdf5"),
                        script=["cgopen m " + be, "polypart 1 500 600 5 %d" % r(), "cgclose"]))
    mw = ["cgopen w adf", "base Base", "zone Zone1 9", "coord CoordinateX %d" % r(), "coord CoordinateY %d" % r(), "sol Sol1", "field Density %d" % r(),
          "desc Info hello", "cgclose"]
    out.append(dict(name="mll-two-io", backend="adf", prep=[("f.cgns", mw)],
                    script=["cgopen m adf", "zn 9", "bbox %d" % r(), "coordpart CoordinateY 2 5 %d" % r(), "sol Sol2", "fieldpart Pressure 1 4 %d" % r(),
                            "getcoord CoordinateY", "cgclose"]))
    out.append(dict(name="mll-save-as", backend="adf", prep=[("f.cgns", mw)], files=["f.cgns", "g.cgns"],
                    script=["cgopen m adf", "saveas g.cgns adf", "cgclose"]))
    # compress-on-close (cg_close after a deletion -> cgio_compress_file -> rewrite_file: copy into <file>.temp, close the copy,
    # close the source, unlink, rename) on both back ends: EIO and ENOSPC at EVERY position, in particular at every call
    # of the copy's close, whose status rewrite_file ignores
    for be in ("adf", "hdf5"):
        mwb = [x.replace("cgopen w adf", "cgopen w " + be) for x in mw]
        out.append(dict(name="mll-delete-compress" + ("" if be == "adf" else "-hdf5"), backend=be, prep=[("f.cgns", mwb)], all_hard=True, both_kinds=True,
                        script=["cgcompress 1", "cgopen m " + be, "cgdeldesc Info", "desc Info2 world", "cgclose"]))
    # writes THROUGH a link into a second file, the write being the last operation before the close (ADFI_close_file closes
    # the linked files first and overwrites their status), on both back ends
    for be in ("adf",):            # (HDF5 refuses to re-dimension a node reached through an external link: status 90)
        b2 = ["open w " + be, "new / T Tgt_t I4 50 %d" % r(), "new /T U Tgt_t I4 5 %d" % r(), "close"]
        f2 = ["open w " + be, "new / A Lab_t I4 30 %d" % r(), "link / L b.cgns /T", "close"]
        out.append(dict(name="link-writethrough-last-" + be, backend=be, prep=[("b.cgns", b2), ("f.cgns", f2)], files=["f.cgns", "b.cgns"],
                        all_hard=True, both_kinds=True,
                        script=["open m " + be, "setlabel /A Other_t", "wr /L I4 2000 %d" % r(), "new /L W Lab_t R8 700 %d" % r(), "close"]))
    for s in out:
        s["ext"] = True
    return out


def corpus():
    """corpus/C14b/*.json: fixed sessions with the call site under which every hard fault is injected (witnesses of repaired
    defects, of seeded changes and of the current finding); always run first"""
    out = []
    cdir = os.path.join(vlib.ROOT, "corpus", "C14b")
    for f in sorted(os.listdir(cdir)) if os.path.isdir(cdir) else []:
        if f.endswith(".json"):
            c = json.load(open(os.path.join(cdir, f)))
            c["prep"] = [tuple(x) for x in c.get("prep", [])]
            c["corpus_target"] = tuple(c.pop("target"))
            c["all_hard"] = False
            out.append(c)
    return out


def prepare(h, ipso, sc, d):
    os.makedirs(d, exist_ok=True)
    for fname, script in sc["prep"]:
        lines, oc, err = ip.run_ip(ipso, [h, "run", os.path.join(d, fname)], d, cwd=d, stdin="\n".join(script) + "\n")
        st = [int(l.split()[1]) for l in lines if l.startswith("s ")]
        if oc != "ok" or any(st) or len(st) != len(script):
            raise vlib.Infra("cannot prepare %s of scenario %s: %s %s %s" % (fname, sc["name"], oc, st, err[-300:]))


_ENDED = {}


def session(h, pre, d, script, fault=None, trace=None, where=False):
    env_where = os.environ.get("VERIF_WHERE")
    # run_ip copies os.environ: the where shim is switched on through it (it stays passive without VERIF_WHERE)
    if where:
        os.environ["VERIF_WHERE"] = "1"
    else:
        os.environ.pop("VERIF_WHERE", None)
    try:
        lines, oc, err = ip.run_ip(pre, [h, "run", os.path.join(d, "f.cgns")], d, cwd=d, trace=trace, fault=fault,
                                   stdin="\n".join(script) + "\n", timeout=120)
    finally:
        if env_where is None:
            os.environ.pop("VERIF_WHERE", None)
        else:
            os.environ["VERIF_WHERE"] = env_where
    st = [int(l.split()[1]) for l in lines if l.startswith("s ")]
    _ENDED[os.path.abspath(d)] = bool(lines) and lines[-1] == "end"          # the session ran to its end (the harness prints `end` last)
    return st, oc, err


def dump(h, d, files):
    lines, oc = vlib.run_impl(h, "", args=["dump"] + [os.path.join(d, f) for f in files], cwd=d, timeout=60)
    dd = ip.parse_dumps(lines)
    return [(dd.get(str(i), ("crash", "0", []))[0], dd.get(str(i), ("crash", "0", []))[2]) for i in range(len(files))], oc


# ----------------------------------------------------------------------------- stacks
def parse_where(trace_path):
    """-> (calls, bounds): calls[f] = dict(name, addrs) for every faultable tracked call (f = fault index), bounds = fault
    index at each MARK (end of each script op)"""
    calls, bounds, last_bt = {}, [], None
    for l in open(trace_path, errors="replace"):
        t = l.split()
        if not t:
            continue
        if t[0] == "bt":
            last_bt = t[2:]
            continue
        if len(t) >= 5 and t[2] == "mark":
            nums = [x for x in t[3:] if x.isdigit()]
            bounds.append(int(nums[0]))
            last_bt = None
            continue
        if len(t) >= 8 and t[6] == "=" and t[0] != "-":
            calls[int(t[0])] = dict(name=t[2], addrs=last_bt or [], path=t[3])
        last_bt = None
    return calls, bounds


def symbolize(exe, addrs):
    """hex offsets -> [(function, file basename, line)] innermost first per address (inlined frames included)"""
    addrs = sorted(set(addrs))
    res = {}
    if not addrs:
        return res
    p = subprocess.run(["addr2line", "-f", "-i", "-a", "-e", exe] + ["0x%x" % (int(a, 16) - 1) for a in addrs],
                       stdout=subprocess.PIPE, stderr=subprocess.PIPE, text=True, timeout=300)
    cur, fn = None, None
    back = {"0x%016x" % (int(a, 16) - 1): a for a in addrs}
    for l in p.stdout.split("\n"):
        if l.startswith("0x"):
            cur = back.get(l.strip())
            res[cur] = []
            fn = None
        elif cur is not None:
            if fn is None:
                fn = l.strip()
            else:
                loc = l.strip().split(" ")[0]
                f, _, ln = loc.rpartition(":")
                res[cur].append((fn, os.path.basename(f), int(ln) if ln.isdigit() else 0))
                fn = None
    return res


SRC_FILES = {"ADF_interface.c", "ADF_internals.c", "cgns_io.c"}
MLL_FILES = {"cgnslib.c", "cgns_internals.c"}


def chain_of(call, sym):
    """normalised call chain, outermost first: [(caller, line, callee)] over the frames that lie in the three files; the trace
    wrappers of the verification build (X -> X_body) are folded away; the chain ends at the first callee outside the three
    files (an ADFH_* entry point, which is a primitive of the model) or at the system call itself"""
    frames = []
    for a in call["addrs"]:
        frames += sym.get(a, [])
    frames.reverse()                                                   # outermost first
    while frames and frames[0][1] not in SRC_FILES:
        # _start, main, and the cg_* / cgi_* frames of the mid-level library above the one that calls cgio_* (the call graph
        # among them is not modelled)
        if frames[0][1] in MLL_FILES and len(frames) > 1 and frames[1][1] in SRC_FILES:
            break
        frames.pop(0)
    out, last = [], call["name"]
    for i, (fn, fl, ln) in enumerate(frames):
        if fl not in SRC_FILES and not (i == 0 and fl in MLL_FILES):
            last = fn
            break
        if i + 1 < len(frames) and frames[i + 1][0] == fn + "_body":
            continue                                                   # the wrapper frame
        wrapped = fn.endswith("_body") and i > 0 and frames[i - 1][0] == fn[:-5]
        out.append((fn[:-5] if wrapped else fn, ln))
    edges = []
    for i, (fn, ln) in enumerate(out):
        callee = out[i + 1][0] if i + 1 < len(out) else last
        edges.append((fn, ln, callee))
    return edges


class Table:
    def __init__(self, d):
        self.fn = {}
        for f in d["functions"]:
            if f["name"] not in self.fn:
                self.fn[f["name"]] = f

    def site(self, caller, line, callee):
        """index and row of the call site, or (None, None)"""
        f = self.fn.get(caller)
        if not f:
            return None, None
        best = None
        for i, r in enumerate(f["rows"]):
            if r["callee"] == callee and abs(r["line"] - line) <= LINE_TOL:
                if best is None or abs(r["line"] - line) < abs(f["rows"][best]["line"] - line):
                    best = i
        return (best, f["rows"][best]) if best is not None else (None, None)


def oracle_of(tab, edges, wrappers):
    """the machine oracle that walks down `edges` and fails the primitive at the end; None when an edge has no row"""
    o = []
    for (caller, line, callee) in edges:
        if caller in wrappers:
            break                                                      # inside ADFI_write / ADFI_read: the leaf fails
        i, r = tab.site(caller, line, callee)
        if i is None:
            return None
        o.append(i + 2)
    return o + [1]


def tune(h, preload, ipso, sc, sw, budget):
    """search the filler size for which a system call is made under the target call site; fills sc[prep], sc[script]"""
    t = sc["tune"]
    cand = [t["first"]] + [n for n in range(1, t["span"], t["step"]) if n != t["first"]]
    # nearest values first
    cand = [cand[0]] + sorted(cand[1:], key=lambda n: abs(n - t["first"]))
    for i, n in enumerate(cand[:budget]):
        sc.update(t["build"](n))
        shutil.rmtree(sw, ignore_errors=True)
        base = os.path.join(sw, "base")
        prepare(h, ipso, sc, base)
        trf = os.path.join(sw, "trace")
        st, oc, err = session(h, preload, base, sc["script"], trace=trf, where=True)
        if oc != "ok" or any(st):
            continue
        calls, _ = parse_where(trf)
        sym = symbolize(h, [a for c in calls.values() for a in c["addrs"]])
        if any(any((c, e) == t["target"] for (c, _, e) in chain_of(cl, sym)) and cl["name"] in HARD for cl in calls.values()):
            return n, i + 1
    return None, min(budget, len(cand))


# ----------------------------------------------------------------------------- one fault case
def fault_case(h, ipso, base, work, sc, faults, nops, ideal, tag):
    d = os.path.join(work, "f_" + tag)
    shutil.rmtree(d, ignore_errors=True)
    shutil.copytree(base, d)
    spec = ",".join("%d:%s" % x for x in faults)
    trf = os.path.join(d, "tr")
    st, oc, err = session(h, ipso, d, sc["script"], fault=spec, trace=trf)
    injected = [c for c in ip.read_trace(trf) if c["inj"]]
    if os.path.exists(trf):
        os.unlink(trf)
    res = {"faults": faults, "statuses": st, "outcome": oc, "injected": [(c["name"], c["path"], c["inj"]) for c in injected],
           "problem": None, "stderr": err[-400:] if oc != "ok" else ""}
    ended = _ENDED.pop(os.path.abspath(d), False)
    # a crash in the exit handlers AFTER the session ran to its end (libhdf5's teardown after a failed H5Fclose) must not hide
    # what the session left behind: every status is known, so "all statuses 0 => content intact" is still evaluated
    crash_at_exit = oc != "ok" and oc != "timeout" and len(st) == nops    # (`end` itself is lost: stdout is not flushed by the abort)
    all_ok = (oc == "ok" or crash_at_exit) and len(st) == nops and all(s == 0 for s in st)
    if (oc != "ok" or len(st) != nops) and not (crash_at_exit and all_ok):
        res["problem"] = "crash"
    elif all_ok:
        got, doc = dump(h, d, sc["files"])
        res["reopen"] = [g[0] for g in got]
        if doc != "ok":
            res["problem"] = "crash-on-reopen"
        elif got != ideal:
            res["problem"] = "silent"
            diff = []
            for (s0, b0), (s1, b1) in zip(ideal, got):
                diff += [l for l in b0 if l not in b1][:3] + ["--- got (%s):" % s1] + [l for l in b1 if l not in b0][:3]
            res["diff"] = diff[:12]
        if crash_at_exit:
            res["crash_at_exit"] = oc
            if not res["problem"]:
                res["problem"] = "crash"
    shutil.rmtree(d, ignore_errors=True)
    return res


# ----------------------------------------------------------------------------- the run
def engine_lists():
    out = {"ok": None, "bad": [], "unparsed": [], "lossy": [], "reach": [], "stale": [], "known": []}
    for l in vlib.run_model("c14b", "", args=["lists"]):
        t = l.split()
        if not t:
            continue
        if t[0] == "ok":
            out["ok"] = [int(x) for x in t[1:]]
        elif t[0] in ("bad", "lossy"):
            out[t[0]].append(dict(caller=t[1], callee=t[2], line=int(t[3]), cont=t[4]))
        elif t[0] == "unparsed":
            out["unparsed"].append((t[1], int(t[2])))
        elif t[0] == "reach":
            out["reach"] = t[1:]
        elif t[0] in ("stale", "known"):
            out[t[0]].append((t[1], t[2]))
    return out


def run_extra(ck, standalone=False):
    t_start = __import__("time").time()
    big = ck.tier == "thorough"
    work = os.path.join(ck.work, "c14b")
    shutil.rmtree(work, ignore_errors=True)
    os.makedirs(work)
    vlib.build_impl()
    h = vlib.build_harness("c14b_h", ["c14b_h.c"])
    ipso = ip.build_interposer()
    wso = build_where()
    info, d = pregen()
    tab = Table(d)
    prev = {k: ck.extra.get(k) for k in ("print_assumptions", "theorems", "coq_wall_s")}
    cres = vlib.coq_check_properties("C14b")
    broken = ck.proof_result(cres, CHECKER if standalone else ck.cov.get("checker_cmd", "") + " ; " + CHECKER)
    if prev["theorems"] is not None:                                   # called from C14: keep both halves in the evidence
        ck.extra["theorems"] = list(prev["theorems"]) + list(cres["theorems"])
        pa, pb = prev["print_assumptions"] or {}, cres["assumptions"]
        ck.extra["print_assumptions"] = {"closed": pa.get("closed", 0) + pb["closed"], "with_axioms": pa.get("with_axioms", 0) + pb["with_axioms"],
                                         "axioms": sorted(set(pa.get("axioms", [])) | set(pb["axioms"]))}
        ck.extra["coq_wall_s"] = round((prev["coq_wall_s"] or 0) + cres.get("wall_s", 0), 1)
    mine = ("ErrProp.v", "ErrPropProofs.v", "Properties_C14b.v", "Extract_c14b.v", "Gen_C14.v")
    forb = [x for x in vlib.coq_forbidden_scan() if x.split(":")[0] in mine]
    if forb:
        ck.violation({"broken_obligation": "forbidden tokens in the Coq development", "hits": forb}, nofail=True)
    vlib.build_modelrun("c14b")
    L = engine_lists()
    wrappers = {"ADFI_write", "ADFI_read"}
    ex = {"translator": {k: info[k] for k in ("functions", "rows", "by_cont", "externs", "cached", "gen_sha1")},
          "obligation": {"all_checked": L["ok"][0], "all_parsed": L["ok"][1], "exceptions_named": L["ok"][2], "ids_ok": L["ok"][3]},
          "bad_rows": L["bad"], "unparsed_rows": L["unparsed"], "stale_exceptions": L["stale"],
          "functions_reaching_a_primitive": len(L["reach"])}
    ck.extra["c14b"] = ex
    ck.cov["trusted_base"] = list(ck.cov.get("trusted_base") or []) + [
        "translators/c14_errprop.py (clang JSON AST walker, data-flow classification of every call site; cross-checked: every call edge "
        "seen in the dynamic call stacks must be a row, and the extracted machine's verdict along each faulted stack is compared with the library)",
        "harness/c14b_where.c (backtrace shim), addr2line, harness/c14b_h.c, ocaml/eng_c14b.ml",
        "the name lists of ErrProp.v (prim_io, wrappers, known_unchecked)"]
    ck.assumptions = list(ck.assumptions or []) + [
        "C14b: the production code is analysed (CGNS_VERIF undefined); the add-only trace wrappers of the verification build are folded away in the stacks",
        "C14b: ADFI_write / ADFI_read are primitives of the machine (their retry loops are the business of AdfIO.v, C14_retry)",
        "C14b: a call of ADFI_Abort / exit / cgio_error_exit ends the path (the process terminates with a message)",
        "C14b: in cgns_io.c a cgio_* callee that returns non-zero has left that value in last_err (set_error)"]

    T = {"setup_s": round(__import__("time").time() - t_start, 1)}
    ex["timing"] = T
    # ---------------- dynamic: stacks of every system call of the scenario sessions
    pool = concurrent.futures.ThreadPoolExecutor(max_workers=WORKERS)
    scs = scenarios(ck.rng, ck.tier)
    targets = {}                       # (caller, callee) -> kind: rows to replay
    for r in L["lossy"]:
        targets[(r["caller"], r["callee"])] = "bad" if any(b["caller"] == r["caller"] and b["callee"] == r["callee"] for b in L["bad"]) else "excepted"
    target_lines = {}                  # the lines of the non-propagating rows of each pair (a pair may also have checked call sites)
    for r in L["lossy"]:
        target_lines.setdefault((r["caller"], r["callee"]), set()).add(r["line"])
    for sc in scs:
        if sc.get("corpus_target"):
            targets.setdefault(sc["corpus_target"], "corpus")

    def under(tkey, chain):
        for (c, l, e) in chain:
            if (c, e) == tkey:
                if tkey not in target_lines:
                    return True
                i, row = tab.site(c, l, e)
                if row is not None and row["line"] in target_lines[tkey]:
                    return True
        return False

    stats = {"scenarios": {}, "edges_seen": 0, "edges_without_row": {}, "rows_exercised": 0, "model_vs_impl": 0,
             "model_err_impl_ok": 0, "model_lost": 0, "replayed": {}}
    exercised = set()
    fails, corr_broken = [], []
    per_target = {k: {"kind": v, "positions": 0, "runs": 0, "reported": 0, "problems": 0, "scenarios": []} for k, v in targets.items()}
    preload = ipso + ":" + wso
    ex["tuned"] = {}
    # coverage map: function -> {scenario: number of system calls made under it}, rebuilt on every run from the call stacks and
    # kept under .build/c14b_cache; the map of the previous run orders the scenarios when a row breaks in function F
    coverage = {}
    bad_fns = set(k[0] for k, v in targets.items() if v == "bad")
    covf = os.path.join(vlib.BUILD, "c14b_cache", "coverage%s.json" % vlib._TAG)
    old_cov = {}
    for f in (covf, os.path.join(vlib.BUILD, "c14b_cache", "coverage.json")):
        if os.path.exists(f):
            try:
                old_cov = json.load(open(f)); break
            except Exception:
                pass
    if bad_fns:
        reach = set(n for fnm in bad_fns for n in old_cov.get(fnm, {}))
        scs.sort(key=lambda c: (0 if c.get("corpus_target") else 1, 0 if c["name"] in reach else 1))
        ex["search_order"] = {"broken_functions": sorted(bad_fns), "scenarios_known_to_reach_them": sorted(reach)}
    for sc in scs:
        t_sc = __import__("time").time()
        sw = os.path.join(work, sc["name"])
        base = os.path.join(sw, "base")
        if sc.get("tune"):
            n, tries = tune(h, preload, ipso, sc, sw, 400 if big else 40)
            ex["tuned"][sc["name"]] = {"n": n, "tries": tries, "target": "%s:%s" % sc["tune"]["target"]}
            if n is None:
                continue                                               # the layout was not found: recorded as not exercised
            shutil.rmtree(sw, ignore_errors=True)
        prepare(h, ipso, sc, base)
        d0 = os.path.join(sw, "ref")
        shutil.copytree(base, d0)
        trf = os.path.join(sw, "trace")
        nops = len(sc["script"])
        st, oc, err = session(h, preload, d0, sc["script"], trace=trf, where=True)
        if oc != "ok" or len(st) != nops or any(st):
            raise vlib.Infra("fault-free run of %s fails: %s %s %s" % (sc["name"], oc, st, err[-300:]))
        ideal, doc = dump(h, d0, sc["files"])
        if doc != "ok" or any(not s.startswith("ok") for s, _ in ideal):
            raise vlib.Infra("fault-free run of %s cannot be reopened: %s %s" % (sc["name"], doc, [s for s, _ in ideal]))
        calls, bounds = parse_where(trf)
        t_sym = __import__("time").time()
        sym = symbolize(h, [a for c in calls.values() for a in c["addrs"]])
        T["symbolize_s"] = round(T.get("symbolize_s", 0) + __import__("time").time() - t_sym, 1)
        ck.cov["traces_validated_against_impl"] += 1
        chains = {}
        for k, c in calls.items():
            e = chain_of(c, sym)
            chains[k] = e
            for (caller, line, callee) in e:
                stats["edges_seen"] += 1
                if caller in wrappers:
                    continue
                i, r = tab.site(caller, line, callee)
                if i is None:
                    key = "%s->%s" % (caller, callee)
                    stats["edges_without_row"][key] = stats["edges_without_row"].get(key, 0) + 1
                else:
                    exercised.add((caller, r["line"], callee))

        fns_here = set(c for e in chains.values() for (c, _, _) in e)
        for k, e in chains.items():
            for fnm in set(c for (c, _, _) in e):
                coverage.setdefault(fnm, {}).setdefault(sc["name"], 0)
                coverage[fnm][sc["name"]] += 1

        def op_index(k):
            for i, b in enumerate(bounds):
                if k < b:
                    return i
            return None

        # positions to fault: every hard-faultable call under a target row (bounded in quick) + a seeded sample of the others
        jobs, why = [], {}
        hard = [k for k in sorted(calls) if calls[k]["name"] in HARD and chains[k]]
        for tkey in targets:
            pos = [k for k in hard if under(tkey, chains[k])]
            if not pos:
                continue
            per_target[tkey]["positions"] += len(pos)
            per_target[tkey]["scenarios"].append(sc["name"])
            if not big and len(pos) > 10 and targets[tkey] != "bad":
                # spread over the distinct stacks first
                seen, pick = set(), []
                for k in pos:
                    sig = tuple(chains[k])
                    if sig not in seen:
                        seen.add(sig); pick.append(k)
                rest = [k for k in pos if k not in pick]
                ck.rng.shuffle(rest)
                pos = (pick + rest)[:10]
            if targets[tkey] == "bad" and len(pos) > 60 and not big:
                seen, pick = set(), []
                for k in pos:
                    sig = (tuple(chains[k]), calls[k]["name"])
                    if sig not in seen:
                        seen.add(sig); pick.append(k)
                rest = [k for k in pos if k not in pick]
                pos = (pick + rest[:: max(1, len(rest) // 40)])[:60]
            for k in pos:
                for kind in HARD[calls[k]["name"]][: (2 if big or targets[tkey] == "bad" else 1)]:
                    jobs.append((k, kind)); why.setdefault((k, kind), []).append(tkey)
        # a row that breaks the obligation in function F but is not reached on its own line here: every call made through F
        via_fn = []
        for tkey, kind_t in targets.items():
            if kind_t == "bad" and sc["name"] not in per_target[tkey]["scenarios"]:
                pos = [k for k in hard if any(c == tkey[0] for (c, _, _) in chains[k])]
                seen, pick = set(), []
                for k in pos:
                    sig = (tuple(chains[k]), calls[k]["name"])
                    if sig not in seen:
                        seen.add(sig); pick.append(k)
                via_fn += pick[:12]
                if pick:
                    per_target[tkey]["via_function"] = per_target[tkey].get("via_function", 0) + len(pick[:12])
        for k in via_fn:
            jobs.append((k, "eio"))
        others = [k for k in hard if not any((k, kd) in why for kd in ("eio", "enospc")) and k not in via_fn]
        ck.rng.shuffle(others)
        nsample = len(others) if big or sc.get("all_hard") else (4 if sc.get("ext") else 14)
        if sc.get("ext") and not big and bad_fns and not (bad_fns & fns_here):
            nsample = 0                                               # the search is after a broken row this session cannot reach
        for k in others[:nsample]:
            jobs.append((k, "eio"))
        if sc.get("both_kinds"):
            jobs += [(k, kd) for (k, _) in list(jobs) for kd in HARD[calls[k]["name"]]]
        jobs = sorted(set(jobs))
        # the machine's verdict along each stack
        orc = {k: oracle_of(tab, chains[k], wrappers) for k, _ in jobs}
        script = "".join("%s %s\n" % (chains[k][0][0], " ".join(map(str, orc[k]))) for k, _ in jobs if orc[k])
        mres = iter(vlib.run_model("c14b", script, args=["run"])) if script else iter(())
        verdict = {}
        for k, kind in jobs:
            if orc[k] and (k not in verdict):
                pass
        for k, kind in jobs:
            if orc[k]:
                verdict[(k, kind)] = next(mres).split()
        futs = [(j, pool.submit(fault_case, h, ipso, base, sw, sc, [j], nops, ideal, "%d%s" % j)) for j in jobs]
        ps = {"syscalls": len(calls), "hard_faultable": len(hard), "cases": len(jobs), "reported": 0, "problems": 0}
        for (k, kind), fu in futs:
            r = fu.result()
            oi = op_index(k)
            ck.case(hashlib.sha1(("c14b" + sc["name"] + str(chains[k]) + kind).encode()).hexdigest() if r["injected"] else None,
                    sample={"scenario": sc["name"], "fault": [k, kind], "stack": ["%s:%d" % (c, l) for c, l, _ in chains[k]][-4:],
                            "statuses": r["statuses"][-4:]})
            reported = any(s != 0 for s in r["statuses"])
            ps["reported"] += 1 if reported else 0
            for tkey in why.get((k, kind), []):
                per_target[tkey]["runs"] += 1
                per_target[tkey]["reported"] += 1 if reported else 0
                if not reported and r["injected"] and not r["problem"]:
                    # a hard failure of a write / seek / close that NO call reported, the data being intact.  The property says
                    # "some call no later than the close returns an error": for a row that newly breaks the obligation this is the
                    # failing input; for an excepted pair (analysed one by one in notes/C14b.md) it is recorded only
                    per_target[tkey]["unreported_data_intact"] = per_target[tkey].get("unreported_data_intact", 0) + 1
                    if per_target[tkey]["kind"] == "bad":
                        r["problem"] = "unreported"
            v = verdict.get((k, kind))
            if v and r["injected"] and r["outcome"] == "ok":
                stats["model_vs_impl"] += 1
                if v[1] == "err":
                    op_st = r["statuses"][oi] if oi is not None and oi < len(r["statuses"]) else None
                    if op_st == 0:
                        stats["model_err_impl_ok"] += 1
                        corr_broken.append({"scenario": sc["name"], "fault": [k, kind], "stack": chains[k], "op": sc["script"][oi],
                                            "model": v, "impl_status": op_st})
                else:
                    stats["model_lost"] += 1
            if r["problem"]:
                ps["problems"] += 1
                tk = why.get((k, kind), [None])[0]
                if tk is None:
                    # which row of the stack drops the status, according to the table
                    for (c, l, e) in chains[k]:
                        i, row = tab.site(c, l, e)
                        if row is not None and row["cont"] not in ("Return", "Flow"):
                            tk = (c, e)
                for tkey in why.get((k, kind), []):
                    per_target[tkey]["problems"] += 1
                fails.append({"level": "c14b", "scenario": sc["name"], "backend": sc["backend"], "prep": sc["prep"], "script": sc["script"],
                              "files": sc["files"], "faults": [[k, kind]], "injected": r["injected"], "problem": r["problem"],
                              "statuses": r["statuses"], "outcome": r["outcome"], "diff": r.get("diff"), "stderr": r["stderr"],
                              "stack": ["%s:%d->%s" % e for e in chains[k]], "row": list(tk) if tk else None,
                              "fault_op": sc["script"][oi] if oi is not None and oi < len(sc["script"]) else None})
        # widened search: a dropped status is often noticed by a LATER operation on the same node (which then reports an
        # error, so the session as a whole is "reported").  For every target row that was reached here without a failing
        # input, the session is cut after the faulted operation (+ the final close) and the same fault is injected again.
        if sc["script"][-1].startswith(("close", "compress", "cgclose")):
            for tkey, info_t in per_target.items():
                if info_t["problems"] or sc["name"] not in info_t["scenarios"]:
                    continue
                pos = sorted(set(k for (k, kind), ts in why.items() if tkey in ts))
                seen_ops, tj = set(), []
                for k in pos:
                    oi = op_index(k)
                    if oi is None or oi >= nops - 2 or (oi, calls[k]["name"]) in seen_ops:
                        continue
                    seen_ops.add((oi, calls[k]["name"]))
                    tj.append((k, oi))
                for k, oi in tj[: (8 if big or info_t["kind"] == "bad" else 3)]:
                    sc2 = dict(sc, script=sc["script"][: oi + 1] + [sc["script"][-1]], name=sc["name"] + "-cut%d" % oi)
                    d2 = os.path.join(sw, "cutref%d" % oi)
                    shutil.rmtree(d2, ignore_errors=True)
                    shutil.copytree(base, d2)
                    st2, oc2, _ = session(h, ipso, d2, sc2["script"])
                    ideal2, doc2 = dump(h, d2, sc["files"])
                    if oc2 != "ok" or any(st2) or doc2 != "ok":
                        continue
                    r = fault_case(h, ipso, base, sw, sc2, [(k, "eio")], len(sc2["script"]), ideal2, "cut%d_%d" % (oi, k))
                    info_t["runs"] += 1
                    info_t["cut_runs"] = info_t.get("cut_runs", 0) + 1
                    ck.case(hashlib.sha1(("c14bcut" + sc["name"] + str(chains[k])).encode()).hexdigest() if r["injected"] else None)
                    if any(x != 0 for x in r["statuses"]):
                        info_t["reported"] += 1
                    if r["problem"]:
                        info_t["problems"] += 1
                        ps["problems"] += 1
                        fails.append({"level": "c14b", "scenario": sc2["name"], "backend": sc["backend"], "prep": sc["prep"], "script": sc2["script"],
                                      "files": sc["files"], "faults": [[k, "eio"]], "injected": r["injected"], "problem": r["problem"],
                                      "statuses": r["statuses"], "outcome": r["outcome"], "diff": r.get("diff"), "stderr": r["stderr"],
                                      "stack": ["%s:%d->%s" % e for e in chains[k]], "row": list(tkey), "fault_op": sc["script"][oi]})
                        break
        ps["wall_s"] = round(__import__("time").time() - t_sc, 1)
        stats["scenarios"][sc["name"]] = ps
        shutil.rmtree(sw, ignore_errors=True)
    pool.shutdown()
    try:
        os.makedirs(os.path.dirname(covf), exist_ok=True)
        json.dump(coverage, open(covf + ".tmp", "w")); os.replace(covf + ".tmp", covf)
    except OSError:
        pass
    stats["functions_reached"] = len(coverage)
    stats["coverage_of_reaching_functions"] = "%d of %d" % (len([f for f in L["reach"] if f in coverage]), len(L["reach"]))
    stats["not_reached"] = sorted(f for f in L["reach"] if f not in coverage)[:80]
    stats["rows_exercised"] = len(exercised)
    stats["replayed"] = {"%s:%s" % k: v for k, v in per_target.items()}
    ex["dynamic"] = stats
    ex["wall_s"] = round(__import__("time").time() - t_start, 1)

    # ---------------- verdicts
    reported_keys = set()
    hdf5_known = {"hdf5-write-failure-crash-inside-libhdf5", "hdf5-compress-enospc-crash-on-next-open"}
    plain = 0
    silent_rows = set(tuple(f["row"]) for f in fails if f["row"] and f["problem"] != "unreported")
    fails = [f for f in fails if not (f["problem"] == "unreported" and f["row"] and tuple(f["row"]) in silent_rows)]
    for f in fails:
        in_h5 = "@H5" in (f["outcome"] or "") or "libhdf5" in (f["stderr"] or "")
        if f["backend"] == "hdf5" and f["problem"] in ("crash", "crash-on-reopen") and in_h5:
            key = "hdf5-compress-enospc-crash-on-next-open" if "compress" in f["scenario"] else "hdf5-write-failure-crash-inside-libhdf5"
        elif f["row"]:
            key = ("unreported-failure:%s:%s" if f["problem"] == "unreported" else "unchecked-status:%s:%s") % tuple(f["row"])
        else:
            key = None
        rec = dict(f, oracle="statuses + sanitizer + clean reopen vs the fault-free session's content",
                   replay_hint="./check C14b --replay <this file>")
        if key:
            if key not in reported_keys:
                reported_keys.add(key)
                ck.finding(key, rec)
        elif plain < 3:
            plain += 1
            ck.violation(rec)
    def found(b):
        return ("unchecked-status:%s:%s" % (b["caller"], b["callee"]) in reported_keys or
                "unreported-failure:%s:%s" % (b["caller"], b["callee"]) in reported_keys)
    # rows of one source line are the arms of one statement (WRITE_PART_1D_DATA expands to a cgio_write_data arm and a
    # cgio_write_data_type arm): a failing input through one arm settles the line
    found_lines = set((b["caller"], b["line"]) for b in L["bad"] if found(b))
    bad_unfound = [b for b in L["bad"] if not found(b) and (b["caller"], b["line"]) not in found_lines]
    obligations_broken = bool(broken) or not all(L["ok"]) or bool(forb)
    if (obligations_broken and bad_unfound) or (obligations_broken and not L["bad"] and not fails) or (corr_broken and not fails):
        ck.violation({"broken_obligations": broken and [{k: b[k] for k in ("obligation", "where")} for b in broken],
                      "theorem": "C14_all_statuses_checked (coq/Properties_C14b.v) on the regenerated coq/Gen_C14.v",
                      "rows_that_break_it": bad_unfound, "unparsed_rows": L["unparsed"][:10],
                      "replayed": {("%s:%s" % k): v for k, v in per_target.items() if v["kind"] == "bad"},
                      "broken_correspondence": corr_broken[:3],
                      "note": "a status that can reach a primitive write / seek / close is no longer propagated according to the regenerated "
                              "table (or the table mis-describes the code), but no fault position explored under that call site made "
                              "the property's oracle fail"}, nofail=True)
    if L["stale"]:
        ex["note_stale"] = "pairs of ErrProp.known_unchecked that name no row of the current table (repaired in /repo?): %s" % L["stale"]
    return ex


def run(ck):
    ck.known = list(ck.known) + [k for k in vlib.load_known("C14")[0] if not ck.known_match(k["key"])]   # C14b is a part of C14
    run_extra(ck, standalone=True)
    ck.cov["rule"] = ("every call site of a fallible callee in ADF_internals.c / ADF_interface.c / cgns_io.c is a row of the regenerated table; "
                      "dynamic: cgio-level sessions (write, modify, links, write through a link, compress, copy; ADF and HDF5), EIO/ENOSPC at the "
                      "write/lseek/close/fsync calls made under every excepted or obligation-breaking call site and at a seeded sample of the "
                      "others. non-trivial = the fault was injected; distinct by scenario / call stack / kind")
    ck.extra["input_distribution"] = ck.extra["c14b"]["dynamic"]


def replay(ck, path):
    r = json.load(open(path))
    if "scenario" not in r:
        print("replay names a broken obligation/correspondence, no input to run:", json.dumps(r)[:1200])
        return 1
    vlib.build_impl()
    h = vlib.build_harness("c14b_h", ["c14b_h.c"])
    ipso = ip.build_interposer()
    sw = os.path.join(ck.work, "replay")
    os.makedirs(sw, exist_ok=True)
    sc = {"name": r["scenario"], "prep": [tuple(x) for x in r["prep"]], "script": r["script"], "files": r["files"], "backend": r.get("backend")}
    base = os.path.join(sw, "base")
    prepare(h, ipso, sc, base)
    d0 = os.path.join(sw, "ref")
    shutil.copytree(base, d0)
    st, oc, err = session(h, ipso, d0, sc["script"])
    ideal, _ = dump(h, d0, sc["files"])
    res = fault_case(h, ipso, base, sw, sc, [tuple(x) for x in r["faults"]], len(sc["script"]), ideal, "replay")
    if r.get("problem") == "unreported" and not res["problem"] and res["injected"] and not any(res["statuses"]):
        res["problem"] = "unreported"          # a hard write / seek / close failure that no call reported
    print("replay: fault-free statuses %s; with %s: %s -> property %s" % (st, r["faults"], json.dumps(res)[:900], "FAILS" if res["problem"] else "holds"))
    return 1 if res["problem"] else 0
