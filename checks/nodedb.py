"""nodedb.py -- shared generator / comparator for the node-database checks (C02, C03, C16; C08 and C09 reuse the
script language).  Scripts drive harness/cgio_h.c (the real cgio layer, ADF or HDF5) and ocaml/eng_c02.ml (TreeDB).

The generator keeps a light mirror of its own (which uids are alive, their parents, names, types, sizes) ONLY to
produce mostly-valid operations aimed at the boundaries the property names (4096-byte block, 246-byte header,
50-entry header cache, 100000-byte conversion buffer, arrays that grow after first being written, deep and wide
trees, several files open together); verdicts never come from this mirror."""
import os

TYPES = {"C1": 1, "B1": 1, "I4": 4, "U4": 4, "R4": 4, "I8": 8, "U8": 8, "R8": 8, "X4": 8, "X8": 16}
NAME_ALPHA = b"abcdefghijklmnopqrstuvwxyzABCDEFGHIJKLMNOPQRSTUVWXYZ0123456789_-.#+= "


def hx(b):
    return b.hex() if b else "-"


def rand_name(rng, used):
    for _ in range(100):
        n = rng.choice([1, 2, 3, 5, 8, 12, 20, 31, 32, rng.randint(1, 32)])
        b = bytes(rng.choice(NAME_ALPHA) for _ in range(n))
        b = b.strip(b" ") or b"n"
        if b in (b".", b"..") or b in used:
            continue
        return b
    return b"node%d" % rng.randint(0, 10 ** 9)


def pick_dims(rng, tsz, big):
    """dims whose byte size sits on an interesting boundary"""
    # 65531 / 65532 / 65536: the largest payload HDF5 can keep in a compact layout message, one more, and 64 KiB
    target = rng.choice([1, 2, 7, 32, 245, 246, 247, 1000, 4095, 4096, 4097, 8191, 8193] + ([rng.choice([65531, 65532, 65535, 65536])] if rng.random() < 0.3 else []) +
                        ([99999, 100000, 100001, 200003] if big else []) + [rng.randint(1, 3000)])
    n = max(1, target // tsz + rng.choice([0, 0, 1]))
    r = rng.random()
    if r < 0.5 or n < 4:
        return [n]
    if r < 0.8:
        a = rng.randint(1, min(n, 12)); return [a, max(1, n // a)]
    a = rng.randint(1, min(n, 6)); b = rng.randint(1, min(max(1, n // a), 6))
    dims = [a, b, max(1, n // (a * b))]
    if rng.random() < 0.3:
        dims.append(rng.randint(1, 2))
    return dims


def prod(l):
    p = 1
    for x in l:
        p *= x
    return p


def rand_sel(rng, dims):
    sel = []
    for d in dims:
        s = rng.randint(1, d); e = rng.randint(s, d)
        st = rng.choice([1, 1, 1, 2, 3, rng.randint(1, max(1, e - s + 1))])
        sel.append((s, e, st))
    return sel


def sel_count(sel):
    return prod([(e - s) // st + 1 for s, e, st in sel])


def sel_str(sel):
    return ",".join("%d:%d:%d" % t for t in sel)


def mem_for(rng, count):
    """a memory shape + selection with exactly `count` points (reshape), possibly strided / offset"""
    r = rng.random()
    if r < 0.4:
        return [count], [(1, count, 1)]
    if r < 0.6:
        off = rng.randint(0, 3); st = rng.choice([1, 2, 3])
        return [off + (count - 1) * st + 1 + rng.randint(0, 2)], [(off + 1, off + (count - 1) * st + 1, st)]
    # factor count into two extents
    for a in range(min(count, 7), 0, -1):
        if count % a == 0:
            b = count // a
            pa, pb = rng.randint(0, 2), rng.randint(0, 2)
            if rng.random() < 0.5 and a > 1 and b > 1:
                # different strides in the two memory dimensions (a back end that mixes up which stride belongs to
                # which dimension takes the values from other memory positions)
                sa, sb = rng.choice([(2, 1), (1, 2), (3, 2), (2, 3), (1, 3)])
                return [pa + (a - 1) * sa + 1 + rng.randint(0, 1), pb + (b - 1) * sb + 1 + rng.randint(0, 1)], \
                       [(1 + pa, pa + (a - 1) * sa + 1, sa), (1 + pb, pb + (b - 1) * sb + 1, sb)]
            return [a + pa, b + pb], [(1 + pa, a + pa, 1), (1, b, 1)]
    return [count], [(1, count, 1)]


class Mirror:
    def __init__(self):
        self.nodes = {0: dict(parent=-1, name=b"", dt="MT", dims=[], written=False)}
        self.next = 1

    def alive(self):
        return list(self.nodes)

    def kids(self, u):
        return [k for k, v in self.nodes.items() if v["parent"] == u]

    def subtree(self, u):
        out = [u]
        for k in self.kids(u):
            out += self.subtree(k)
        return out

    def depth(self, u):
        d = 0
        while u != 0:
            u = self.nodes[u]["parent"]; d += 1
        return d

    def path(self, u):
        segs = []
        while u != 0:
            segs.append(self.nodes[u]["name"]); u = self.nodes[u]["parent"]
        return b"/" + b"/".join(reversed(segs))


# Triggers of genuine defects that are listed as known (KNOWN_FINDINGS.txt) are kept out of the random histories --
# everything after them in a history would be tainted -- and run as fixed witnesses instead (WITNESSES, used by C02):
# the finding is reported while its witness still fails, and the trigger returns to the histories by itself once the
# key is no longer listed.
KEY_DESC_MOVE = "move-under-own-descendant-accepted"
KEY_LONG_LOOKUP = "adf-lookup-name-longer-than-32-matches-32-char-child"
WITNESSES = {
    KEY_DESC_MOVE: ["file 1 W1.cgns BE w", "create 1 0 1 41", "create 1 1 2 42", "move 1 0 1 2", "nchild 1 0"],
    KEY_LONG_LOOKUP: ["file 1 W2.cgns BE w", "create 1 0 1 " + "61" * 32, "lookup 1 0 " + "61" * 33],
}


def known_avoid():
    out = set()
    try:
        for l in open(os.path.join(os.path.dirname(os.path.dirname(os.path.abspath(__file__))), "KNOWN_FINDINGS.txt")):
            for k in (KEY_DESC_MOVE, KEY_LONG_LOOKUP):
                if l.startswith("known:") and ("key=" + k + " ") in l:
                    out.add(k)
    except OSError:
        pass
    return out


def gen_history(rng, nops, files=(1,), backend="BE", big=False, wide=False, paths=None, avoid=None):
    """one history over the given file numbers (all opened 'w' first); returns list of script lines"""
    avoid = known_avoid() if avoid is None else avoid
    paths = paths or {f: "F%d.cgns" % f for f in files}
    lines, M = [], {}
    for f in files:
        lines.append("file %d %s %s w" % (f, paths[f], backend))
        M[f] = Mirror()
    mode = {f: "w" for f in files}
    for i in range(nops):
        f = rng.choice(files)
        m = M[f]
        if wide and i % 12 == 11 and mode[f] != "r":
            # directed (wide parents): a child far behind in a parent whose child table spans several disk blocks is
            # listed in a small window, renamed, and the same window and its neighbours are listed again at once --
            # what a cache holds for an entry of the later blocks must follow the rename
            par = max(m.alive(), key=lambda x: len(m.kids(x)))
            ks = m.kids(par)
            if len(ks) >= 8:
                j = rng.randint(max(0, len(ks) * 2 // 3), len(ks) - 1)
                u = ks[j]
                lo = max(1, j + 1 - rng.randint(0, 2)); cnt = rng.randint(2, 4)
                lines.append("names %d %d %d %d" % (f, par, lo, cnt))
                nm = rand_name(rng, {m.nodes[k]["name"] for k in ks})
                lines.append("rename %d %d %d %s" % (f, par, u, hx(nm)))
                m.nodes[u]["name"] = nm
                lines.append("names %d %d %d %d" % (f, par, lo, cnt))
                lines.append("names %d %d %d %d" % (f, par, max(1, lo - 2), cnt + 3))
                lines.append("lookup %d %d %s" % (f, par, hx(nm)))
                continue
        alive = m.alive()
        nonroot = [u for u in alive if u != 0]
        data_nodes = [u for u in nonroot if m.nodes[u]["dt"] != "MT"]
        written = [u for u in data_nodes if m.nodes[u]["written"]]
        r = rng.random()
        ro = mode[f] == "r"
        if ro and r < 0.55:
            r = 0.56 + rng.random() * 0.44          # mostly queries on a read-only file
        if r < 0.16 or len(nonroot) < 3 or (wide and r < 0.4):
            p = rng.choice(alive) if not wide else rng.choice([0] + nonroot[:3])
            if m.depth(p) > 6:
                p = 0
            u = m.next; m.next += 1
            nm = rand_name(rng, {m.nodes[k]["name"] for k in m.kids(p)})
            lines.append("create %d %d %d %s" % (f, p, u, hx(nm)))
            if not ro:
                m.nodes[u] = dict(parent=p, name=nm, dt="MT", dims=[], written=False)
        elif r < 0.21:
            u = rng.choice(nonroot)
            lines.append("label %d %d %s" % (f, u, hx(bytes(rng.choice(NAME_ALPHA.strip()) for _ in range(rng.choice([0, 1, 8, 31, 32]))))))
        elif r < 0.33:
            u = rng.choice(nonroot)
            ty = rng.choice(list(TYPES)); dims = pick_dims(rng, TYPES[ty], big and rng.random() < 0.2)
            if prod(dims) * TYPES[ty] > 400000:
                dims = [1000]
            lines.append("dims %d %d %s %s" % (f, u, ty, ",".join(map(str, dims))))
            if not ro:
                m.nodes[u].update(dt=ty, dims=dims, written=False)
            if rng.random() < 0.85:
                lines.append("wall %d %d %s" % (f, u, rng.randbytes(prod(dims) * TYPES[ty]).hex()))
                if not ro:
                    m.nodes[u]["written"] = True
        elif r < 0.38 and data_nodes:
            u = rng.choice(data_nodes); n = m.nodes[u]; tot = prod(n["dims"])
            b = rng.randint(1, tot); e = rng.randint(b, min(tot, b + rng.choice([0, 1, 10, 600, 5000])))
            lines.append("wblock %d %d %d %d %s" % (f, u, b, e, rng.randbytes((e - b + 1) * TYPES[n["dt"]]).hex()))
            if not ro:
                n["written"] = True
        elif r < 0.45 and data_nodes:
            u = rng.choice(data_nodes); n = m.nodes[u]
            sel = rand_sel(rng, n["dims"]); cnt = sel_count(sel)
            # the extracted model addresses each selected element in a byte LIST: its cost is elements x node bytes
            if cnt > min(1500, max(8, 30000000 // max(1, prod(n["dims"]) * TYPES[n["dt"]]))):
                sel = [(1, min(d, 5), 1) for d in n["dims"]]; cnt = sel_count(sel)
                if cnt > 8 and prod(n["dims"]) * TYPES[n["dt"]] > 3000000:
                    sel = [(1, min(d, 2), 1) for d in n["dims"]]; cnt = sel_count(sel)
            md, ms = mem_for(rng, cnt)
            lines.append("wsel %d %d %s %s %s %s" % (f, u, sel_str(sel), ",".join(map(str, md)), sel_str(ms),
                                                     rng.randbytes(prod(md) * TYPES[n["dt"]]).hex()))
            if not ro:
                n["written"] = True
        elif r < 0.49 and written and not ro:
            # directed: grow a written array keeping type and rank (ADF then keeps the data and appends a data chunk),
            # fill it, and address the elements on both sides of the old end -- the first element of the new chunk --
            # with strided, block and full transfers
            u = rng.choice(written); n = m.nodes[u]; ty = n["dt"]; w = TYPES[ty]
            old_tot = prod(n["dims"])
            if old_tot * w <= 120000:
                nd = list(n["dims"]); nd[-1] += rng.choice([1, 2, 7, max(1, nd[-1] // 2), nd[-1]])
                tot = prod(nd)
                lines.append("dims %d %d %s %s" % (f, u, ty, ",".join(map(str, nd))))
                lines.append("wall %d %d %s" % (f, u, rng.randbytes(tot * w).hex()))
                n.update(dims=nd, written=True)
                lines.append("rall %d %d" % (f, u))
                if len(nd) == 1:
                    for _ in range(rng.randint(1, 3)):
                        st = rng.choice([1, 1, 2, 3])
                        k0 = rng.randint(0, 3)                       # element old_tot + 1 is hit when k0 % st == 0 ...
                        s0 = max(1, old_tot + 1 - k0 * st)
                        e0 = min(tot, old_tot + 1 + rng.randint(0, 4) * st)
                        e0 = s0 + ((e0 - s0) // st) * st
                        cnt = (e0 - s0) // st + 1
                        md, ms = mem_for(rng, cnt)
                        lines.append("wsel %d %d %s %s %s %s" % (f, u, sel_str([(s0, e0, st)]), ",".join(map(str, md)), sel_str(ms),
                                                                 rng.randbytes(prod(md) * w).hex()))
                        lines.append("rsel %d %d %s %d %s %s" % (f, u, sel_str([(max(1, old_tot - 2), min(tot, old_tot + 4), 1)]),
                                                                 min(tot, old_tot + 4) - max(1, old_tot - 2) + 1,
                                                                 "1:%d:1" % (min(tot, old_tot + 4) - max(1, old_tot - 2) + 1),
                                                                 (b"\xee" * ((min(tot, old_tot + 4) - max(1, old_tot - 2) + 1) * w)).hex()))
                b = max(1, old_tot - rng.randint(0, 2)); e = min(tot, old_tot + 1 + rng.randint(0, 3))
                lines.append("wblock %d %d %d %d %s" % (f, u, b, e, rng.randbytes((e - b + 1) * w).hex()))
                lines.append("rblock %d %d %d %d" % (f, u, max(1, old_tot - 1), min(tot, old_tot + 2)))
                lines.append("rall %d %d" % (f, u))
        elif r < 0.53 and written:
            lines.append("rall %d %d" % (f, rng.choice(written)))
        elif r < 0.57 and written:
            u = rng.choice(written); tot = prod(m.nodes[u]["dims"])
            b = rng.randint(1, tot); e = rng.randint(b, min(tot, b + rng.choice([0, 3, 700])))
            lines.append("rblock %d %d %d %d" % (f, u, b, e))
        elif r < 0.64 and written:
            u = rng.choice(written); n = m.nodes[u]
            sel = rand_sel(rng, n["dims"]); cnt = sel_count(sel)
            # the extracted model addresses each selected element in a byte LIST: its cost is elements x node bytes
            if cnt > min(1500, max(8, 30000000 // max(1, prod(n["dims"]) * TYPES[n["dt"]]))):
                sel = [(1, min(d, 5), 1) for d in n["dims"]]; cnt = sel_count(sel)
                if cnt > 8 and prod(n["dims"]) * TYPES[n["dt"]] > 3000000:
                    sel = [(1, min(d, 2), 1) for d in n["dims"]]; cnt = sel_count(sel)
            md, ms = mem_for(rng, cnt)
            lines.append("rsel %d %d %s %s %s %s" % (f, u, sel_str(sel), ",".join(map(str, md)), sel_str(ms),
                                                     (b"\xee" * (prod(md) * TYPES[n["dt"]])).hex()))
        elif r < 0.68:
            lines.append("nchild %d %d" % (f, rng.choice(alive)))
        elif r < 0.74:
            u = rng.choice(alive); k = len(m.kids(u))
            s = rng.randint(1, max(1, k)); n = rng.choice([1, 1, max(1, k), k + 2, rng.randint(1, k + 1)])
            if rng.random() < 0.15:
                s = k + rng.randint(1, 3)          # a window that starts beyond the last child: no name, on both back ends
            lines.append("names %d %d %d %d" % (f, u, s, n))
        elif r < 0.80:
            u = rng.choice(nonroot)
            if rng.random() < 0.5:
                lines.append("lookup %d 0 %s" % (f, hx(m.path(u))))
            else:
                p = m.nodes[u]["parent"]
                lines.append("lookup %d %d %s" % (f, p, hx(m.nodes[u]["name"])))
        elif r < 0.87:
            u = rng.choice(nonroot)
            lines.append("info %d %d %d" % (f, u, rng.choice([0, 1, 2, 3, 4])))
        elif r < 0.90:
            u = rng.choice(nonroot); p = m.nodes[u]["parent"]
            nm = rand_name(rng, {m.nodes[k]["name"] for k in m.kids(p)})
            lines.append("rename %d %d %d %s" % (f, p, u, hx(nm)))
            if not ro:
                m.nodes[u]["name"] = nm
        elif r < 0.925:
            u = rng.choice(nonroot); p = m.nodes[u]["parent"]
            cands = [x for x in alive if x not in m.subtree(u) and x != p and
                     m.nodes[u]["name"] not in {m.nodes[k]["name"] for k in m.kids(x)} and m.depth(x) < 6]
            if cands:
                np_ = rng.choice(cands)
                lines.append("move %d %d %d %d" % (f, p, u, np_))
                if not ro:
                    m.nodes[u]["parent"] = np_
        elif r < 0.955:
            u = rng.choice(nonroot); p = m.nodes[u]["parent"]
            if rng.random() < 0.5:
                # prefer a childless node that has siblings behind it: the entries behind it move up in the parent's table
                c2 = [x for x in nonroot if not m.kids(x) and m.kids(m.nodes[x]["parent"])[-1] != x]
                if c2:
                    u = rng.choice(c2); p = m.nodes[u]["parent"]
            listed = rng.random() < 0.7
            if listed:                               # the parent is listed before ... (whatever is cached is cached now)
                lines.append("names %d %d 1 %d" % (f, p, len(m.kids(p)) + 1))
            lines.append("delete %d %d %d" % (f, p, u))
            if not ro:
                for k in m.subtree(u):
                    del m.nodes[k]
            if listed:                               # ... and again in the same session, by count, names and lookups
                lines.append("nchild %d %d" % (f, p))
                lines.append("names %d %d 1 %d" % (f, p, len(m.kids(p)) + 1))
                for k in m.kids(p)[-4:]:
                    lines.append("lookup %d %d %s" % (f, p, hx(m.nodes[k]["name"])))
        elif r < 0.975:
            md = rng.choice(["m", "m", "r"])
            lines.append("reopen %d %s" % (f, md)); mode[f] = md
        else:
            # the malformed stream: duplicate / empty / over-long / slashed names, unknown handles, bad ranges
            k = rng.randint(0, 11)
            if k == 7 and len(nonroot) > 2:
                # a move onto a name the new parent already has: refused, nothing changes
                pairs = [(u, v) for u in nonroot for v in nonroot if u != v and m.nodes[u]["name"] == m.nodes[v]["name"]
                         and m.nodes[u]["parent"] != m.nodes[v]["parent"] and m.nodes[v]["parent"] not in m.subtree(u)]
                if not pairs:
                    # make one: a child of another parent with the same name as u, then try to move u there
                    u = rng.choice(nonroot); others = [x for x in alive if x not in m.subtree(u) and x != m.nodes[u]["parent"] and m.depth(x) < 6 and
                                                       m.nodes[u]["name"] not in {m.nodes[c]["name"] for c in m.kids(x)}]
                    if others and not ro:
                        x = rng.choice(others); w = m.next; m.next += 1
                        lines.append("create %d %d %d %s" % (f, x, w, hx(m.nodes[u]["name"])))
                        m.nodes[w] = dict(parent=x, name=m.nodes[u]["name"], dt="MT", dims=[], written=False)
                        pairs = [(u, w)]
                if pairs:
                    u, v = rng.choice(pairs); np_ = m.nodes[v]["parent"]
                    lines.append("move %d %d %d %d" % (f, m.nodes[u]["parent"], u, np_))
                    lines.append("nchild %d %d" % (f, np_)); lines.append("names %d %d 1 %d" % (f, np_, len(m.kids(np_)) + 2))
            elif k == 8 and nonroot and KEY_DESC_MOVE not in avoid:
                # a move of a node under itself or under one of its descendants: refused, nothing changes
                withkids = [u for u in nonroot if m.kids(u)]
                u = rng.choice(withkids or nonroot)
                np_ = rng.choice(m.subtree(u))
                lines.append("move %d %d %d %d" % (f, m.nodes[u]["parent"], u, np_))
                lines.append("nchild %d %d" % (f, m.nodes[u]["parent"])); lines.append("lookup %d 0 %s" % (f, hx(m.path(u))))
            elif k == 9 and nonroot and KEY_LONG_LOOKUP not in avoid:
                # a name longer than 32 characters that extends an existing child's name does not find that child
                u = rng.choice(nonroot); nm = m.nodes[u]["name"]
                longer = (nm + b"x" * 33)[:33]
                lines.append("lookup %d %d %s" % (f, m.nodes[u]["parent"], hx(longer)))
                lines.append("lookup %d 0 %s" % (f, hx(m.path(m.nodes[u]["parent"]).rstrip(b"/") + b"/" + longer)))
            elif k == 10 and not ro:
                # names of the maximum length: a 32-character child and its 31-character prefix are different names --
                # the prefix is not found while it does not exist, can be created beside it, and each then finds its own node
                p = rng.choice(alive) if m.depth(rng.choice(alive)) < 6 else 0
                taken = {m.nodes[c]["name"] for c in m.kids(p)}
                full = bytes(rng.choice(NAME_ALPHA.strip()) for _ in range(32))
                if full not in taken and full[:31] not in taken:
                    u = m.next; m.next += 1
                    lines.append("create %d %d %d %s" % (f, p, u, hx(full)))
                    m.nodes[u] = dict(parent=p, name=full, dt="MT", dims=[], written=False)
                    lines.append("lookup %d %d %s" % (f, p, hx(full[:31])))
                    w = m.next; m.next += 1
                    lines.append("create %d %d %d %s" % (f, p, w, hx(full[:31])))
                    m.nodes[w] = dict(parent=p, name=full[:31], dt="MT", dims=[], written=False)
                    lines.append("label %d %d %s" % (f, w, hx(b"Short")))
                    lines.append("lookup %d %d %s" % (f, p, hx(full[:31])))
                    lines.append("lookup %d %d %s" % (f, p, hx(full)))
            elif k == 11 and nonroot and not ro:
                # delete / rename / move with a parent that is not the node's parent: refused, nothing changes -- also when the
                # wrong parent has a child of the node's name (the call must not reach that child either)
                u = rng.choice(nonroot); nm = m.nodes[u]["name"]
                cands = [x for x in alive if x != m.nodes[u]["parent"] and x not in m.subtree(u) and m.depth(x) < 6]
                if cands:
                    same = [x for x in cands if nm in {m.nodes[c]["name"] for c in m.kids(x)}]
                    if same and rng.random() < 0.7:
                        x = rng.choice(same)
                    else:
                        x = rng.choice(cands)
                        if rng.random() < 0.5 and nm not in {m.nodes[c]["name"] for c in m.kids(x)}:
                            w = m.next; m.next += 1
                            lines.append("create %d %d %d %s" % (f, x, w, hx(nm)))
                            m.nodes[w] = dict(parent=x, name=nm, dt="MT", dims=[], written=False)
                    how = rng.randint(0, 2)
                    if how == 0:
                        lines.append("delete %d %d %d" % (f, x, u))
                    elif how == 1:
                        lines.append("rename %d %d %d %s" % (f, x, u, hx(b"Wrong_parent_%d" % (i % 97))))
                    else:
                        others = [y for y in alive if y not in m.subtree(u) and y != x and m.depth(y) < 6]
                        lines.append("move %d %d %d %d" % (f, x, u, rng.choice(others) if others else 0))
                    for q in (x, m.nodes[u]["parent"]):
                        lines.append("nchild %d %d" % (f, q)); lines.append("names %d %d 1 %d" % (f, q, len(m.kids(q)) + 2))
                    lines.append("lookup %d 0 %s" % (f, hx(m.path(u))))
            elif k == 0 and nonroot:
                u = rng.choice(nonroot); p = m.nodes[u]["parent"]
                lines.append("create %d %d %d %s" % (f, p, 4000 + i % 90, hx(m.nodes[u]["name"])))
            elif k == 1:
                lines.append("create %d 0 %d %s" % (f, 4000 + i % 90, hx(b"x" * 33)))
            elif k == 2:
                lines.append("create %d 0 %d %s" % (f, 4000 + i % 90, hx(b"a/b")))
            elif k == 3:
                lines.append("rall %d %d" % (f, 3999))
            elif k == 4 and written:
                u = rng.choice(written); tot = prod(m.nodes[u]["dims"])
                lines.append("rblock %d %d %d %d" % (f, u, tot, tot + 1))
            elif k == 5 and nonroot:
                lines.append("lookup %d 0 %s" % (f, hx(b"/no/such/node")))
            elif k == 6 and len(nonroot) > 1:
                u, v = rng.sample(nonroot, 2)
                if m.nodes[u]["parent"] == m.nodes[v]["parent"]:
                    lines.append("rename %d %d %d %s" % (f, m.nodes[u]["parent"], u, hx(m.nodes[v]["name"])))
    # final sweep: close + reopen read-only, then read everything back
    for f in files:
        lines.append("reopen %d r" % f)
        m = M[f]
        for u in m.alive():
            lines.append("nchild %d %d" % (f, u))
            lines.append("names %d %d 1 %d" % (f, u, len(m.kids(u)) + 1))
            if u != 0:
                for w in (0, 1, 2, 3):
                    lines.append("info %d %d %d" % (f, u, w))
                if m.nodes[u]["dt"] != "MT" and m.nodes[u]["written"]:
                    lines.append("rall %d %d" % (f, u))
        lines.append("closef %d" % f)
    return lines


def gen_wide_rename(rng, backend="BE", path="F1.cgns"):
    """directed history: ONE parent with 95..140 children (its child table spans more than one 4096-byte disk block and more
    entries than the 50-entry cache holds); children at every position -- in particular behind the first block -- are listed
    in a small window, renamed, listed again in that window and in overlapping ones, looked up by the new and by the old
    name; at the end everything is read back after a reopen"""
    lines = ["file 1 %s %s w" % (path, backend), "create 1 0 1 %s" % hx(b"Parent")]
    n = rng.randint(95, 140)
    names = {}
    for k in range(n):
        u = 2 + k
        nm = rand_name(rng, set(names.values()))
        names[u] = nm
        lines.append("create 1 1 %d %s" % (u, hx(nm)))
    order = list(range(2, 2 + n))
    picks = [rng.randint(0, 5), rng.randint(40, 60)] + [rng.randint(86, n - 1) for _ in range(6)] + [n - 1]
    for j in picks:
        u = order[j]
        lo = max(1, j + 1 - rng.randint(0, 2)); cnt = rng.randint(2, 4)
        lines.append("names 1 1 %d %d" % (lo, cnt))
        old = names[u]
        nm = rand_name(rng, set(names.values()))
        lines.append("rename 1 1 %d %s" % (u, hx(nm)))
        names[u] = nm
        lines.append("names 1 1 %d %d" % (lo, cnt))
        lines.append("names 1 1 %d %d" % (max(1, lo - 2), cnt + 3))
        lines.append("lookup 1 1 %s" % hx(nm))
        lines.append("lookup 1 1 %s" % hx(old))
        lines.append("info 1 %d 0" % u)
    lines.append("reopen 1 r")
    lines.append("nchild 1 1")
    lines.append("names 1 1 1 %d" % (n + 1))
    lines.append("closef 1")
    return lines


def gen_wrong_parent(rng, backend="BE", path="F1.cgns"):
    """directed history: delete / rename / move of a node with a parent argument that is NOT its parent -- a stranger, a
    node that has a child of the same name, the node's grandparent, one of its own children.  Every such call is refused and
    nothing changes: both parents and the node are listed after each attempt and after a reopen"""
    lines = ["file 1 %s %s w" % (path, backend)]
    names, parent, nxt = {}, {}, 1
    def mk(p, nm=None):
        nonlocal nxt
        u = nxt; nxt += 1
        nm = nm or rand_name(rng, {names[c] for c in names if parent[c] == p})
        names[u] = nm; parent[u] = p
        lines.append("create 1 %d %d %s" % (p, u, hx(nm)))
        return u
    tops = [mk(0) for _ in range(rng.randint(3, 5))]
    mids = [mk(rng.choice(tops)) for _ in range(rng.randint(4, 8))]
    leaves = [mk(rng.choice(mids)) for _ in range(rng.randint(3, 6))]
    def path_of(u):
        segs = []
        while u != 0:
            segs.append(names[u]); u = parent[u]
        return b"/" + b"/".join(reversed(segs))
    def kids(p):
        return [c for c in names if parent[c] == p]
    def look(ps, u):
        for q in ps:
            lines.append("nchild 1 %d" % q); lines.append("names 1 %d 1 %d" % (q, len(kids(q)) + 2))
        lines.append("lookup 1 0 %s" % hx(path_of(u)))
    for rnd in range(rng.randint(6, 10)):
        u = rng.choice(mids + leaves)
        kind = rng.randint(0, 3)
        if kind == 0:      # a stranger that has a child of the same name
            cands = [x for x in tops + mids if x != parent[u] and x != u and parent.get(x) != u and
                     names[u] not in {names[c] for c in kids(x)}]
            if not cands:
                continue
            x = rng.choice(cands); w = mk(x, names[u])
            lines.append("label 1 %d %s" % (w, hx(b"Other_t")))
        elif kind == 1:    # a stranger without such a child
            cands = [x for x in tops + mids if x != parent[u] and x != u and parent.get(x) != u]
            x = rng.choice(cands)
        elif kind == 2:    # the grandparent (or the root for a child of a top node's child)
            x = parent[parent[u]] if parent[u] != 0 else 0
            if x == parent[u]:
                continue
        else:              # one of its own children
            ks = kids(u)
            if not ks:
                continue
            x = rng.choice(ks)
        how = rng.randint(0, 2)
        if how == 0:
            lines.append("delete 1 %d %d" % (x, u))
        elif how == 1:
            lines.append("rename 1 %d %d %s" % (x, u, hx(b"Wrong_parent_%d" % rnd)))
        else:
            others = [y for y in [0] + tops if y != x and y != parent[u]]
            lines.append("move 1 %d %d %d" % (x, u, rng.choice(others)))
        look([x, parent[u]] + ([0] if how == 2 else []), u)
    lines.append("reopen 1 r")
    for q in [0] + tops + mids:
        lines.append("nchild 1 %d" % q); lines.append("names 1 %d 1 %d" % (q, len(kids(q)) + 2))
    for u in mids + leaves:
        lines.append("lookup 1 0 %s" % hx(path_of(u)))
    lines.append("closef 1")
    return lines


def lines_match(model, impl):
    """model line vs implementation line; '??' bytes in model data are unspecified (never written)"""
    if model == impl:
        return True
    if model is None or impl is None:
        return False
    if model.startswith("ok d:") and impl.startswith("ok d:") and len(model) == len(impl) and "?" in model:
        return all(a == b or a == "?" for a, b in zip(model, impl))
    if model.startswith("ok d:") and impl == "err" and set(model[5:]) == {"?"}:
        return True          # a node that was dimensioned and never written: reading it is unspecified (ADF refuses)
    return False


def compare(model_lines, impl_lines):
    n = max(len(model_lines), len(impl_lines))
    for i in range(n):
        a = model_lines[i] if i < len(model_lines) else None
        b = impl_lines[i] if i < len(impl_lines) else None
        if not lines_match(a, b):
            return i, a, b
    return None


def instantiate(lines, backend, workdir, tag):
    """replace the backend placeholder and put the files into workdir"""
    out = []
    for l in lines:
        t = l.split(" ")
        if t[0] == "file":
            t[2] = os.path.join(workdir, "%s_%s_%s" % (tag, backend, os.path.basename(t[2])))
            t[3] = backend
        out.append(" ".join(t))
    return out


def cleanup(lines):
    for l in lines:
        t = l.split(" ")
        if t[0] == "file" and os.path.exists(t[2]):
            os.unlink(t[2])


def short(l, n=100):
    return l if l is None or len(l) <= n else l[:n] + "...(%d chars)" % len(l)


# ------------------------------------------------------------------ running a history three ways
import vlib

LIBHDF5_KEY = "hdf5-lib-name-replace-overflow"


def run_three(history, workdir, tag, exe, timeout=180):
    """-> {backend: dict(lines, outcome, stack, model)} for adf and hdf5 (the model is run with that back end's
    child-order policy)"""
    out = {}
    for be in ("adf", "hdf5"):
        s = instantiate(history, be, workdir, tag)
        text = "\n".join(s) + "\n"
        il, outcome, stack = vlib.run_impl(exe, text, timeout=timeout, want_stack=True)
        if os.environ.get("NODEDB_DUMP"):
            open(os.path.join(os.environ["NODEDB_DUMP"], "%s_%s.script" % (tag, be)), "w").write(text)
        ml = vlib.run_model("c02", text)
        cleanup(s)
        out[be] = dict(lines=il, outcome=outcome, stack=stack, model=ml, script=s)
    return out


def is_libhdf5_name_replace(res):
    return res["outcome"].startswith("asan:") and "H5G_name_replace" in res["stack"]


def refinement_failure(res):
    """None, or a description of where this back end stops behaving like the ideal tree"""
    if res["outcome"] != "ok":
        return {"outcome": res["outcome"], "stack": res["stack"], "after_line": len(res["lines"])}
    d = compare(res["model"], res["lines"])
    if d:
        return {"line": d[0], "op": short(res["script"][d[0]], 160) if d[0] < len(res["script"]) else None,
                "ideal_tree": short(d[1], 160), "implementation": short(d[2], 160)}
    return None


def canon_for_equivalence(script, lines, mask):
    """canonical view for ADF-vs-HDF5 comparison: child name lists as sorted sets (the back ends order children
    differently after a rename), bytes the ideal tree leaves unspecified blanked out, partial name windows dropped"""
    out = []
    for i, l in enumerate(lines):
        op = script[i].split(" ") if i < len(script) else [""]
        m = mask[i] if i < len(mask) else None
        if l.startswith("ok n:"):
            # a window is a complete child list only if it starts at 1 and returned fewer names than it asked for;
            # any other window depends on the sibling ORDER, which the back ends may choose differently after a rename
            got = 0 if l[5:] == "-" else len(l[5:].split(","))
            if op[0] == "names" and (op[3] != "1" or got >= int(op[4])):
                out.append("ok n:<window>")
            else:
                out.append("ok n:" + ",".join(sorted(l[5:].split(","))))
        elif l.startswith("ok d:") and m and m.startswith("ok d:") and "?" in m and len(m) == len(l):
            out.append("".join("?" if a == "?" else b for a, b in zip(m, l)))
        elif l == "err" and m and m.startswith("ok d:") and set(m[5:]) == {"?"}:
            out.append(m)
        else:
            out.append(l)
    return out


def equivalence_failure(r):
    """None, or where ADF and HDF5 differ observably on the same program"""
    a, h = r["adf"], r["hdf5"]
    if a["outcome"] != "ok" or h["outcome"] != "ok":
        if a["outcome"] == h["outcome"]:
            return None
        return {"adf_outcome": a["outcome"], "hdf5_outcome": h["outcome"], "stack": a["stack"] or h["stack"]}
    ca = canon_for_equivalence(a["script"], a["lines"], a["model"])
    ch = canon_for_equivalence(h["script"], h["lines"], h["model"])
    # where the ideal tree itself lists children in back-end order, names windows were canonicalised above
    for i in range(max(len(ca), len(ch))):
        x = ca[i] if i < len(ca) else None
        y = ch[i] if i < len(ch) else None
        if x != y and not (x and y and x.startswith("ok d:") and y.startswith("ok d:") and len(x) == len(y)
                           and all(p == q or p == "?" or q == "?" for p, q in zip(x, y))):
            return {"line": i, "op": short(a["script"][i], 160) if i < len(a["script"]) else None,
                    "adf": short(x, 160), "hdf5": short(y, 160)}
    return None
