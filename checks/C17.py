"""C17 -- closing files releases every descriptor, HDF5 id and allocation.   (PARTIAL by nature; see notes/C17.md)

Proof side : coq/Properties_C17.v over coq/Refcount.v (ADF file table: ADFI_open_file / ADFI_get_file_index_from_name /
             ADFI_link_add / the link step of ADFI_chase_link / ADFI_close_file as its call stack; ADF_Database_Open / Close;
             cgio_open_file / cgio_close_file; cg_open / cg_close), with a ledger of open descriptors:
             C17_refcount_balanced / C17_close_drops_one_reference / C17_close_terminates / C17_session_invariant /
             C17_handles_released / C17_failing_open_releases for the current code (Cur / MCur), C17_refcount_balanced_cyclic_refuted
             for what is still false of it (link cycles: known finding), and the ..._old_refuted theorems about the
             transcription of the code before 909ac4d / def473d.
Tie C      : harness/c17_io.c drives cgio_open_file / link traversals / cgio_close_file of the library rebuilt from the
             working tree with the script the extracted model runs; after EVERY operation the status, the cgio table, the
             ADF file table and the number of descriptors of the process (/proc/self/fd minus the baseline) must coincide
             with the model (ledger size).  harness/c17_mll.c: the MLL table after every cg_open / cg_close.
Oracle     : (model-free, both back ends, cgio level and MLL level; TESTED, not proved)
             - no sanitizer report, signal or hang;
             - a call that returns an error leaves the descriptor count as it was (for a failing open also the HDF5 id count);
             - when the user holds no file any more: no descriptor beyond the baseline, H5Fget_obj_count(ALL, ALL) = 0, cgio
               and MLL tables released;
             - LeakSanitizer finds no unreachable block allocated under a library frame;
             - the session repeated N times in one process: bytes allocated after cycle N = after the warm-up cycle (slope 0).
Variant    : the model variants Cur / MCur (ADFI_close_file since /repo 909ac4d, cg_open since def473d) are the ones run
             against the library.  The witnesses of the repaired defects live in corpus/C17/*.json: they run FIRST and must pass;
             a regression re-fires VIOLATION under the original key.
"""
import base64, concurrent.futures, glob, hashlib, json, os, re, shutil
import vlib

CHECKER = "make -C coq RefcountProofs.vo (coqc 8.16.1 kernel) ; coqc Properties_C17.v (Print Assumptions)"
WORKERS = 4
ASAN = "detect_leaks=1:leak_check_at_exit=0:abort_on_error=0:exitcode=99:allocator_may_return_null=1"
ALLOC_WRAPPERS = {"cgi_malloc", "cgi_realloc", "cgi_calloc", "malloc", "calloc", "realloc", "strdup"}

# finding keys (canonical classes; see notes/C17.md "Defects")
K_CYCLE = "crash:adf-close-link-cycle"                 # ADFI_close_file recurses for ever on files linking to each other
K_STRANDED = "handle:adf-close-error-strands-cgio-slot"   # close of a live handle reports ADF_FILE_NOT_OPENED, slot never released
K_H5LINK = "fd:hdf5-linked-file-left-open"             # ids of nodes inside a linked-to HDF5 file survive ADFH_Database_Close
K_OPENFAIL = "fd:cg_open-fails-after-cgio-open"        # cg_open returns CG_ERROR and keeps the cgio file and the table entry
K_ADFCYCLE_LEAK = "fd:adf-link-cycle-keeps-files-open"  # (repaired close only) reference-count cycle
K_SAVEAS = "fd:cg_save_as-fails-after-cgio-open"       # cg_save_as returns CG_ERROR and keeps the output file open
K_FAILIDS = "h5id:failed-read-without-type-keeps-ids"  # ADFH_Read_*_Data: m_data_type == NULL returns with the dataset and group ids open
K_KIDSIDS = "h5id:children-ids-nothing-found-keeps-group"  # ADFH_Children_IDs: nothing in the range asked for -> returns without H5Gclose
K_ARRAYREAD = "leak:cg_array_read_as"                     # cg_array_read_as: the conversion buffer is lost when the read of the node fails
K_H5TWICE = "fd:hdf5-same-file-opened-twice"           # ADFH get_file_id picks the other handle's file id: the second close fails (95)


# ----------------------------------------------------------------------------------------------- running harnesses
def run_h(exe, script, args, work, tag, timeout=180):
    """-> (lines, outcome, sanitizer report text).  Reports go to files (log_path) so that LeakSanitizer's recoverable
    report of a process that exits normally is not lost."""
    logp = os.path.join(work, tag + ".san")
    for f in glob.glob(logp + ".*"):
        os.unlink(f)
    lines, oc = vlib.run_impl(exe, script, args=args, timeout=timeout,
                              env={"ASAN_OPTIONS": ASAN + ":log_path=" + logp})
    rep = ""
    for f in sorted(glob.glob(logp + ".*")):
        rep += open(f, errors="replace").read()
        os.unlink(f)
    if oc.startswith("asan"):
        m = re.search(r"ERROR: AddressSanitizer: (\S+)", rep)
        st = vlib.asan_stack(rep, 4)
        oc = "asan:%s@%s" % (m.group(1) if m else "?", st[0] if st else "?")
    return lines, oc, rep


def parse_leaks(rep):
    """LeakSanitizer report -> list of dict(kind, bytes, objects, frames=[(fn, where)], alloc_fn, in_library)"""
    out = []
    for b in re.split(r"\n(?=(?:Direct|Indirect) leak of )", rep):
        m = re.match(r"(Direct|Indirect) leak of (\d+) byte\(s\) in (\d+) object", b)
        if not m:
            continue
        frames = re.findall(r"#\d+ 0x[0-9a-f]+ in (\S+) (\S+)", b)
        named = [(fn, wh) for fn, wh in frames if not fn.startswith("__")]
        alloc = next((fn for fn, wh in named if fn not in ALLOC_WRAPPERS), "?")
        lib = any(("/src/" in wh and "/harness/" not in wh) for fn, wh in named)
        harness_only = bool(named) and all("/harness/" in wh or fn == "main" or "libc" in wh for fn, wh in named[:2])
        out.append({"kind": m.group(1), "bytes": int(m.group(2)), "objects": int(m.group(3)),
                    "frames": ["%s %s" % x for x in named[:7]], "alloc_fn": alloc, "in_library": lib and not harness_only})
    return out


def fields(line):
    """'res | io .. | adf .. | fds n h5 m ..' -> dict"""
    d = {"raw": line, "res": line.split(" | ")[0]}
    for part in line.split(" | ")[1:]:
        t = part.split()
        if t[0] == "fds":
            d["fds"] = int(t[1])
            if "h5" in t:
                d["h5"] = int(t[t.index("h5") + 1])
            if "user" in t:
                d["user"] = int(t[t.index("user") + 1])
        elif t[0] == "io":
            d["io"] = part
        elif t[0] == "adf":
            d["adf"] = part
        elif t[0] == "mll":
            d["mll"] = part
    return d


# ----------------------------------------------------------------------------------------------- cgio / ADF level
IO_KINDS = ["ok", "ok", "okL", "okB", "okE", "ok", "missing", "garbage", "badhdr", "dir"]   # ok* = NATIVE / LEGACY / IEEE_BIG / IEEE_LITTLE layout
DTYPES = ["C1", "B1", "I4", "U4", "I8", "U8", "R4", "R8", "X4", "X8"]          # every data type the back ends store
# failing data calls: every cgio data entry point x every class of invalid argument (harness/c17_io.c, op "bad")
BAD_ENTRIES = ["rall", "rblock", "rdata", "wall", "wallt", "wblock", "wdata", "wdatat"]
BAD_CLASSES = ["badtype", "nulltype", "mismatch", "start0", "endbig", "startgtend", "stride0", "mstart0", "mendbig", "mstride0", "rank0", "rank2", "msmall"]
STRAND_KINDS = ["dataset", "group", "attr", "datatype"]
# refused node-level calls (harness op "badnode")
BADNODE_CALLS = ["kids_leaf", "kids_past", "names_leaf", "names_past", "getid_missing", "label_long", "name_dup", "name_long", "dims_type",
                 "dims_rank", "linksize_nolink", "getlink_nolink", "newnode_dup", "newnode_type", "move_missing"]
# (not in the family: "delete_notchild" -- ADF_Delete(parent, id) with id not a child of parent reports the error AFTER it has
#  deleted the subtree and the data of id: a refused call that destroys the world the sessions rely on; reported to C12)
NOTABLE = ("data ", "bad ", "strand ", "multi ", "badnode ")             # operations that touch no handle table (not given to the model)
MLL_DTYPES = ["Integer", "LongInteger", "RealSingle", "RealDouble", "Character", "ComplexSingle", "ComplexDouble"]


def gen_io(rng, big=False):
    """a world (files, kinds, link nodes) and a session; every handle an open may have returned is closed at the end"""
    nk = rng.randint(2, 6 if big else 5)
    kinds = [rng.choice(IO_KINDS) for _ in range(nk)]
    kinds[0] = rng.choice(["ok", "ok", "okL", "okB"])
    if rng.random() < 0.8:
        kinds[1] = rng.choice(["ok", "okL", "okE"])
    oks = [i for i, k in enumerate(kinds) if k.startswith("ok")]
    shape = rng.choice(["dag", "dag", "dag", "any", "chain"])
    links = set()
    for a in oks:
        for b in range(nk):
            if shape == "chain":
                if b == a + 1 or (rng.random() < 0.15 and b > a):
                    links.add((a, b))
            elif rng.random() < 0.55:
                if shape == "dag" and b <= a:
                    continue
                links.add((a, b))
    # some links get a twin whose stored PATH does not exist in the (existing or not) target file: "a>b!"
    dlinks = set((a, b) for (a, b) in links if rng.random() < 0.25)
    dlinks |= set((a, b) for a in oks for b in range(nk) if rng.random() < 0.08)
    if rng.random() < 0.3:
        links -= set(e for e in dlinks if rng.random() < 0.5)       # the dangling link is then the ONLY way into that file
    ops, nopen = [], 0
    for _ in range(rng.randint(4, 22 if big else 16)):
        r = rng.random()
        if r < 0.3 or nopen == 0:
            ops.append("open %d %s" % (rng.choice(oks) if rng.random() < 0.75 else rng.randrange(nk), rng.choice("rm")))
            nopen += 1
        elif r < 0.7:
            c = rng.randint(1, max(1, nopen)) if rng.random() < 0.95 else rng.randint(0, 9)
            ch, cur = [], None
            for _ in range(rng.randint(1, 4)):
                cand = [(b, False) for (a, b) in links if cur is None or a == cur] + [(b, True) for (a, b) in dlinks if cur is None or a == cur]
                if cand and rng.random() < 0.85:
                    cur, dang = rng.choice(sorted(cand))
                else:
                    cur, dang = rng.randrange(nk), rng.random() < 0.2
                ch.append("%d%s" % (cur, "!" if dang else ""))
                if dang:
                    break                                            # nothing can follow a step that fails
            ops.append("%s %d %s" % (rng.choice(["walk", "walk", "node"]), c, " ".join(ch)))
        elif r < 0.77:
            c = rng.randint(1, max(1, nopen))
            ops.append("data %d %s %d %s" % (c, rng.choice(DTYPES), rng.choice([1, 2, 7, 64]), rng.choice(["all", "block", "strided"])))
        elif r < 0.82:
            ops.append("bad %d %s %s" % (rng.randint(1, max(1, nopen)), rng.choice(BAD_ENTRIES), rng.choice(BAD_CLASSES)))
        elif r < 0.84:
            ops.append("strand %d %s" % (rng.randint(1, max(1, nopen)), rng.choice(STRAND_KINDS)))
        elif r < 0.855:
            ops.append("badnode %d %s" % (rng.randint(1, max(1, nopen)), rng.choice(BADNODE_CALLS)))
        elif r < 0.875:
            n1 = rng.choice([1, 3, 8, 60])
            ops.append("multi %d %s %d %d %d" % (rng.randint(1, max(1, nopen)), rng.choice(DTYPES), n1, n1 + rng.choice([1, 5, 200]), rng.randint(1, 3)))
        else:
            ops.append("close %d" % (rng.randint(1, max(1, nopen)) if rng.random() < 0.9 else rng.randint(0, 9)))
    world = "world %s %s" % (",".join(kinds), ",".join(["%d>%d" % e for e in sorted(links)] + ["%d>%d!" % e for e in sorted(dlinks)]) or "-")
    return world, ops


def gen_io_layout(rng):
    """directed family: a file is opened and closed while another stays open, then a file of a DIFFERENT on-disk layout is
    opened into the freed ADF_file[] entry and used (the entry must not inherit anything from its previous occupant)"""
    lay = ["ok", "okL", "okB", "okE"]
    nk = rng.randint(3, 6)
    kinds = [rng.choice(lay) for _ in range(nk)]
    kinds[1] = "okL" if rng.random() < 0.6 else kinds[1]
    links = sorted({(a, b) for a in range(nk) for b in range(nk) if a != b and rng.random() < 0.25})
    ops = ["open 0 %s" % rng.choice("rm")]
    live = [1]
    nxt = 2
    for _ in range(rng.randint(2, 6)):
        x = rng.randrange(1, nk)
        ops.append("open %d %s" % (x, rng.choice("rm")))
        c = nxt if len(live) + 1 >= nxt else min(set(range(1, nxt + 1)) - set(live))
        c = min(set(range(1, 12)) - set(live))
        live.append(c)
        tg = [b for (a, b) in links if a == x]
        if tg and rng.random() < 0.6:
            ops.append("walk %d %d" % (c, rng.choice(tg)))
        ops.append("node %d" % c) if False else None
        if rng.random() < 0.85:
            ops.append("close %d" % c); live.remove(c)
            z = rng.choice([i for i in range(1, nk) if kinds[i] != kinds[x]] or [x])
            ops.append("open %d %s" % (z, rng.choice("rm")))
            c2 = min(set(range(1, 12)) - set(live)); live.append(c2)
            tz = [b for (a, b) in links if a == z]
            ops.append("walk %d %s" % (c2, rng.choice(tz)) if tz else "data %d R8 4 all" % c2)
    world = "world %s %s" % (",".join(kinds), ",".join("%d>%d" % e for e in links) or "-")
    return world, [o for o in ops if o]


def closing_tail(ops):
    """close every cgio number a successful open can have returned (numbers are slot + 1, never above the number of opens
    + 5): the user 'closes all files'; closing an already closed number is a refused no-op"""
    n = sum(1 for o in ops if o.startswith("open")) + 1
    return ["close %d" % c for c in range(1, n + 1)]


def io_align(r):
    """model lines re-aligned with the implementation's: a data operation touches no handle table, so the state after it must
    be the model's previous state (its own answer is not modelled)"""
    il = [l.split(" h5 ")[0] for l in r["impl"] if not l.startswith("end ") and not l.startswith("cycle ")]
    ml, out, k = r["model"], [], 0
    script = [o for o in r["script"] if not o.startswith("cycle ")]
    for i, o in enumerate(script):
        if o.startswith(NOTABLE):
            prev = out[-1] if out else ""
            ans = il[i].split(" | ")[0] if i < len(il) else "data ?"
            out.append(ans + " | " + " | ".join(prev.split(" | ")[1:]))
        else:
            if k < len(ml):
                out.append(ml[k]); k += 1
                if out[-1] == "diverge":
                    break
    return il, out


def io_features(mlines):
    f = set()
    for l in mlines:
        if l == "diverge":
            f.add("diverge"); continue
        d = fields(l)
        adf = d.get("adf", "").split()
        if len(adf) >= 3 and adf[2] != "-":
            slots = adf[2].split(";")
            if any(int(s.split(":")[0]) >= 2 for s in slots):
                f.add("shared")
            if sum(1 for s in slots if s.split(":")[3] != "-") >= 2:
                f.add("multi-link")
            if len(slots) > 5:
                f.add("table-grown")
        if d["res"] in ("close 9", "close 10"):
            f.add("close-error")
        if d["res"] == "open err 0":
            f.add("failing-open")
    return f


def io_case(exe, world, ops, backend, work, tag, variant=None, cycles=1, files=None):
    """run one cgio-level session on the implementation (and the model when variant is given); files = {index: bytes} for
    the world kinds x... (supplied files)"""
    d = os.path.join(work, tag)
    shutil.rmtree(d, ignore_errors=True)
    os.makedirs(d)
    for i, data in (files or {}).items():
        open(os.path.join(d, "F%d.cgio" % int(i)), "wb").write(data)
    body = ops + closing_tail(ops)
    script = [world]
    for k in range(cycles):
        script += body + ["cycle %d" % k]
    il, oc, rep = run_h(exe, "\n".join(script) + "\n", [d, backend], work, tag)
    ml = None
    if variant:
        ml = vlib.run_model("c17", "variant %s\nfuel 20000\n%s\n" % (variant, "\n".join([world] + [o for o in body * cycles if not o.startswith(NOTABLE)])), args=["io"])
    shutil.rmtree(d, ignore_errors=True)
    return {"impl": il, "outcome": oc, "report": rep, "model": ml, "world": world, "ops": ops, "backend": backend, "script": script,
            "files": files or {}}


def cyc_in_world(world):
    """does the link graph of a 'world' line contain a cycle between files (self links included)?"""
    t = world.split()
    edges = [tuple(map(int, e.rstrip("!").split(">"))) for e in t[2].split(",")] if len(t) > 2 and t[2] != "-" else []
    nodes = sorted({x for e in edges for x in e})
    reach = {n: {b for a, b in edges if a == n} for n in nodes}
    for _ in nodes:
        for n in nodes:
            for m in list(reach[n]):
                reach[n] |= reach.get(m, set())
    return any(n in reach[n] for n in nodes)


def io_oracle(r):
    """model-free verdict on one cgio-level run -> list of (key or None, description)"""
    bad = []
    il = [l for l in r["impl"] if not l.startswith("end ")]
    if r["outcome"] != "ok":
        key = K_CYCLE if ("stack-overflow" in r["outcome"] and "ADFI_close_file" in r["outcome"]) else None
        bad.append((key, {"problem": "crash", "outcome": r["outcome"], "after_line": len(il), "report": r["report"][-600:]}))
        return bad
    prev = None
    close95 = r["backend"] == "hdf5" and any(l.startswith("close 95") for l in il)
    held, idsflag = {}, []
    for li, l in enumerate(il):
        if l.startswith("cycle "):
            t = l.split()
            fds, h5 = int(t[t.index("fds") + 1]), int(t[t.index("h5") + 1])
            if fds != 0 or h5 != 0:
                m = re.search(r"open\[(.*)\]", l)
                key = None
                if r["backend"] == "hdf5":
                    traversed = any(o.split()[0] in ("walk", "node") for o in r["ops"]) and ">" in r["world"]
                    key = K_H5TWICE if close95 else (K_H5LINK if traversed else None)
                elif r["backend"] == "adf" and cyc_in_world(r["world"]):
                    key = K_ADFCYCLE_LEAK
                bad.append((key,
                            {"problem": "descriptors or HDF5 ids left after every handle was closed", "fds": fds, "h5": h5,
                             "still_open": m.group(1) if m else "", "line": l}))
                break
            continue
        d = fields(l)
        if d["res"].startswith("worldfail") or "fds" not in d:
            raise vlib.Infra("c17_io: %s" % l)
        op = r["script"][li].split() if li < len(r["script"]) else [""]
        twice = op[0] == "open" and op[1] in held.values()       # the file is already open through another live handle
        if d["res"].startswith("open ok"):
            held[d["res"].split()[2]] = op[1]
        elif d["res"] == "close 0" and op[0] == "close":
            held.pop(op[1], None)
        if prev is not None and d["res"] == "open err 0" and (d["fds"] != prev["fds"] or d["h5"] != prev["h5"]):
            bad.append((K_H5TWICE if (r["backend"] == "hdf5" and twice) else None,
                        {"problem": "a failing open changed the descriptor / HDF5 id count", "before": prev["raw"], "after": l,
                         "op": " ".join(op)}))
            break
        if d["res"].startswith("badnode ") and "ids+" in d["res"] and not d["res"].endswith("ids+0") and op[0] == "badnode" and op[2] != "newnode_type" \
                and ("n", op[2][:4]) not in idsflag:
            # (newnode_type: cgio_new_node creates the node, stores its id through the caller's pointer and then refuses the type:
            #  known as C12 cgio_new_node:args:node-created-before-validation; the id is the caller's)
            idsflag.append(("n", op[2][:4]))
            bad.append((K_KIDSIDS if (op[2].startswith("kids_") and d["res"].startswith("badnode err")) else None,
                        {"problem": "a refused node-level call left HDF5 identifiers open", "op": " ".join(op), "answer": d["res"], "after": l}))
        if d["res"].startswith("bad ") and "ids+" in d["res"] and not d["res"].endswith("ids+0") and 1 not in idsflag:
            # the call itself (measured around it in the harness) left HDF5 identifiers open; reported once per session, and the
            # session goes on: the close must release them all the same
            idsflag.append(1)
            nulltype_read = op[0] == "bad" and op[2] in ("rall", "rblock", "rdata") and op[3] == "nulltype"
            bad.append((K_FAILIDS if (nulltype_read and d["res"].startswith("bad err")) else None,
                        {"problem": "a data call left HDF5 identifiers open", "op": " ".join(op), "answer": d["res"], "after": l}))
        if prev is not None and d["res"] == "walk err" and d["fds"] < prev["fds"]:
            bad.append((None, {"problem": "a failing traversal closed descriptors", "before": prev["raw"], "after": l}))
            break
        prev = d
    if prev is not None and not bad:
        io = prev.get("io", "").split()
        if len(io) >= 3 and (io[1] != "0" or io[2] != "0"):
            # 9 / 10 = ADF_FILE_NOT_OPENED / FILE_INDEX_OUT_OF_RANGE: a LIVE cgio slot whose ADF file is gone (an invalid or closed
            # cgio number is refused with -1 / -4 before ADF is asked)
            closes9 = [l for l in il if l.startswith("close 9 ") or l.startswith("close 10 ")]
            bad.append((K_STRANDED if (r["backend"] == "adf" and closes9) else (K_H5TWICE if close95 else None),
                        {"problem": "cgio handle table not released after every handle was closed", "io": prev["io"],
                         "close_errors": [x.split(" | ")[0] for x in il if x.startswith("close ") and not x.startswith("close 0")
                                          and not x.startswith("close -")][:4]}))
    lk = [x for x in parse_leaks(r["report"]) if x["kind"] == "Direct" and x["in_library"]]
    for x in lk[:3]:
        bad.append(("leak:" + x["alloc_fn"], {"problem": "LeakSanitizer: unreachable block allocated by the library", "leak": x}))
    hs, grows = heap_slope(il)
    if grows and len(hs) >= (12 if r["backend"] == "hdf5" else 4) and not bad:
        bad.append((None, {"problem": "heap grows from repetition to repetition of a session that closes everything",
                           "heap_at_cycles": hs[:3] + ["..."] + hs[-2:], "bytes_per_cycle": (hs[-1] - hs[-2])}))
    return bad


def h5_census(r):
    """HDF5 runs: tie of the forced-close model (Refcount.forced_close, sub-engine "h5").  The harness prints after every
    operation the number of open identifiers by kind (datatypes, datasets, attributes, groups) of the process and of the file
    of every open handle.  For every successful close of handle c:  process census after = process census before - census of c's
    file before + what the model leaves of it (nothing, by C17_forced_close_releases_every_kind).  Sessions that open a file
    a second time while it is open are left out (known: fd:hdf5-same-file-opened-twice).  -> (closes compared, [(key, desc)])"""
    def census(l):
        for part in l.split(" | ")[1:]:
            t = part.split()
            if t and t[0] == "h5k":
                g = [int(x) for x in t[1].split(",")]
                loc = {}
                for x in t[2:]:
                    c, v = x.split("=")
                    if v == "?":
                        return None
                    loc[c] = [int(y) for y in v.split(",")]
                return g, loc
        return None
    il = [l for l in r["impl"] if not l.startswith("end ")]
    rows, held, prev = [], {}, None
    for op, l in zip(r["script"], il):
        t = op.split()
        if l.startswith("cycle "):
            prev = None
            continue
        cur = census(l)
        if t[0] == "open" and l.startswith("open ok"):
            if t[1] in held.values():
                break
            held[l.split()[2]] = t[1]
        if t[0] == "close" and l.startswith("close 0 ") and prev and cur and t[1] in prev[1]:
            rows.append((op, prev, cur, t[1], l))
            held.pop(t[1], None)
        prev = cur
    if not rows:
        return 0, []
    ml = vlib.run_model("c17", "".join("close %d %d %d %d\n" % tuple(pv[1][c]) for _, pv, _, c, _ in rows), args=["h5"])
    bad = []
    for (op, pv, cu, c, l), m in zip(rows, ml):
        left = [int(x) for x in m.split()]
        want = [pv[0][k] - pv[1][c][k] + left[k] for k in range(4)]
        if want != cu[0] or left[4] != 1:
            bad.append((None, {"problem": "HDF5 identifiers by kind after a close differ from the forced-close model", "op": op,
                               "kinds": "datatypes,datasets,attributes,groups", "file_before": pv[1][c], "process_before": pv[0],
                               "process_after": cu[0], "model_process_after": want, "after": l}))
            break
    return len(rows), bad


def heap_slope(lines, warm=1):
    # warm-up: static buffers are allocated during the first repetition(s); with >= 12 cycles cycle 10 is the reference
    """heap bytes at the cycle markers -> (values, grows?)"""
    hs = []
    for l in lines:
        if l.startswith("cycle "):
            t = l.split()
            hs.append(int(t[t.index("heap") + 1]))
    if len(hs) < warm + 2:
        return hs, False
    if len(hs) >= 12:
        warm = 10
    return hs, hs[-1] != hs[warm]


# ----------------------------------------------------------------------------------------------- MLL level
SPECIAL = {10: "missing", 11: "garbage", 12: "badver", 13: "twovers", 14: "badbase", 15: "badzone", 16: "dir", 17: "h5plain", 18: "empty",
           19: "ivers", 99: "missing"}      # 99: the harness opens a name that is too long; 30..: files supplied by the driver (refused_pool)
READOFF = {17, 18}             # outcome class (refused in cgio_open_file / later) read off the table, as for supplied files
LATE = {"badver", "twovers", "badbase", "badzone", "ivers"}


def gen_mll(rng, backend, big=False):
    """-> dict(prep lines, body lines (one repetition), opens [(line index in body, outcome class)])"""
    nf = rng.choice([1, 2, 2, 3])
    files = list(range(1, nf + 1))
    n = rng.choice([2, 3])
    shape = rng.choice(["none", "dag", "dag", "dag", "chain2", "cycle"]) if nf > 1 else "none"
    body = []
    used_special = set()
    for i in files:
        body += ["open 0 %d w" % i, "base 0 Base", "zone 0 1 Zone1 %d" % n, "coord 0 1 1 CoordinateX", "sol 0 1 1 Sol1",
                 "field 0 1 1 1 Density", "desc 0 1 Info note%d" % i]
        tg = []
        if shape == "dag":
            tg = [j for j in files if j > i and rng.random() < 0.8]
        elif shape == "chain2":
            tg = [i + 1] if i + 1 in files else []
        elif shape == "cycle":
            tg = [files[(files.index(i) + 1) % nf]]
        if tg:
            body.append("zone 0 1 ZoneA %d" % n)
        for j in tg:
            if shape in ("chain2", "cycle"):
                # link to a node that is itself a link in the next file (for the last file of a chain: a plain node)
                last = (shape == "chain2" and j == files[-1])
                body.append("link 0 1 2 SolL %d %s" % (j, "/Base/Zone1/Sol1" if last else "/Base/ZoneA/SolL"))
                if last or rng.random() < 0.5:
                    body.append("link 0 1 2 GridCoordinates %d /Base/Zone1/GridCoordinates" % j)
            else:
                if not any(l.startswith("link 0 1 2 GridCoordinates") for l in body[-6:]):
                    body.append("link 0 1 2 GridCoordinates %d /Base/Zone1/GridCoordinates" % j)
                body.append("link 0 1 0 ZoneL%d %d /Base/Zone1" % (j, j))
                if rng.random() < 0.5:
                    body.append("link 0 1 2 SolL%d %d /Base/Zone1/Sol1" % (j, j))
        if rng.random() < 0.2:
            body.append("link 0 1 0 Dangling 10 /Base/Zone1")
        others = [j for j in files if j != i]
        if others and rng.random() < 0.15:                       # existing file, path that does not exist in it
            body.append("link 0 1 0 NoPath%d %d /Base/NoSuchZone" % (others[0], others[0]))
        for t in rng.sample(MLL_DTYPES, rng.randint(0, 3)):
            body.append("array 0 1 A_%s %s %d" % (t, t, rng.choice([1, 5, 33])))
        body.append("close 0")
    # read / modify / failing calls
    held = {}
    for _ in range(rng.randint(6, 26 if big else 18)):
        r = rng.random()
        free = [h for h in range(4) if h not in held]
        if (r < 0.25 or not held) and free:
            if rng.random() < 0.3:
                f = rng.choice(sorted(SPECIAL)); used_special.add(f)
            else:
                f = rng.choice(files)
            m = rng.choice("rrm")
            body.append("open %d %d %s" % (free[0], f, m))
            if f in files:
                held[free[0]] = m        # optimistic; the oracle does not depend on it
        elif r < 0.8 and held:
            h = rng.choice(sorted(held))
            Z = rng.choice([1, 1, 2, 2, 3, 9])
            body.append(rng.choice([
                "nbases %d" % h, "nzones %d 1" % h, "rzone %d 1 %d" % (h, Z), "ncoords %d 1 %d" % (h, Z),
                "rcoord %d 1 %d CoordinateX" % (h, Z), "rcoord %d 1 %d NoSuchCoord" % (h, Z), "nsols %d 1 %d" % (h, Z),
                "rfield %d 1 %d 1 Density" % (h, Z), "rfield %d 1 %d 7 Density" % (h, Z), "ndesc %d 1" % h, "rdesc %d 1 1" % h,
                "rdesc %d 1 9" % h, "gopath %d /Base/Zone1/GridCoordinates" % h, "gopath %d /Base/ZoneA/GridCoordinates" % h,
                "gopath %d /Base/Nowhere" % h, "where", "nzones %d 7" % h,
                "array %d 1 A_%s %s %d" % (h, rng.choice(MLL_DTYPES), rng.choice(MLL_DTYPES), rng.choice([2, 9])),
                "array %d 1 New_%s %s 4" % ((h,) + (rng.choice(MLL_DTYPES),) * 2),
                "fill %d 1 %s %d" % (h, rng.choice(FD_KINDS), rng.choice([1, 3, 9])), "drain %d 1 %s" % (h, rng.choice(FD_KINDS)),
                "rtypes %d 1 array A_%s" % (h, rng.choice(MLL_DTYPES)), "rtypes %d 1 coord CoordinateX" % h, "rtypes %d 1 field Density" % h,
                "drain %d 1 %s" % (h, rng.choice(FD_KINDS[:5])),
                "desc %d 1 Extra text" % h, "sol %d 1 1 SolNew" % h, "delete %d 1 Info" % h, "base %d Another" % h,
                "save %d 2%d %s %d" % (h, rng.randint(0, 1), rng.choice(["adf", "hdf5"]), rng.randint(0, 1))]))
        elif held:
            h = rng.choice(sorted(held))
            body.append("close %d" % h)
            del held[h]
        else:
            body.append("close %d" % rng.randint(0, 5))
    for h in sorted(held):
        body.append("close %d" % h)
    for h in range(4):
        body.append("close %d" % h)          # anything an optimistic guess missed; closing a closed file is refused
    prep = ["ftype " + backend] + ["prep %d %s %s" % (f, SPECIAL[f], backend) for f in sorted(used_special) if SPECIAL[f] != "missing"]
    return {"prep": prep, "body": body, "backend": backend, "shape": shape, "nfiles": nf}


def mll_case(exe, sc, work, tag, cycles):
    d = os.path.join(work, tag)
    shutil.rmtree(d, ignore_errors=True)
    os.makedirs(d)
    for i, data in (sc.get("files") or {}).items():
        open(os.path.join(d, "M%d.cgns" % int(i)), "wb").write(data)
    script = list(sc["prep"])
    for k in range(cycles):
        script += sc["body"] + ["cycle %d" % k]
    il, oc, rep = run_h(exe, "\n".join(script) + "\n", [d], work, tag, timeout=600)
    shutil.rmtree(d, ignore_errors=True)
    return {"impl": il, "outcome": oc, "report": rep, "script": script, "sc": sc, "cycles": cycles}


def mll_link_cycle(script):
    """do the link nodes written by an MLL script form a cycle between files?"""
    cur, edges = {}, []
    for o in script:
        t = o.split()
        if t[0] == "open" and t[3] == "w":
            cur[t[1]] = int(t[2])
        elif t[0] == "link" and t[1] in cur:
            edges.append((cur[t[1]], int(t[5])))
    return cyc_in_world("world x " + (",".join("%d>%d" % e for e in sorted(set(edges))) or "-"))


def mll_oracle(r):
    """model-free verdict on one MLL-level run -> list of (key or None, description).  Root causes are told apart from
    what the trace shows: a cg_open that returns an error AFTER n_open was incremented (fails behind cgio_open_file); files
    left open that only such opens touched; on HDF5, data files left open although every handle was closed, in a session
    that reads through links.  Heap growth is attached to the root cause seen in the same session, and reported on its own
    only when the session shows none."""
    bad = []
    sc = r["sc"]
    il = [l for l in r["impl"] if not l.startswith("end ")]
    if r["outcome"] != "ok":
        key = K_CYCLE if ("stack-overflow" in r["outcome"] and "ADFI_close_file" in r["outcome"]) else None
        bad.append((key, {"problem": "crash", "outcome": r["outcome"], "after_line": len(il),
                          "last_op": r["script"][len(il)] if len(il) < len(r["script"]) else None, "report": r["report"][-600:]}))
        return bad
    if len(il) != len(r["script"]):
        raise vlib.Infra("c17_mll: %d answers for %d script lines: %s" % (len(il), len(r["script"]), il[-2:]))
    prev = None
    late_files, twice_files, stranded_files, save_files, seen = set(), set(), set(), set(), set()
    link_targets = set("M%s.cgns" % o.split()[5] for o in r["script"] if o.startswith("link "))
    written = set("M%s.cgns" % o.split()[2] for o in r["script"] if o.startswith("open ") and o.split()[3] == "w")
    cyclic = mll_link_cycle(r["script"])
    hfile = {}
    for op, l in zip(r["script"], il):
        if l.startswith("prepfail") or l.startswith("badline"):
            raise vlib.Infra("c17_mll: %s" % l)
        if l.startswith("cycle "):
            t = l.split()
            fds, h5, user = int(t[t.index("fds") + 1]), int(t[t.index("h5") + 1]), int(t[t.index("user") + 1])
            if (fds != 0 or h5 != 0) and "left" not in seen:
                seen.add("left")
                m = re.search(r"open\[(.*)\]", l)
                names = set(x.replace(" (deleted)", "") for x in (m.group(1).split(",") if m and m.group(1) else []))
                desc = {"problem": "descriptors or HDF5 ids left after every file was closed", "fds": fds, "h5": h5,
                        "still_open": sorted(names), "cycle": t[1]}
                causes = set()
                rest = set(names)
                if late_files:                       # seen: a cg_open that failed behind cgio_open_file
                    causes.add(K_OPENFAIL); rest -= late_files
                    if rest <= link_targets:         # files the stranded file had opened through its links
                        rest = set()
                if save_files:                       # seen: a failing cg_save_as that left its output open
                    causes.add(K_SAVEAS); rest -= save_files
                if twice_files:                      # seen: a cg_close failing with ADFH_ERR_FILE_INDEX
                    causes.add(K_H5TWICE); rest -= twice_files
                if stranded_files:                   # seen: a cg_close failing with ADF_FILE_NOT_OPENED
                    causes.add(K_STRANDED); rest -= stranded_files
                    if rest <= link_targets:
                        rest = set()
                if rest and sc["backend"] == "hdf5" and rest <= link_targets:
                    causes.add(K_H5LINK); rest = set()
                if rest and sc["backend"] == "adf" and cyclic and rest <= (link_targets | written):
                    causes.add(K_ADFCYCLE_LEAK); rest = set()    # files linking to each other keep each other open
                if rest or not causes:
                    bad.append((None, dict(desc, unexplained=sorted(rest))))
                for c in sorted(causes):
                    bad.append((c, desc))
            prev = None
            continue
        d = fields(l)
        st = d["res"].split()
        failed = len(st) > 1 and st[1] != "0"
        if op.startswith("open ") and not failed:
            hfile[op.split()[1]] = "M%s.cgns" % op.split()[2]
        if op.startswith("close ") and failed and op.split()[1] in hfile and "| err " in l:
            msg = l.split("| err ")[1]
            if "file index from node ID" in msg:
                twice_files.add(hfile[op.split()[1]])
            elif "ADF 9" in msg or "ADF file not opened" in msg:
                stranded_files.add(hfile[op.split()[1]])
        if op.startswith("close ") and not failed:
            hfile.pop(op.split()[1], None)
        if prev is not None and failed and op.split()[0] not in ("close", "prep", "ftype"):
            if d["fds"] != prev["fds"] or (op.startswith("open") and d["h5"] != prev["h5"]):
                key = None
                if op.startswith("open") and prev.get("mllprev") is not None and "mll" in d and int(d["mll"].split()[1]) > prev["mllprev"]:
                    key = K_OPENFAIL             # n_open went up although the call failed: it failed behind cgio_open_file
                    late_files.add("M%s.cgns" % op.split()[2])
                if key is None and op.startswith("open") and sc["backend"] == "adf" and cyclic and "mll" in d and \
                        int(d["mll"].split()[1]) <= prev["mllprev"]:
                    key = K_ADFCYCLE_LEAK        # the failing open was undone, the files it reached through a link cycle stay
                if op.startswith("save ") and d["fds"] > prev["fds"]:
                    key = K_SAVEAS               # the output file of a failing cg_save_as stays open
                    save_files.add("M%s.cgns" % op.split()[2])
                if (key, op.split()[0]) not in seen:
                    seen.add((key, op.split()[0]))
                    bad.append((key, {"problem": "a call that returned an error changed the descriptor / HDF5 id count",
                                      "op": op, "before": prev["raw"], "after": l}))
        d["mllprev"] = int(d["mll"].split()[1]) if "mll" in d else (prev or {}).get("mllprev", 0)
        prev = d
    lk = [x for x in parse_leaks(r["report"]) if x["kind"] == "Direct" and x["in_library"]]
    for x in lk:
        if os.environ.get("C17_LEAK_LOG"):
            open(os.environ["C17_LEAK_LOG"], "a").write(json.dumps({"leak": x, "shape": sc.get("shape"), "desc": sc.get("file_desc")}) + "\n")
        if x["alloc_fn"] not in seen:
            seen.add(x["alloc_fn"])
            bad.append(("leak:" + x["alloc_fn"], {"problem": "LeakSanitizer: unreachable block allocated by the library", "leak": x}))
    hs, grows = heap_slope(il)
    if grows and r["cycles"] >= 3:
        info = {"heap_at_cycles": hs[:3] + ["..."] + hs[-2:], "bytes_per_cycle": (hs[-1] - hs[1]) // max(1, len(hs) - 2)}
        causes = [b for b in bad if b[0]]
        if causes:
            for b in causes:
                b[1]["heap_growth_in_the_same_session"] = info
        else:
            bad.append((None, dict(info, problem="heap grows from cycle to cycle")))
    return bad


def mll_model_lines(script, il, variant, backend):
    """feed the open/close skeleton of an MLL session to the MLL-table model; -> (model lines, impl lines).  The outcome
    class of an open is derived from the KIND of the file (data file: ok; missing / not a database: fails in cgio; wrong
    version / broken tree: fails after cgio_open_file), not from what the implementation answered -- except where the
    answer legitimately depends on facts outside the table model: a data file that contains link nodes (a dangling or
    circular link makes cgi_read fail) and, on HDF5, a file that is already open through another handle (libhdf5 refuses
    conflicting reopens).  There, and for the files of the refused-open families whose class is not known in advance, the class (fails in cgio / fails
    later) is read off n_cgns_files and file_number_offset."""
    m_in, impl = ["variant " + variant], []
    writing, has_links, open_files, nfiles_prev, off_prev = {}, set(), {}, 0, 0
    for op, l in zip(script, il):
        t = op.split()
        if t[0] == "link" and t[1] in writing:
            has_links.add(writing[t[1]])
        if t[0] == "open":
            f = int(t[2])
            d = fields(l)
            ok = l.startswith("open 0")
            nfiles = int(d["mll"].split()[2]) if "mll" in d else nfiles_prev
            off = int(d["mll"].split()[4]) if "mll" in d else off_prev
            oc = "ok"
            if f in SPECIAL and f not in READOFF:
                oc = "latefail" if SPECIAL[f] in LATE else "cgiofail"
            elif not ok and (f in has_links or f in READOFF or f >= 30 or (backend == "hdf5" and f in open_files.values())):
                # an entry of cgns_files[] was taken (and stays while other files are open), or the emptied table was released
                # (file_number_offset moves on): the open got past cgio_open_file
                oc = "latefail" if (nfiles > nfiles_prev or off > off_prev) else "cgiofail"
            if ok:
                open_files[t[1]] = f
                if t[3] == "w":
                    writing[t[1]] = f
            m_in.append("open %s %s" % (t[1], oc))
        elif t[0] == "close":
            if l.startswith("close 0"):
                open_files.pop(t[1], None); writing.pop(t[1], None)
            m_in.append("close %s ok" % t[1])
        else:
            continue
        d = fields(l)
        if "mll" in d:
            nfiles_prev = int(d["mll"].split()[2]); off_prev = int(d["mll"].split()[4])
        impl.append(l.split(" | ")[0] + " | " + d.get("mll", ""))
    ml = vlib.run_model("c17", "\n".join(m_in) + "\n", args=["mll"])
    return ml, impl


# ----------------------------------------------------------------------------------------------- the check
CORPUS_IO = [("world ok,ok 0>1", ["open 0 r", "node 1 1", "close 1"]),
             # a link to an EXISTING file whose stored path is missing there: as the first and as a later use of that file
             ("world ok,ok 0>1!", ["open 0 r", "walk 1 1!", "walk 1 1!", "close 1"]),
             ("world ok,ok,ok 0>1,0>1!,1>2!", ["open 0 m", "walk 1 1", "walk 1 1!", "walk 1 1 2!", "open 2 r", "walk 1 1 2!", "close 2", "close 1"]),
             # different on-disk layouts in one ADF_file[] entry, one after the other, while another file stays open
             ("world ok,okL,okB,okE 2>3", ["open 0 r", "open 1 r", "close 2", "open 2 m", "walk 2 3", "close 2", "open 3 r", "open 1 m", "close 2", "open 0 r", "close 1"]),
             # every data type: dimension set-up, full / block / strided write and read
             ("world ok,ok -", ["open 0 m"] + ["data 1 %s %d %s" % (t, n, h) for t in DTYPES for (n, h) in ((7, "all"), (8, "block"), (9, "strided"))] + ["close 1"]),
             # failing data calls, systematically: each entry point with each class of invalid argument, the file closed after each
             ] + [("world ok,ok 0>1", [o for k in BAD_CLASSES for o in ("open 0 m", "bad 1 %s %s" % (e, k), "close 1")]) for e in BAD_ENTRIES] + [
             # refused node-level calls, each followed by the close, in modify and in read mode
             ("world ok,ok 0>1", [o for m in "mr" for k in BADNODE_CALLS for o in ("open 0 %s" % m, "badnode 1 %s" % k, "close 1")]),
             # identifiers of each kind abandoned on the file (HDF5): the close frees every open access, in write and in read mode
             ("world ok,ok 0>1", [o for k in STRAND_KINDS for o in ("open 0 m", "strand 1 %s" % k, "close 1")] +
                                 [o for k in STRAND_KINDS for o in ("open 0 r", "strand 1 %s" % k, "strand 1 %s" % k, "close 1")]),
             ("world ok,ok -", ["open 0 m", "open 1 m"] + ["strand %d %s" % (c, k) for k in STRAND_KINDS for c in (1, 2)] +
                               ["bad 1 rblock nulltype", "close 1", "bad 2 rall nulltype", "strand 2 dataset", "close 2"]),
             # ... and with the handle kept, other files open and a link traversed before the close
             ("world ok,ok,ok 0>1,1>2", ["open 0 m", "open 1 m", "walk 1 1 2"] + ["bad %d %s %s" % (1 + i % 2, e, BAD_CLASSES[(3 * i + j) % len(BAD_CLASSES)])
                                                                              for i, e in enumerate(BAD_ENTRIES) for j in range(3)] + ["close 2", "close 1"]),
             ("world ok,ok,badhdr,garbage 0>1,0>2,0>3,1>2", ["open 0 m", "walk 1 2", "walk 1 3", "walk 1 1 2", "open 2 r", "open 3 r", "node 1 1", "close 1"]),
             ("world ok,ok,ok 0>1,1>2", ["open 0 r", "open 1 r", "walk 1 1 2", "walk 2 2", "close 2", "close 1", "open 2 r", "open 2 m", "close 1", "close 2"])]


# repeated SUCCESSFUL data calls on nodes with several data chunks (harness op "multi": the recipe of the C02c layer): every data
# type, sizes that put 2 and 3 chunks in one or in several disk blocks; repeated with LeakSanitizer and the heap slope
MULTI_IO = [("world ok,ok 0>1", ["open 0 m"] + ["multi 1 %s %d %d 2" % (t, n1, n2) for t in DTYPES] + ["close 1", "open 0 r", "node 1 1", "close 1"])
            for (n1, n2) in ((1, 2), (7, 300), (600, 601))]


def _sc(backend, prep, body):
    return {"prep": ["ftype " + backend] + prep, "body": body, "backend": backend, "shape": "corpus", "nfiles": 0}


W = ["base 0 Base", "zone 0 1 Zone1 2", "coord 0 1 1 CoordinateX", "sol 0 1 1 Sol1", "field 0 1 1 1 Density"]
CORPUS_MLL = [
    # every MLL data type (HDF5: each complex access builds a compound memory type), and a link into an existing file with a missing path
    _sc("hdf5", [], ["open 0 1 w", "base 0 Base"] + ["array 0 1 A_%s %s 6" % (t, t) for t in MLL_DTYPES] + ["close 0", "open 0 1 m"] +
                    ["array 0 1 A_%s %s 3" % (t, t) for t in MLL_DTYPES] + ["close 0"]),
    _sc("adf", [], ["open 0 1 w"] + W + ["close 0", "open 0 2 w", "base 0 Base", "link 0 1 0 NoPath 1 /Base/NoSuchZone", "close 0",
                    "open 0 2 r", "open 0 2 m", "close 0"]),
    # witnesses of KNOWN findings (those of the repaired defects are regression inputs in corpus/C17/)
    # HDF5: reading through a link to another file; the same file opened twice, closed in the other order
    _sc("hdf5", [], ["open 0 1 w"] + W + ["close 0", "open 0 2 w", "base 0 Base", "zone 0 1 ZoneA 2",
                     "link 0 1 1 GridCoordinates 1 /Base/Zone1/GridCoordinates", "close 0", "open 0 2 r", "rcoord 0 1 1 CoordinateX", "close 0"]),
    _sc("hdf5", [], ["open 0 1 w"] + W + ["close 0", "open 0 1 r", "open 1 1 r", "close 1", "close 0"]),
]


# containers the MLL keeps an auxiliary index or a lazily (re)allocated array for: children of the base (zone map, particle-zone
# map, family / descriptor / user-data arrays), of a zone (solution / grid / discrete / integral / user-data arrays), of a solution
FD_KINDS = ["zone", "pzone", "family", "desc", "user", "sol", "grid", "discrete", "integral", "zuser", "field"]
FD_VARIANTS = ["same", "same+write", "reopen", "reopen+write", "twice"]


def fill_drain(backend, variant, n, kinds=FD_KINDS):
    """create-all / delete-all / close, one open..close block per container kind:
       same          created and ALL deleted in one MODIFY session             same+write    ... then two more written before the close
       reopen        created in WRITE mode, closed, reopened MODIFY, all deleted reopen+write  ... then two more written
       twice         reopen, then a second fill + drain in a third session, then a read-only look at the emptied file"""
    body = []
    for k in kinds:
        pre = ["open 0 1 w", "base 0 Base"] + (["zone 0 1 Zone1 2", "sol 0 1 1 Sol1"] if FD_KINDS.index(k) >= 5 else [])
        fill, drain, more = "fill 0 1 %s %d" % (k, n), "drain 0 1 %s" % k, "fill 0 1 %s 2" % k
        if variant.startswith("same"):
            body += pre + ["close 0", "open 0 1 m", fill, drain]
        else:
            body += pre + [fill, "close 0", "open 0 1 m", drain]
        if variant.endswith("+write"):
            body.append(more)
        body.append("close 0")
        if variant == "twice":
            body += ["open 0 1 m", fill, drain, "close 0", "open 0 1 r", "nzones 0 1", "close 0"]
    sc = _sc(backend, [], body)
    sc["shape"] = "fill-drain:" + variant
    return sc


# ----------------------------------------------------------------------------------------------- refused opens
def refused_pool(work):
    """files that some open path refuses, derived with the C13 machinery (checks/C13.py, harness/c13_io.c, the C13 model):
    valid files written by the C13 corpus maker; of the ADF ones every file-header mutant C13 derives (boundary tags, what-string:
    major letter, minor revision newer / unparsable / older, pre-numbering form, magic; format letters; type sizes; root / end /
    free-chunk pointers) and truncations at every header boundary; classified by the C13 MODEL (first line of its walk = what
    ADF_Database_Open answers), in the unrepaired and the repaired state of that model; a file enters the table-model worlds
    only when both states refuse it with the same ADF error (kind x<error>) or when it has lost the ADF signature (kind xg).
    Files the model opens, or on which it predicts a memory error, are C13's business and are left out (counted).  Files
    without a class (kind None: truncations behind the header, HDF5 truncations / superblock damage, valid non-CGNS containers)
    are used where no table model is compared: HDF5 sessions and the MLL level.
    -> list of dict(desc, data, kind, base)"""
    from checks import C13
    exe = vlib.build_harness("c13_io", ["c13_io.c"])
    vlib.build_modelrun("c13")
    d = os.path.join(work, "c13corp")
    shutil.rmtree(d, ignore_errors=True)
    os.makedirs(d)
    lines, oc = vlib.run_impl(exe, "", args=["mkcorpus", d], timeout=120)
    if oc != "ok" or "done" not in lines:
        raise vlib.Infra("C13 corpus maker failed: %s %s" % (oc, lines[-3:]))
    pool, seen, stats = [], set(), {"candidates": 0, "model_opens": 0, "model_abnormal": 0, "state_dependent": 0}

    def add(desc, data, kind, base):
        h = hashlib.sha1(data).hexdigest()
        if h not in seen:
            seen.add(h)
            pool.append({"desc": desc, "data": data, "kind": kind, "base": base})

    def heads(out):
        r, cur = [], []
        for l in out:
            if l == "END":
                r.append(cur[0] if cur else "?"); cur = []
            else:
                cur.append(l)
        return r
    nflags = len(C13.FLAGS)
    for base in ("m_struct.adf", "t_legacy.adf"):
        data = open(os.path.join(d, base), "rb").read()
        af = C13.AdfFile(base, data)
        cands = [(desc, C13.apply_patches(data, patches)) for desc, cls, patches in af.mutants() if desc.startswith(("fileheader.", "fct."))]
        n = len(data)
        cands += [("truncate to %d" % L, data[:L]) for L in sorted({0, 1, 4, 23, 24, 31, 32, 33, 101, 102, 103, 185, 186, 187, 265, 266, 267, 300,
                                                                     4095, 4096, n // 2, n - 1}) if L < n]
        script = "".join("base %s\nwalk 1\n" % m[:8192].hex() for _, m in cands)
        h0 = heads(C13.model(script, bits="0" * nflags))
        h1 = heads(C13.model(script, bits="1" * nflags))
        if len(h0) != len(cands) or len(h1) != len(cands):
            raise vlib.Infra("C13 model: %d / %d answers for %d files" % (len(h0), len(h1), len(cands)))
        for (desc, m), a, b in zip(cands, h0, h1):
            stats["candidates"] += 1
            sig = len(m) >= 32 and m[4:24] == b"ADF Database Version"
            if not sig:
                add(desc, m, "xg", base)
            elif a != b:
                stats["state_dependent"] += 1
            elif a.startswith("open err "):
                add(desc, m, "x" + a.split()[2], base)
            elif a.startswith("open ok"):
                stats["model_opens"] += 1
                if desc.startswith("truncate"):
                    add(desc, m, None, base)            # header intact, the tree is cut: refused (if at all) behind the open
            else:
                stats["model_abnormal"] += 1
        if base == "m_struct.adf":                      # cut inside the node tree: cg_open gets past cgio_open_file
            for nd in af.nodes[1:40:4]:
                add("truncate to %d (node boundary)" % nd["pos"], data[:nd["pos"]], None, base)
                add("truncate to %d (inside a node header)" % (nd["pos"] + 40), data[:nd["pos"] + 40], None, base)
    add("valid ADF file that is not a CGNS file", open(os.path.join(d, "t_small.adf"), "rb").read(), None, "t_small.adf")
    for base in ("h_mll.hdf", "h_small.hdf"):
        data = open(os.path.join(d, base), "rb").read()
        n = len(data)
        if base == "h_small.hdf":
            add("valid cgio/HDF5 file that is not a CGNS file", data, None, base)
            continue
        for L in sorted({0, 4, 8, 9, 48, 96, 511, 512, 1024, 2048, n // 2, n - 1}):
            if L < n:
                add("truncate to %d" % L, data[:L], None, base)
        add("superblock version 0xff", C13.apply_patches(data, [(8, b"\xff")]), None, base)
        add("signature byte 1 flipped", C13.apply_patches(data, [(1, b"h")]), None, base)
        add("end-of-file address cut to half", C13.apply_patches(data, [(40, (n // 2).to_bytes(8, "little"))]), None, base)
    shutil.rmtree(d, ignore_errors=True)
    stats["pool"] = len(pool)
    stats["by_kind"] = {}
    for f in pool:
        k = f["kind"] or ("late-or-unclassified:" + f["base"].split(".")[-1])
        stats["by_kind"][k] = stats["by_kind"].get(k, 0) + 1
    return pool, stats


def refusal_group(f):
    """(kind, which field was damaged how): one group per refusal branch and way of reaching it"""
    d = f["desc"]
    if d.startswith(("fileheader.what", "fileheader.format")):
        g = d
    elif d.startswith("truncate"):
        g = "truncate"
    else:
        g = d.split("=")[0].split("->")[0].rstrip("0123456789")
    return (f["kind"] or "", g, f["base"].split(".")[-1] if not f["kind"] else "")


class Picker:
    """hands out files of the pool group by group, round robin (the order of the groups is seeded): every group is used once
    before any is used twice, so a run covers every refusal group at every level"""
    def __init__(self, rng, pool, need_kind):
        self.rng, self.groups = rng, {}
        for f in pool:
            if f["kind"] or not need_kind:
                self.groups.setdefault(refusal_group(f), []).append(f)
        self.order = sorted(self.groups)
        rng.shuffle(self.order)
        self.pos, self.used = 0, {}

    def take(self, n):
        out = []
        for _ in range(n):
            g = self.order[self.pos % len(self.order)]
            self.pos += 1
            self.used[g] = self.used.get(g, 0) + 1
            out.append(self.rng.choice(self.groups[g]))
        return out


def gen_io_refused(rng, chosen, backend, k=3):
    """cgio level: a world of two good files (0 links to 1 and to some refused files), one file of each fixed refused kind and
    nx files of the pool; every refused file is opened k times (read and modify) between uses of the good files; also the name
    that is too long (index 63) and a missing one.  -> (world, ops, files)"""
    kinds = ["ok", rng.choice(["ok", "okB", "okL"])] + ["empty", "garbage", "dir", "missing", "badhdr"]
    files = {}
    for f in chosen:
        files[len(kinds)] = f["data"]
        kinds.append(f["kind"] or "xg")          # (HDF5 sessions: the kind is not used, no table model is compared)
    refused = list(range(2, len(kinds)))
    linked = rng.sample(refused, min(3, len(refused)))
    links = [(0, 1)] + [(0, j) for j in linked]
    todo = [j for j in refused for _ in range(k)] + [63, 63]
    rng.shuffle(todo)
    ops = ["open 0 m"]
    live = {1: 0}
    for j in todo:
        ops.append("open %d %s" % (j, rng.choice("rm")))
        r = rng.random()
        if r < 0.25:
            ops.append("walk 1 1")
        elif r < 0.4 and linked:
            ops.append("walk 1 %d" % rng.choice(linked))          # a link to a refused file: ADFI_link_open is refused
        elif r < 0.55:
            ops.append("data 1 R8 7 all")
        elif r < 0.7 and 2 not in live:
            ops.append("open 1 r"); live[2] = 1
        elif r < 0.85 and 2 in live:
            ops.append("close 2"); del live[2]
    world = "world %s %s" % (",".join(kinds), ",".join("%d>%d" % e for e in links))
    return world, ops, files


def gen_mll_refused(rng, chosen, backend, k=2):
    """MLL level: cg_open of refused files (every special kind of the harness, the name that is too long, nx files of the pool incl.
    those refused only behind cgio_open_file) k times each, read and modify mode, between opens / reads / closes of a good file"""
    files = {30 + i: f["data"] for i, f in enumerate(chosen)}
    special = [10, 11, 12, 13, 14, 15, 16, 17, 18, 19, 99]
    todo = [f for f in (sorted(files) + special) for _ in range(k)]
    rng.shuffle(todo)
    body = ["open 0 1 w"] + W + ["close 0", "open 0 1 r"]
    for f in todo:
        body.append("open 1 %d %s" % (f, rng.choice("rm")))
        body.append("close 1")                   # a benign file that did open (closing a closed label is a refused no-op)
        r = rng.random()
        if r < 0.3:
            body.append(rng.choice(["nzones 0 1", "rzone 0 1 1", "rcoord 0 1 1 CoordinateX", "nbases 0"]))
        elif r < 0.4:
            body += ["close 0", "open 0 1 %s" % rng.choice("rm")]
    body += ["close 0", "close 1"]
    prep = ["ftype " + backend] + ["prep %d %s %s" % (f, SPECIAL[f], backend) for f in special if SPECIAL[f] != "missing"]
    return {"prep": prep, "body": body, "backend": backend, "shape": "refused-opens", "nfiles": 1, "files": files,
            "file_desc": {str(30 + i): "%s: %s" % (f["base"], f["desc"]) for i, f in enumerate(chosen)}}


def read_matrix(backend, mode="r"):
    """every stored data type (arrays under a UserDefinedData_t, coordinates and fields of a zone and of a particle zone, written
    through the typed writers; the types a writer refuses are refused calls too) read back through every reading entry point
    of its kind -- cg_array_read_as / cg_array_general_read, cg_coord_read / cg_coord_general_read, cg_field_read /
    cg_field_general_read, cg_particle_coord_read / _general_read, cg_particle_field_read / _general_read -- with every memory
    data type (incl. the null and user-defined codes), over the full range, a part of the file range and a part of a larger
    memory array (harness op rtypes: 9 memory types x 4 accesses per stored array).  Accepted or refused, a read leaves
    nothing behind: repeated under LeakSanitizer and the heap slope."""
    body = ["open 0 1 w", "base 0 Base", "zone 0 1 Zone1 3", "sol 0 1 1 Sol1", "fill 0 1 pzone 1", "psol 0 1 PSol"]
    for t in MLL_DTYPES:
        body.append("array 0 1 A_%s %s 9" % (t, t))
        body += ["tdata 0 1 %s %s" % (k, t) for k in ("coord", "field", "pcoord", "pfield")]
    body += ["close 0", "open 0 1 %s" % mode]
    for t in MLL_DTYPES:
        body.append("rtypes 0 1 array A_%s" % t)
        body += ["rtypes 0 1 %s T_%s" % (k, t) for k in ("coord", "field", "pcoord", "pfield")]
    body.append("close 0")
    sc = _sc(backend, [], body)
    sc["shape"] = "read-matrix"
    return sc


def long_session(backend):
    """a session that must be repeatable for ever on the unchanged tree: writes, reads, navigation, modification, deletion,
    links between two files (ADF), failing calls that acquire nothing (bad index / name / mode, missing and non-CGNS files)"""
    body = ["open 0 1 w"] + W + ["desc 0 1 Info first", "close 0",
            "open 0 2 w", "base 0 Base", "zone 0 1 Zone1 2", "coord 0 1 1 CoordinateX", "zone 0 1 ZoneA 2"]
    if backend == "adf":
        body += ["link 0 1 2 GridCoordinates 1 /Base/Zone1/GridCoordinates", "link 0 1 0 ZoneL 1 /Base/Zone1", "link 0 1 2 SolL 1 /Base/Zone1/Sol1"]
    body += ["close 0", "open 0 2 r", "nbases 0", "nzones 0 1", "rzone 0 1 1", "rzone 0 1 2", "rzone 0 1 3", "rzone 0 1 9", "rcoord 0 1 1 CoordinateX",
             "rcoord 0 1 2 CoordinateX", "rcoord 0 1 1 NoSuchCoord", "rfield 0 1 3 1 Density", "rfield 0 1 1 7 Density", "gopath 0 /Base/Zone1/GridCoordinates",
             "where", "gopath 0 /Base/Nowhere", "base 0 NotAllowed", "desc 0 1 No no", "open 1 10 r", "open 1 11 r", "open 1 1 r", "ndesc 1 1", "rdesc 1 1 1",
             "rdesc 1 1 9", "save 1 20 %s 0" % backend, "close 1", "close 0", "open 0 1 m", "desc 0 1 Info2 second", "sol 0 1 1 Sol2", "delete 0 1 Info",
             "delete 0 1 Nothing", "nzones 0 7", "close 0", "open 0 20 r", "nzones 0 1", "close 0", "close 3"]
    return _sc(backend, ["prep 11 garbage " + backend], body)


def load_corpus():
    """corpus/C17/*.json: witnesses of defects that have been repaired in /repo; they must pass"""
    out = []
    d = os.path.join(vlib.ROOT, "corpus", "C17")
    for f in sorted(glob.glob(os.path.join(d, "*.json"))):
        c = json.load(open(f))
        c["file"] = os.path.basename(f)
        out.append(c)
    return out


def rep_files(rep):
    """the supplied files of a replay dict (base64) -> {index: bytes}"""
    return {int(i): base64.b64decode(d) for i, d in (rep.get("files_b64") or {}).items()}


def shrink_ops(ops, fails):
    return vlib.ddmin(ops, fails, max_tests=60)


def run(ck):
    big = ck.tier == "thorough"
    vlib.build_impl()
    hio = vlib.build_harness("c17_io", ["c17_io.c"])
    hml = vlib.build_harness("c17_mll", ["c17_mll.c"])
    res = vlib.coq_check_properties("C17")
    broken = ck.proof_result(res, CHECKER)
    forb = vlib.coq_forbidden_scan("C17")
    ck.extra["forbidden_tokens"] = forb
    if forb:
        ck.violation({"broken_obligation": "forbidden tokens in the Coq development", "hits": forb}, nofail=True)
    ck.level = "proof"
    ck.cov["trusted_base"] = [
        "Coq 8.16.1 kernel + vm_compute", "extraction (ExtrOcamlBasic) + ocaml/eng_c17.ml",
        "harness/c17_io.c (includes src/cgns_io.c to read its static table), harness/c17_mll.c, harness/c17_common.c",
        "/proc/self/fd, H5Fget_obj_count, LeakSanitizer, __sanitizer_get_current_allocated_bytes",
        "hand transcription of ADFI_open_file / link_add / chase_link / close_file, cgio_open_file / close_file, cg_open / cg_close "
        "(validated on every run by state-by-state correspondence)", "this driver (generators, oracles, leak attribution by stack)"]
    ck.assumptions = [
        "PARTIAL: proved = reference counts, link lists, handle tables, descriptor ledger of the ADF / cgio / MLL bookkeeping; "
        "tested only = heap reachability (LeakSanitizer), heap growth over cycles, HDF5 identifier lifetime, everything inside libhdf5 and ADFH",
        "no I/O or malloc failures (C14's business)", "single thread", "the link cache of ADFI_chase_link is not modelled "
        "(cleared by every real close; a hit skips an ADFI_link_add that would be a no-op) -- covered by the correspondence run",
        "the session-level theorem about the repaired close takes 'did not run out of fuel' as hypothesis; the close itself is proved to "
        "terminate within 3*(link entries)+3 steps from every state satisfying the invariant"]
    ck.cov["rule"] = (
        "cgio level: generated worlds (2..6 files of kinds ok/missing/garbage/bad-header/directory, link graphs dag/chain/arbitrary) and sessions "
        "(opens r/m, link traversals of 1..4 hops incl. through missing and unreadable files, closes of valid, stale and invalid numbers), every handle "
        "closed at the end; ADF: state-by-state comparison with the extracted model + oracles; HDF5: oracles only. MLL level: generated sessions "
        "(write 1..3 files with zones, coordinates, solutions, descriptors, links between them incl. link-to-link chains and cycles; then reads, "
        "navigation, writes, deletes, save-as, failing calls: bad index / name / mode, cg_open of missing, non-CGNS, wrong-version, broken-tree files) "
        "on ADF and HDF5, repeated N times in one process. non-trivial = the session exercised a shared linked file, several link lists, a failing open, "
        "a close error, table growth, a cycle, or (MLL) links / failing opens; distinct by SHA1 of the script")
    if res["ok"]:
        vlib.build_modelrun("c17")
    variant, mvariant = "cur", "cur"      # Refcount.Cur / MCur = /repo since 909ac4d / def473d
    ck.extra["transcribed_variant"] = {"ADFI_close_file": "Cur (since /repo 909ac4d)", "cg_open": "MCur (since /repo def473d)"}
    pool = concurrent.futures.ThreadPoolExecutor(max_workers=WORKERS)
    findings, corr_broken = {}, []
    stats = {"io_sessions": {"adf": 0, "hdf5": 0}, "io_features": {}, "io_ops": 0, "states_compared": 0,
             "mll_sessions": {"adf": 0, "hdf5": 0}, "mll_shapes": {}, "mll_ops": 0, "mll_cycles": 0, "mll_tables_compared": 0,
             "failing_opens_checked": 0, "leak_checks": 0, "finding_hits": {},
             "refusal_codes": {"agree": 0, "differ": 0, "samples": []}}

    def note(key, desc, replay):
        stats["finding_hits"][key or "UNCLASSIFIED"] = stats["finding_hits"].get(key or "UNCLASSIFIED", 0) + 1
        k = key or ("unclassified:" + desc.get("problem", "?")[:40])
        if k not in findings:
            findings[k] = (key, desc, replay)

    # ---------------- regression corpus (repaired defects): runs first, must pass
    stats["corpus"] = {}
    for c in load_corpus():
        if c["level"] == "cgio":
            r = io_case(hio, c["world"], c["ops"], c["backend"], ck.work, "corp", variant if res["ok"] else None)
            bad = io_oracle(r)
            rep = {"level": "cgio", "backend": c["backend"], "world": c["world"], "ops": c["ops"]}
            if r["model"] is not None:
                il, mlx = io_align(r)
                ck.cov["traces_validated_against_impl"] += 1
                if il != mlx or r["outcome"] != "ok":
                    dv = vlib.first_divergence(mlx, il)
                    corr_broken.append({"level": "cgio/adf", "corpus": c["file"], "world": c["world"], "ops": c["ops"], "outcome": r["outcome"],
                                        "first_divergence": dv and {"line": dv[0], "model": dv[1], "impl": dv[2]}})
        else:
            sc = {"prep": c["prep"], "body": c["body"], "backend": c["backend"], "shape": "corpus", "nfiles": 0}
            r = mll_case(hml, sc, ck.work, "corp", 3)
            bad = mll_oracle(r)
            rep = {"level": "mll", "backend": c["backend"], "prep": c["prep"], "body": c["body"], "cycles": 3}
        ck.case(hashlib.sha1(("corpus" + c["file"]).encode()).hexdigest(), sample={"corpus": c["file"], "key": c["key"]})
        stats["corpus"][c["file"]] = "pass"
        for key, desc in bad:
            if key and ck.known_match(key):
                ck.finding(key, dict(rep, failure=desc))         # e.g. the cycle witness now shows the (known) cycle leak
            else:
                stats["corpus"][c["file"]] = "FAIL"
                ck.finding(c["key"], dict(rep, failure=desc, regression_of=c["file"], repaired_by=c.get("fixed_by"),
                                          oracle="regression corpus: the witness of a repaired defect fails again"))

    # ---------------- cgio / ADF level
    nio = 700 if big else 90
    cases = list(CORPUS_IO) + [(gen_io_layout(ck.rng) if i % 4 == 3 else gen_io(ck.rng, big)) for i in range(nio)]
    futs = []
    for i, (world, ops) in enumerate(cases):
        futs.append(pool.submit(io_case, hio, world, ops, "adf", ck.work, "ioa%d" % i, variant if res["ok"] else None))
        if i < len(CORPUS_IO) or i % 2 == 0:
            futs.append(pool.submit(io_case, hio, world, ops, "hdf5", ck.work, "ioh%d" % i, None))
    for i, (world, ops) in enumerate(MULTI_IO):
        futs.append(pool.submit(io_case, hio, world, ops, "adf", ck.work, "iom%d" % i, variant if res["ok"] else None, 5))
        futs.append(pool.submit(io_case, hio, world, ops, "hdf5", ck.work, "iomh%d" % i, None, 13))
    # refused opens: every refusal branch of the open paths, files derived with the C13 machinery (refused_pool)
    rpool, stats["refused_pool"] = refused_pool(ck.work)
    nref = 30 if big else 6
    pick = {"adf": Picker(ck.rng, rpool, True), "hdf5": Picker(ck.rng, rpool, False), "mll-adf": Picker(ck.rng, rpool, False),
            "mll-hdf5": Picker(ck.rng, rpool, False)}
    for i in range(nref):
        for be in ("adf", "hdf5"):
            world, ops, files = gen_io_refused(ck.rng, pick[be].take(8), be)
            futs.append(pool.submit(io_case, hio, world, ops, be, ck.work, "ior%s%d" % (be[0], i), variant if (res["ok"] and be == "adf") else None, 1, files))
    for fu in futs:
        r = fu.result()
        stats["io_sessions"][r["backend"]] += 1
        stats["io_ops"] += len(r["ops"])
        stats["failing_opens_checked"] += sum(1 for l in r["impl"] if l.startswith("open err"))
        stats["leak_checks"] += 1
        feats = set()
        if r["model"] is not None:
            feats = io_features(r["model"])
            il, ml = io_align(r)
            if any("!" in o for o in r["ops"]):
                feats.add("dangling-path")
            if any(o.startswith("data ") for o in r["ops"]):
                feats.add("data-types")
            if any(o.startswith(("bad ", "strand ")) for o in r["ops"]):
                feats.add("failing-data-call")
            if r["files"]:
                feats.add("refused-opens")
            if any(o.startswith("multi ") for o in r["ops"]):
                feats.add("multi-chunk-data")
            if len(set(k for k in r["world"].split()[1].split(",") if k.startswith("ok"))) > 1:
                feats.add("mixed-layouts")
            if ml and ml[-1] == "diverge":
                same = il[:len(ml) - 1] == ml[:-1] and r["outcome"] != "ok"
            else:
                same = il == ml and r["outcome"] == "ok"
            for f in feats:
                stats["io_features"][f] = stats["io_features"].get(f, 0) + 1
            stats["states_compared"] += len(ml)
            ck.cov["traces_validated_against_impl"] += 1
            if not same:
                dv = vlib.first_divergence(ml, il)
                corr_broken.append({"level": "cgio/adf", "world": r["world"], "ops": r["ops"], "outcome": r["outcome"],
                                    "first_divergence": dv and {"line": dv[0], "model": dv[1], "impl": dv[2]},
                                    "files_b64": {str(i): base64.b64encode(d).decode() for i, d in r["files"].items()}})
        ck.case(hashlib.sha1((r["world"] + "|".join(r["ops"]) + r["backend"]).encode()).hexdigest() if (feats or r["backend"] == "hdf5" and ">" in r["world"]) else None,
                sample={"level": "cgio", "backend": r["backend"], "world": r["world"], "ops": r["ops"][:8]})
        verdicts = io_oracle(r)
        if r["files"]:
            # cross-check with the C13 model (not a verdict of this property): a file it classifies x<code> is refused with that code
            kinds = r["world"].split()[1].split(",")
            for op, l in zip(r["script"], r["impl"]):
                t = op.split()
                if t[0] == "open" and int(t[1]) < len(kinds) and re.fullmatch(r"x\d+", kinds[int(t[1])]) and " | ec " in l:
                    ec = l.split(" | ec ")[1].split()[0]
                    same_code = ec == kinds[int(t[1])][1:]
                    stats["refusal_codes"]["agree" if same_code else "differ"] += 1
                    if not same_code and len(stats["refusal_codes"]["samples"]) < 5:
                        stats["refusal_codes"]["samples"].append({"backend": r["backend"], "op": op, "c13_model": kinds[int(t[1])][1:], "library": ec})
        if r["backend"] == "hdf5" and res["ok"] and r["outcome"] == "ok":
            ncl, hb = h5_census(r)
            stats["h5_closes_compared"] = stats.get("h5_closes_compared", 0) + ncl
            if ncl:
                ck.cov["traces_validated_against_impl"] += 1
            verdicts = verdicts + hb
        for key, desc in verdicts:
            rep = {"level": "cgio", "backend": r["backend"], "world": r["world"], "ops": r["ops"], "failure": desc,
                   "oracle": "sanitizer + descriptor/HDF5-id counts + handle tables + LeakSanitizer (no model involved)"}
            if r["files"]:
                rep["files_b64"] = {str(i): base64.b64encode(d).decode() for i, d in r["files"].items()}
            note(key, desc, rep)

    # ---------------- MLL level
    nml = 140 if big else 18
    cyc = 40 if big else 6
    scs = list(CORPUS_MLL)
    for i in range(nml):
        be = "adf" if i % 2 == 0 else "hdf5"
        scs.append(gen_mll(ck.rng, be, big))
    # the slope run of the design: one long repetition per back end in the thorough tier (cycle 10 vs cycle 200)
    nc = len(CORPUS_MLL)
    # the slope run of the design (cycle 10 vs cycle 200 in the thorough tier): one clean long session per back end
    fd = [fill_drain(be, v, 40 if big else 12) for v in FD_VARIANTS for be in ("adf", "hdf5")]
    # sizes around the growth steps of the zone maps (8, 16, 32, ... slots, two thirds usable)
    fd += [fill_drain(be, v, n, ["zone", "pzone"]) for be in ("adf", "hdf5") for v in ("same", "reopen") for n in ((1, 5, 6, 11, 22, 300) if big else (1, 6, 43))]
    nfd = len(fd)
    fd += [read_matrix(be, m) for be in ("adf", "hdf5") for m in ("r", "m")]
    fd += [gen_mll_refused(ck.rng, pick["mll-" + be].take(16), be) for be in ("adf", "hdf5") for _ in range(6 if big else 2)]
    stats["refused_pool"]["groups"] = {k: len(v.groups) for k, v in pick.items()}
    stats["refused_pool"]["groups_used_at_least_once"] = {k: len(v.used) for k, v in pick.items()}
    nfd = len(fd)
    scs = scs[:nc] + [long_session("adf"), long_session("hdf5")] + fd + scs[nc:]
    ncyc = lambda i: 3 if i < nc else (200 if big else 25) if i < nc + 2 else (12 if big else 4) if i < nc + 2 + nfd else cyc
    futs = [pool.submit(mll_case, hml, sc, ck.work, "ml%d" % i, ncyc(i)) for i, sc in enumerate(scs)]
    for fu in futs:
        r = fu.result()
        sc = r["sc"]
        stats["mll_sessions"][sc["backend"]] += 1
        stats["mll_shapes"][sc["shape"]] = stats["mll_shapes"].get(sc["shape"], 0) + 1
        stats["mll_ops"] += len(sc["body"])
        stats["mll_cycles"] += r["cycles"]
        stats["leak_checks"] += 1
        nontriv = sc["shape"] not in ("none",) or any(o.startswith("open") and int(o.split()[2]) in SPECIAL for o in sc["body"])
        ck.case(hashlib.sha1(("|".join(sc["body"]) + sc["backend"]).encode()).hexdigest() if nontriv else None,
                sample={"level": "mll", "backend": sc["backend"], "links": sc["shape"], "ops": sc["body"][:10] + ["..."], "cycles": r["cycles"]})
        stats["failing_opens_checked"] += sum(1 for op, l in zip(r["script"], r["impl"]) if op.startswith("open") and not l.startswith("open 0"))
        bad = mll_oracle(r)
        for key, desc in bad:
            rep = {"level": "mll", "backend": sc["backend"], "prep": sc["prep"], "body": sc["body"], "cycles": r["cycles"], "failure": desc,
                   "oracle": "sanitizer + descriptor/HDF5-id counts + LeakSanitizer + heap after cycle N vs warm-up (no model involved)"}
            if sc.get("files"):
                rep["files_b64"] = {str(i): base64.b64encode(d).decode() for i, d in sc["files"].items()}
                rep["file_desc"] = sc.get("file_desc")
            note(key, desc, rep)
        # model B: the MLL table after every cg_open / cg_close of the first repetition
        if res["ok"] and r["outcome"] == "ok":
            n1 = len(sc["prep"]) + len(sc["body"])
            ml, il = mll_model_lines(r["script"][:n1], r["impl"][:n1], mvariant, sc["backend"])
            stats["mll_tables_compared"] += len(ml)
            ck.cov["traces_validated_against_impl"] += 1
            if ml != il:
                dv = vlib.first_divergence(ml, il)
                corr_broken.append({"level": "mll", "backend": sc["backend"], "prep": sc["prep"], "body": sc["body"],
                                    "first_divergence": dv and {"line": dv[0], "model": dv[1], "impl": dv[2]},
                                    "explained_by": [b[0] for b in bad if b[0]]})
    pool.shutdown()

    # ---------------- verdicts
    unclassified = 0
    for k in sorted(findings):
        key, desc, rep = findings[k]
        if key is None:
            unclassified += 1
            same = lambda bad, desc=desc: any(kk is None and dd.get("problem") == desc.get("problem") for kk, dd in bad)
            try:
                if rep["level"] == "cgio" and len(rep["ops"]) > 3:
                    small = vlib.ddmin(rep["ops"], lambda ops, rep=rep: same(io_oracle(io_case(hio, rep["world"], ops, rep["backend"], ck.work, "shr", files=rep_files(rep)))), max_tests=60)
                    rr = io_oracle(io_case(hio, rep["world"], small, rep["backend"], ck.work, "shr", files=rep_files(rep)))
                    if same(rr):
                        rep = dict(rep, ops=small, ops_before_shrinking=len(rep["ops"]), failure=[dd for kk, dd in rr if kk is None][0])
                elif rep["level"] == "mll" and len(rep["body"]) > 8:
                    def mfails(body, rep=rep):
                        sc2 = {"prep": rep["prep"], "body": body, "backend": rep["backend"], "shape": "shrink", "nfiles": 0, "files": rep_files(rep)}
                        try:
                            return mll_oracle(mll_case(hml, sc2, ck.work, "shr", 3))
                        except vlib.Infra:
                            return []
                    small = vlib.ddmin(rep["body"], lambda b: same(mfails(b)), max_tests=50)
                    rr = mfails(small)
                    if same(rr):
                        rep = dict(rep, body=small, body_before_shrinking=len(rep["body"]), failure=[dd for kk, dd in rr if kk is None][0])
            except vlib.Infra:
                pass
            ck.violation(rep)
            continue
        # shrink the witness before reporting it (not needed for a key that is already listed: no replay is written)
        if not ck.known_match(key):
            if rep["level"] == "cgio" and len(rep["ops"]) > 3:
                def still(ops, rep=rep, key=key):
                    rr = io_case(hio, rep["world"], ops, rep["backend"], ck.work, "shr", files=rep_files(rep))
                    return any(kk == key for kk, _ in io_oracle(rr))
                small = vlib.ddmin(rep["ops"], still, max_tests=60)
                rep = dict(rep, ops=small, ops_before_shrinking=len(rep["ops"]))
                for kk, dd in io_oracle(io_case(hio, rep["world"], small, rep["backend"], ck.work, "shr", files=rep_files(rep))):
                    if kk == key:
                        rep["failure"] = dd          # the description of the shrunk witness, not of the session it came from
            elif rep["level"] == "mll" and len(rep["body"]) > 8:
                def still(body, rep=rep, key=key):
                    sc2 = {"prep": rep["prep"], "body": body, "backend": rep["backend"], "shape": "shrink", "nfiles": 0, "files": rep_files(rep)}
                    try:
                        rr = mll_case(hml, sc2, ck.work, "shr", 3)
                        return any(kk == key for kk, _ in mll_oracle(rr))
                    except vlib.Infra:
                        return False
                small = vlib.ddmin(rep["body"], still, max_tests=50)
                rep = dict(rep, body=small, body_before_shrinking=len(rep["body"]))
                try:
                    sc2 = {"prep": rep["prep"], "body": small, "backend": rep["backend"], "shape": "shrink", "nfiles": 0, "files": rep_files(rep)}
                    for kk, dd in mll_oracle(mll_case(hml, sc2, ck.work, "shr", 3)):
                        if kk == key:
                            rep["failure"] = dd
                except vlib.Infra:
                    pass
        ck.finding(key, rep)
    unexplained = [c for c in corr_broken if not c.get("explained_by")]
    # (a keyed finding does not explain a difference between the table model and the tables; an unclassified violation may)
    if (broken or unexplained) and not unclassified:
        ck.violation({"broken_obligations": broken, "broken_correspondence": unexplained[:3],
                      "note": "the Refcount model and the implementation differ (or an obligation no longer checks) although no explored session "
                              "left a descriptor, an HDF5 id, a handle-table slot or heap memory behind"}, nofail=True)
    ck.extra["correspondence_divergences"] = len(corr_broken)
    ck.extra["correspondence_divergence_samples"] = corr_broken[:2]
    ck.extra["input_distribution"] = stats
    ck.extra["finding_keys_seen"] = sorted(k for k in findings)


def replay(ck, path):
    r = json.load(open(path))
    vlib.build_impl()
    if r.get("level") == "cgio":
        h = vlib.build_harness("c17_io", ["c17_io.c"])
        rr = io_case(h, r["world"], r["ops"], r["backend"], ck.work, "replay", files=rep_files(r))
        bad = io_oracle(rr)
        print("\n".join(rr["impl"][-12:]))
    elif r.get("level") == "mll":
        h = vlib.build_harness("c17_mll", ["c17_mll.c"])
        sc = {"prep": r["prep"], "body": r["body"], "backend": r["backend"], "shape": "replay", "nfiles": 0, "files": rep_files(r)}
        rr = mll_case(h, sc, ck.work, "replay", r.get("cycles", 3))
        bad = mll_oracle(rr)
        print("\n".join(l for l in rr["impl"] if l.startswith("cycle") or l.startswith("end"))[-1500:])
    else:
        print("replay names a broken obligation / correspondence, no input to run:", json.dumps(r)[:1200])
        return 1
    print("replay: %s" % (json.dumps([(k, d.get("problem")) for k, d in bad]) if bad else "holds"))
    return 1 if bad else 0
