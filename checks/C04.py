"""C04 -- in modify mode the session view, the file and the edits never diverge.

Proof side : coq/Properties_C04.v over coq/Mirror.v (+ MirrorProofs.v): one parent node = the session mirror (one array of
             slots per child kind) + the file's ordered child list; write (overwrite in the same slot / re-create at the
             end of the file), in-place array rewrite, cg_delete_node with the dispatcher arm as a parameter, reopen.
             C04_content / C04_frame for EVERY history, C04_order for the index-preserving ones, C04_order_refuted,
             C04_failed_write_refuted, C04_wrong_arm_refuted; C04_dispatch_sound for ANY dispatcher table.
Tie (T)    : translators/c04_delete.py regenerates coq/Gen_C04.v from the current cg_delete_node (every arm), the
             refusal list, the two macros, the free functions, the overwrite loop of every cg_*_write and the overwrite
             tail of every cgi_*_address; Gen_C11.v (translators/c11_goto.py) supplies the goto table and the structs.
             The kernel re-evaluates delete_table_ok / write_table_ok / addr_tails_ok on the regenerated tables.
Tie (C)    : the extracted model (ocaml/eng_c04.ml) and the real library (harness/c04_mod.c, ASan/UBSan build of the
             working tree) run the same modify-mode histories -- about 145 (parent label, child label) sibling groups on
             ~42 position labels, every tree level, ADF and HDF5, compress-on-close off / on / always; every w / d / v /
             o line is compared.  Single children (CGNS_DELETE_CHILD arms) are exercised on the implementation only; those whose
             name the caller chooses (Mirror.user_named_singles over the regenerated child_names) get non-default names, are
             deleted by that name and created again under another one.
Links      : the histories contain cg_link_write to nodes of the same file and of a SECOND file (written by the same harness,
             written again with other payloads between the last cg_close and the fresh open) under every parent label of the
             regenerated white list; a link child is an opaque leaf whose view is cg_is_link + cg_link_read (file, path), never
             the data behind it; model: Mirror.link_new / op OLink (= cg_link_write + cg_close + cg_open),
             C04_link_identity_survives; C04_compress_keeps_links evaluates the regenerated guard of recurse_nodes (cgns_io.c).
             Node-context arrays are also rewritten in place (cg_array_general_write = OUpdate).
Data types : DataArray_t under parents that accept any array carry one of the seven mid-level types and a 1-D / 2-D shape chosen by
             the NAME; Blob_t nodes created through cgio carry all ten database types; every byte is verified on every view;
             phase (t) sends all of them through the rewrite at compress-on-close; C04_copy_data_sizes_consistent.
Hidden state: `zcmode keep` -- the harness selects a ZoneGridConnectivity_t container only when another one is wanted; a third
             of the random histories take views after every third op only.
Attributes : every entity whose writer re-creates it in a re-used slot (single children, units, multi-sibling positions; 118
             targets) is written, given every attribute the API accepts, overwritten, and compared -- session and fresh open --
             with the same entity created for the first time in a second file (harness `attach` / `full`); statically,
             C04_overwrite_reinitialises_every_field over Gen_C04.reinit_rows.
Oracles    : independent of the model, evaluated on the implementation's output only:
             O1 session vs fresh open  -- every view taken before a cg_close equals the view after cg_open (as a map
                name -> payload; as a list unless the history contains the by-design case below);
             O2 frame                  -- across one operation no other sibling of any kind under any live node changes,
                appears or disappears;
             O3 ideal tree             -- a Python dict-of-dicts reference (class Ref) predicts every status and every view.
Corpus     : corpus/C04/*.json -- the witnesses of the four defects this property found and /repo repaired (a8c4c3e
             cg_multifam_write id, 63c639c cgi_free_particle, 627245e ParticleIterativeData_t block, e5d5bea label arms before
             reserved names).  They run FIRST and must pass; a regression re-fires VIOLATION under the original key
             (multifam-overwrite-stale-id, pzone-close-frees-first-integral-repeatedly, delete-no-dispatch-block:<parent>,
             delete-arm-shadowed:<parent>/<label>:<name>) and the random histories then avoid that trigger.
Findings   : what the tree does by design or cannot repair cheaply goes through ck.finding(key) (listed as known):
               index-after-overwrite-nonlast:<label>      by design: the slot is re-used, the database appends
               index-after-reopen-sorted:<label>          by design: cgi_read_base orders (particle) zones by name
               failed-write-leaves-phantom                a write colliding with a sibling of another label fails after
                                                          the mirror was extended
               overwrite-keeps-attribute:<label>:<fields> phase "overwrite vs attributes": an entity overwritten in its re-used
                                                          slot still shows an attribute of the entity it replaced
               fresh-view-differs:<label>:<fields>        same phase: a freshly created entity reads differently in the session
                                                          and after a fresh open
               link-invisible-until-reopen                cg_link_write updates the file only (documented in its source)
               active-zconn-follows-index-after-delete    the current ZoneGridConnectivity_t is an index that a deletion shifts
               attribute-rewrite-refused:<label>:<what>   a single-valued attribute written a second time is refused after the
                                                          session value was changed
               array-general-write-stale-cache            cg_array_general_write on an array loaded at cg_open leaves the loaded
                                                          copy alone: cg_array_read answers the old values
             Whatever Mirror.shadowed / parents_without_block / unsound_kinds / bad_nrows flag on the regenerated tables
             (all empty now: C04_no_shadowed_arm, C04_every_position_has_a_block, C04_no_stale_id_rows) is replayed on the
             library and reported under delete-arm-shadowed:... / delete-no-dispatch-block:...; everything else -- any other
             index difference included -- is a VIOLATION.  See notes/C04.md.
"""
import hashlib, json, os, re
import vlib
from translators import c04_delete, c11_goto

CHECKER = "make -C coq Properties_C04.vo (coqc 8.16.1 kernel) ; coqc Properties_C04.v (Print Assumptions)"


def pregen():
    c11_goto.write_gen(repo=vlib.REPO)
    c04_delete.write_gen(repo=vlib.REPO)


# ----------------------------------------------------------------------------------------------- the catalogue of kinds
D, U, A, I, F = "Descriptor_t", "UserDefinedData_t", "DataArray_t", "IntegralData_t", "AdditionalFamilyName_t"
# parent label -> [(child label, mode, payload bound or None)]; mode w = delete + re-create, u = rewritten in place
CAT = {
    "CGNSTree_t": [("CGNSBase_t", "w", None)],
    "CGNSBase_t": [("Zone_t", "w", None), ("ParticleZone_t", "w", None), ("Family_t", "w", None), (I, "w", None), (D, "w", None),
                   (U, "w", None)],
    "Zone_t": [("GridCoordinates_t", "w", None), ("Elements_t", "w", None), ("FlowSolution_t", "w", None),
               ("DiscreteData_t", "w", None), ("RigidGridMotion_t", "w", None), ("ArbitraryGridMotion_t", "w", None),
               ("ZoneGridConnectivity_t", "w", None), ("ZoneSubRegion_t", "w", None), (I, "w", None), (U, "w", None),
               (D, "w", None), (F, "w", None)],
    "ZoneBC_t": [("BC_t", "w", None), (D, "w", None), (U, "w", None)],
    "BC_t": [("BCDataSet_t", "w", None), (D, "w", None), (U, "w", None), (F, "w", None)],
    "BCDataSet_t": [(D, "w", None), (U, "w", None)],
    "BCData_t": [(A, "w", None), (D, "w", None), (U, "w", None)],
    "ZoneGridConnectivity_t": [("GridConnectivity_t", "w", None), ("GridConnectivity1to1_t", "w", None),
                               ("OversetHoles_t", "w", None), (D, "w", None), (U, "w", None)],
    "GridConnectivity_t": [(D, "w", None), (U, "w", None)],
    "GridConnectivity1to1_t": [(D, "w", None), (U, "w", None)],
    "OversetHoles_t": [(D, "w", None), (U, "w", None)],
    "FlowSolution_t": [(A, "u", None), (D, "w", None), (U, "w", None)],
    "GridCoordinates_t": [(A, "u", None), (D, "w", None), (U, "w", None)],
    "Elements_t": [(D, "w", None), (U, "w", None)],
    "DiscreteData_t": [(A, "w", None), (D, "w", None), (U, "w", None)],
    "RigidGridMotion_t": [(A, "w", None), (D, "w", None), (U, "w", None)],
    "ArbitraryGridMotion_t": [(A, "w", None), (D, "w", None), (U, "w", None)],
    "ZoneSubRegion_t": [(A, "w", None), (D, "w", None), (U, "w", None), (F, "w", None)],
    "IntegralData_t": [(A, "w", None), (D, "w", None), (U, "w", None)],
    "UserDefinedData_t": [(A, "w", None), (D, "w", None), (U, "w", None), (F, "w", None)],
    "DataArray_t": [(D, "w", None)],
    "Family_t": [("FamilyBC_t", "w", 20), ("GeometryReference_t", "w", None), ("FamilyName_t", "w", None), ("Family_t", "w", None),
                 (D, "w", None), (U, "w", None)],
    "GeometryReference_t": [("GeometryEntity_t", "w", 1), (D, "w", None), (U, "w", None)],
    "FamilyBC_t": [("FamilyBCDataSet_t", "u", None)],     # cg_bcdataset_write keeps an existing node (re-creates only its BCData_t child)
    "FamilyBCDataSet_t": [(D, "w", None), (U, "w", None)],
    "ParticleZone_t": [("ParticleCoordinates_t", "w", None), ("ParticleSolution_t", "w", None), (I, "w", None), (U, "w", None),
                       (D, "w", None), (F, "w", None)],
    "ParticleSolution_t": [(A, "u", None), (D, "w", None), (U, "w", None)],
    "ParticleCoordinates_t": [(D, "w", None), (U, "w", None)],
    "ParticleIterativeData_t": [(A, "w", None), (D, "w", None), (U, "w", None)],
    # single-child containers (created by mk)
    "BaseIterativeData_t": [(A, "w", None), (D, "w", None), (U, "w", None)],
    "ZoneIterativeData_t": [(A, "w", None), (D, "w", None), (U, "w", None)],
    "ReferenceState_t": [(A, "w", None), (D, "w", None), (U, "w", None)],
    "ConvergenceHistory_t": [(A, "w", None), (D, "w", None), (U, "w", None)],
    "FlowEquationSet_t": [(D, "w", None), (U, "w", None)],
    "GoverningEquations_t": [(D, "w", None), (U, "w", None)],
    "GasModel_t": [(A, "w", None), (D, "w", None), (U, "w", None)],
    "ViscosityModel_t": [(A, "w", None), (D, "w", None), (U, "w", None)],
    "TurbulenceModel_t": [(A, "w", None), (D, "w", None), (U, "w", None)],
    "ParticleEquationSet_t": [(D, "w", None), (U, "w", None)],
    "ParticleGoverningEquations_t": [(D, "w", None), (U, "w", None)],
    "ParticleCollisionModel_t": [(A, "w", None), (D, "w", None), (U, "w", None)],
    "Gravity_t": [(D, "w", None), (U, "w", None)],
    "RotatingCoordinates_t": [(D, "w", None), (U, "w", None)],
    "BCProperty_t": [(D, "w", None), (U, "w", None)],
    "WallFunction_t": [(D, "w", None), (U, "w", None)],
    "Area_t": [(D, "w", None), (U, "w", None)],
    "GridConnectivityProperty_t": [(D, "w", None), (U, "w", None)],
    "Periodic_t": [(D, "w", None), (U, "w", None)],
    "AverageInterface_t": [(D, "w", None), (U, "w", None)],
}
# mk <what> [arg] at a parent of label ... creates these nodes: (what, arg, parent label, [(name, label) from the parent down])
MK = [
    ("biter", None, "CGNSBase_t", [("BaseIterativeData", "BaseIterativeData_t")]),
    ("ziter", None, "Zone_t", [("ZoneIterativeData", "ZoneIterativeData_t")]),
    ("piter", None, "ParticleZone_t", [("ParticleIterativeData", "ParticleIterativeData_t")]),
    ("state", None, "CGNSBase_t", [("ReferenceState", "ReferenceState_t")]),
    ("state", None, "Zone_t", [("ReferenceState", "ReferenceState_t")]),
    ("state", None, "ZoneBC_t", [("ReferenceState", "ReferenceState_t")]),
    ("state", None, "BC_t", [("ReferenceState", "ReferenceState_t")]),
    ("state", None, "BCDataSet_t", [("ReferenceState", "ReferenceState_t")]),
    ("state", None, "ParticleZone_t", [("ReferenceState", "ReferenceState_t")]),
    ("converg", None, "CGNSBase_t", [("GlobalConvergenceHistory", "ConvergenceHistory_t")]),
    ("converg", None, "Zone_t", [("ZoneConvergenceHistory", "ConvergenceHistory_t")]),
    ("eqset", None, "CGNSBase_t", [("FlowEquationSet", "FlowEquationSet_t")]),
    ("eqset", None, "Zone_t", [("FlowEquationSet", "FlowEquationSet_t")]),
    ("governing", None, "FlowEquationSet_t", [("GoverningEquations", "GoverningEquations_t")]),
    ("model", "GasModel_t", "FlowEquationSet_t", [("GasModel", "GasModel_t")]),
    ("model", "ViscosityModel_t", "FlowEquationSet_t", [("ViscosityModel", "ViscosityModel_t")]),
    ("model", "TurbulenceModel_t", "FlowEquationSet_t", [("TurbulenceModel", "TurbulenceModel_t")]),
    ("peqset", None, "ParticleZone_t", [("ParticleEquationSet", "ParticleEquationSet_t")]),
    ("pgoverning", None, "ParticleEquationSet_t", [("ParticleGoverningEquations", "ParticleGoverningEquations_t")]),
    ("pmodel", "ParticleCollisionModel_t", "ParticleEquationSet_t", [("ParticleCollisionModel", "ParticleCollisionModel_t")]),
    ("gravity", None, "CGNSBase_t", [("Gravity", "Gravity_t")]),
    ("rotating", None, "CGNSBase_t", [("RotatingCoordinates", "RotatingCoordinates_t")]),
    ("rotating", None, "Zone_t", [("RotatingCoordinates", "RotatingCoordinates_t")]),
    ("bcdata", None, "BCDataSet_t", [("DirichletData", "BCData_t")]),
    ("wallfn", None, "BC_t", [("BCProperty", "BCProperty_t"), ("WallFunction", "WallFunction_t")]),
    ("area", None, "BC_t", [("BCProperty", "BCProperty_t"), ("Area", "Area_t")]),
    ("periodic", None, "GridConnectivity_t", [("GridConnectivityProperty", "GridConnectivityProperty_t"), ("Periodic", "Periodic_t")]),
    ("average", None, "GridConnectivity_t", [("GridConnectivityProperty", "GridConnectivityProperty_t"), ("AverageInterface", "AverageInterface_t")]),
]
# single children whose NAME the caller chooses (cg_biter_write / cg_ziter_write / cg_piter_write take it): filled by run() from
# the regenerated tables (Mirror.user_named_singles over Gen_C04.child_names); the histories give them non-default names
USER_NAMED = set()
_inst = {"n": 0}


def inst(m, name=None):
    """an MK entry as (what, arg, chain) -- with a fresh non-default name when the kind is caller-named"""
    what, arg, _, chain = m
    if len(chain) == 1 and chain[0][1] in USER_NAMED:
        if name is None:
            _inst["n"] += 1
            name = "%s.%d" % (chain[0][0][:20], _inst["n"])
        return what, name, [(name, chain[0][1])]
    return what, arg, chain


def mk_op(path, m, name=None):
    what, arg, chain = inst(m, name)
    return ("mk", path, what, arg, chain)


# labels of single children (CGNS_DELETE_CHILD arms): not modelled by Mirror.v, exercised on the implementation only
CONTAINER_LABELS = {lab for m in MK for _, lab in m[3]} | {"ZoneBC_t"}
TAG = {"CGNSBase_t": "B", "Zone_t": "Z", "ParticleZone_t": "PZ", "Family_t": "Fam", I: "Int", D: "De", U: "Ud", A: "Ar", F: "Afn",
       "GridCoordinates_t": "Gc", "Elements_t": "El", "FlowSolution_t": "Sol", "DiscreteData_t": "Dd", "RigidGridMotion_t": "Rm",
       "ArbitraryGridMotion_t": "Am", "ZoneGridConnectivity_t": "Zgc", "ZoneSubRegion_t": "Sr", "BC_t": "Bc", "BCDataSet_t": "Ds",
       "GridConnectivity_t": "Cn", "GridConnectivity1to1_t": "C1", "OversetHoles_t": "Ho", "FamilyBC_t": "Fb",
       "GeometryReference_t": "Geo", "FamilyName_t": "Fn", "GeometryEntity_t": "Pt", "FamilyBCDataSet_t": "Fds",
       "ParticleCoordinates_t": "Pc", "ParticleSolution_t": "Ps"}


def join(path, name):
    return "/" + name if path == "/" else path + "/" + name


# ---- links.  LINK_PARENTS = the white list of cg_link_write (Gen_C04.link_parents, filled by load_link_parents()); a link child
# is an opaque leaf whose payload is the string "@<file>|<path>" (file empty = the same file); kinds without a "P" descriptor
NO_P = {D, F, "FamilyName_t", "FamilyBC_t", "GeometryEntity_t"}
LINK_PARENTS = set()
GOTO_CHILDREN = {}                 # parent label -> the child labels cg_goto accepts there (Gen_C11.goto_table)


def load_link_parents():
    LINK_PARENTS.clear()
    GOTO_CHILDREN.clear()
    for l in vlib.run_model("c04", "tables\n"):
        t = l.split()
        if t[0] == "link_parents":
            LINK_PARENTS.update(t[1].split(",") if len(t) > 1 else [])
        elif t[0] == "goto":
            GOTO_CHILDREN[t[1]] = t[2].split(",") if len(t) > 2 else []


# arrays whose dimension the reader checks against the size of the zone they are read under: a link to such an array is
# readable only from a zone of the same size (the link phase builds both with the same size; the random histories, whose zones
# have random sizes, make no such links)
SIZE_BOUND = {("ArbitraryGridMotion_t", A), ("DiscreteData_t", A)}


def is_link(p):
    return isinstance(p, str) and p.startswith("@")


def link_kinds_at(path, pl):
    """the kinds a link child under `path` may have in the histories: those whose writer deletes and re-creates (an in-place
    rewrite would go THROUGH the link into the target) and whose reader needs nothing of the zone the target lives in"""
    return [k for k in kinds_at(path, pl) if k[1] == "w" and k[0] in GOTO_CHILDREN.get(pl, [])]     # (cg_is_link needs the position)


# triggers of defects still present in /repo (set by the probes at the start of a run): the random histories avoid them
AVOID = {"afn_overwrite": False, "pzone_integral": False, "pit": False, "stale_array": False, "active_zconn": False}
# parents whose arrays cgi_read_array does NOT load into memory when the file is opened
NOCACHE = {"GridCoordinates_t", "FlowSolution_t", "Elements_t", "ZoneSubRegion_t", "DiscreteData_t", "ParticleCoordinates_t",
           "ParticleSolution_t", "UserDefinedData_t"}


def kinds_at(path, pl):
    """the sibling kinds the harness can drive under the node `path` (label pl)"""
    ks = list(CAT.get(pl, []))
    if pl == "ParticleZone_t" and AVOID["pzone_integral"]:
        ks = [k for k in ks if k[0] != I]           # two IntegralData_t under a particle zone crash cg_close
    if pl == "GridCoordinates_t" and not path.endswith("/GridCoordinates"):
        ks = [k for k in ks if k[0] != A]           # cg_coord_write addresses the node called GridCoordinates
    if pl == "Family_t" and path.count("/") > 2:
        ks = [k for k in ks if k[0] not in ("FamilyBC_t", "GeometryReference_t")]   # index API: top-level families only
    if pl == "CGNSTree_t":
        ks = [k for k in ks]
    return ks


# ----------------------------------------------------------------------------------------------- the independent reference
class Ref:
    """The ideal tree: nodes[path] = {label, names: {name: (label, payload)}, file: [names in file order],
    slots: {label: [names in session order]}}.  Only what the API documents: write = set, delete = remove (with the
    subtree), an overwritten entity is a new empty entity; a fresh open lists the file order."""

    def __init__(self):
        self.nodes = {"/": self._new("CGNSTree_t")}

    @staticmethod
    def _new(label):
        return {"label": label, "names": {}, "file": [], "slots": {}, "blobs": []}

    def drop(self, path):
        for k in [k for k in self.nodes if k == path or k.startswith(path + "/")]:
            del self.nodes[k]

    def parent_for(self, path, pl, label):
        """the node that must exist for a write of `label` under `path`"""
        if pl == "ZoneBC_t" and label == "BC_t" and path not in self.nodes:
            up = path.rsplit("/", 1)[0] or "/"
            if up in self.nodes and self.nodes[up]["label"] == "Zone_t" and "ZoneBC" not in self.nodes[up]["names"]:
                self._add(up, "ZoneBC", "ZoneBC_t", 0)      # cg_boco_write creates the container
                self.nodes[up]["file"].append("ZoneBC")
                self.nodes[path] = self._new("ZoneBC_t")
        return self.nodes.get(path)

    def _add(self, path, name, label, p):
        nd = self.nodes[path]
        fresh = name not in nd["names"]
        nd["names"][name] = (label, p)
        if name not in nd["slots"].setdefault(label, []):
            nd["slots"][label].append(name)
        return fresh

    def write(self, path, pl, label, name, p, mode):
        nd = self.parent_for(path, pl, label)
        if nd is None or nd["label"] != pl:
            return 1, 0
        old = nd["names"].get(name)
        if old is not None and old[0] != label:
            return 1, 0
        fresh = self._add(path, name, label, p)
        if fresh:
            nd["file"].append(name)
        elif mode == "w":
            nd["file"].remove(name); nd["file"].append(name)
        cp = join(path, name)
        if mode == "w" or fresh:
            self.drop(cp)
            if label in CAT:
                self.nodes[cp] = self._new(label)
        return 0, nd["slots"][label].index(name) + 1

    def link(self, path, pl, label, name, ident):
        """cg_link_write: refused under a parent label that is not on the white list or when the name is taken; otherwise the
        FILE has a new child -- the session lists it after the next cg_close + cg_open (no slot here)"""
        nd = self.nodes.get(path)
        if nd is None or nd["label"] != pl or pl not in LINK_PARENTS or name in nd["names"]:
            return 1
        nd["names"][name] = (label, ident)
        nd["file"].append(name)
        return 0

    def raw(self, path, pl, name, p):
        """a node the mid-level library does not interpret (label Blob_t), created through cgio: the file has it"""
        nd = self.nodes.get(path)
        if nd is None or nd["label"] != pl or name in nd["names"] or name in [b[0] for b in nd["blobs"]]:
            return 1
        nd["blobs"].append((name, p))
        return 0

    def links(self):
        """live link children: (parent path, name, label, identity)"""
        return [(p, n, lab, pay) for p, nd in self.nodes.items() for n, (lab, pay) in nd["names"].items() if is_link(pay)]

    def pinned(self, sub):
        """is `sub` or something below it the target of a live link inside the same file?"""
        for _, _, _, ident in self.links():
            f, t = ident[1:].split("|", 1)
            if f == "" and (t == sub or t.startswith(sub + "/")):
                return True
        return False

    def has_link_below(self, sub):
        return any(p == sub or p.startswith(sub + "/") for p, _, _, _ in self.links())

    def inside_target(self, path):
        """is `path` at or below the target of a live same-file link?  (links there would chain)"""
        for _, _, _, ident in self.links():
            f, t = ident[1:].split("|", 1)
            if f == "" and (path == t or path.startswith(t + "/")):
                return True
        return False

    def mk(self, path, chain):
        """a single-child container: the intermediate node of a chain (BCProperty_t, GridConnectivityProperty_t) is kept when
        it exists, the last one is deleted and created again (its subtree is gone)"""
        nd = self.nodes.get(path)
        if nd is None:
            return 1
        cur = path
        for i, (name, label) in enumerate(chain):
            n = self.nodes[cur]
            last = i == len(chain) - 1
            if last:
                for old in [o for o, (lab, _) in n["names"].items() if lab == label and o != name]:
                    n["names"].pop(old); n["file"].remove(old); n["slots"][label].remove(old)
                    self.drop(join(cur, old))
            if name in n["names"] and last:
                n["file"].remove(name); n["file"].append(name)
                self.drop(join(cur, name))
                self.nodes[join(cur, name)] = self._new(label)
            elif name not in n["names"]:
                self._add(cur, name, label, 0)
                n["file"].append(name)
                self.nodes[join(cur, name)] = self._new(label)
            cur = join(cur, name)
        return 0

    def delete(self, path, name):
        nd = self.nodes.get(path)
        if nd is None or name not in nd["names"]:
            return 1
        label = nd["names"].pop(name)[0]
        nd["file"].remove(name)
        if name in nd["slots"].get(label, []):
            nd["slots"][label].remove(name)
        self.drop(join(path, name))
        return 0

    @staticmethod
    def sorted_on_read(plabel, label):
        """cgi_read_base orders the zones and the particle zones of a base by name (strcmp)"""
        return plabel == "CGNSBase_t" and label in ("Zone_t", "ParticleZone_t")

    def read_order(self, nd, label):
        names = [n for n in nd["file"] if nd["names"][n][0] == label]
        return sorted(names, key=lambda x: x.encode()) if self.sorted_on_read(nd["label"], label) else names

    def reopen(self):
        for nd in self.nodes.values():
            for label in set(nd["slots"]) | {lab for lab, _ in nd["names"].values()}:
                nd["slots"][label] = self.read_order(nd, label)

    def view(self, path, pl, label):
        nd = self.nodes.get(path)
        if nd is None or nd["label"] != pl:
            return []
        if label == "Blob_t":
            return list(nd["blobs"])
        return [(n, nd["names"][n][1]) for n in nd["slots"].get(label, []) if n in nd["names"]]

    def file_view(self, path, label):
        nd = self.nodes.get(path)
        if nd is None:
            return []
        return [(n, nd["names"][n][1]) for n in self.read_order(nd, label)]

    def groups(self, nonempty_only=False):
        out = []
        for path, nd in self.nodes.items():
            for label, _, _ in kinds_at(path, nd["label"]):
                if nonempty_only and not nd["slots"].get(label):
                    continue
                out.append((path, nd["label"], label))
            if nd["blobs"]:
                out.append((path, nd["label"], "Blob_t"))
        return out


def fmt_view(v):
    return "v %d %s" % (len(v), ",".join("%s:%s" % x for x in v) if v else "-")


def parse_view(line):
    """'v n a:1,b:2' -> [(a,'1'),(b,'2')] (payloads stay strings: '?', '5!a=1' are findings in themselves) or None"""
    m = re.match(r"v (\d+) (\S+)$", line or "")
    if not m:
        return None
    if m.group(2) == "-":
        return []
    out = []
    for item in m.group(2).split(","):
        if ":" not in item:
            out.append((item, "?"))
        else:
            n, p = item.split(":", 1)
            out.append((n, p))
    return out


# ----------------------------------------------------------------------------------------------- scripts
def header(backend, path, compress):
    # zcmode keep: the harness selects a ZoneGridConnectivity_t container (cg_zconn_set) only when ANOTHER one is wanted -- the
    # library must keep the selected container current while its siblings are deleted
    return ["ft " + backend, "compress %d" % compress, "zcmode " + ("set" if AVOID["active_zconn"] else "keep"),
            "open w " + path, "w / CGNSTree_t CGNSBase_t B 1", "close", "open m " + path]


def donor_plan(pl, label, gen):
    """the ops that make, in the file links point into, an entity of kind `label` under a node labelled pl -> (ops, its path);
    generation `gen` of that file gives the entity another payload (the file is regenerated before the fresh open)"""
    r = route_ops(pl, fixed=True)
    if r is None:
        return None
    ops, path = r
    entry = [k for k in kinds_at(path, pl) if k[0] == label]
    if not entry:
        return None
    mode, bound = entry[0][1], entry[0][2]
    pay = 17 + 100 * gen
    name = "T" + TAG.get(label, "N")
    return ops + [(mode, path, pl, label, name, pay % bound if bound else pay)], join(path, name), (pay % bound if bound else pay)


def donor_file(fpath):
    return fpath + ".donor"


def donor_lines(ops, target, gen):
    """script lines that write generation `gen` of the link-target file to `target`"""
    seen, body = set(), []
    for op in ops:
        if op[0] in ("ln", "lnraw") and op[5] == "D":
            plan = donor_plan(op[2], op[3], gen)
            if plan is None:
                continue
            for o in plan[0]:
                l = op_line(o)
                if l not in seen:
                    seen.add(l); body.append(l)
    # (filled in modify mode like the main file: the harness reads the zone size back to dimension arrays)
    return ["open w " + target, "w / CGNSTree_t CGNSBase_t B 1", "close", "open m " + target] + body + ["close"]


def expand(ops, backend, fpath, compress, full_every=None, sparse=0):
    """ops (w/u/d/mk/reopen/ln tuples) -> (script lines, expectations) where expectations[i] describes what line i must be.
    After every op (sparse = N: after every N-th op only) the views of all kinds under the op's parent and of every non-empty
    group are taken; around a reopen every group of every live node is viewed.  ("ln", path, pl, label, name, "D" | "", target path) = cg_link_write (into the
    second file / the same file) followed by cg_close + cg_open; "lnraw" = without that.  When a link into the second file
    occurs, that file is written first and written AGAIN, with other payloads, between the last cg_close and the fresh open."""
    ref = Ref()
    ref.write("/", "CGNSTree_t", "CGNSBase_t", "B", 1, "w")
    donor = donor_file(fpath)
    ext = any(op[0] in ("ln", "lnraw") and op[5] == "D" for op in ops)
    lines, exp = [], []
    if ext:
        lines = ["ft " + backend] + donor_lines(ops, donor, 1)
        exp = [("c", None)] + [("donor", None)] * (len(lines) - 1)
    h = header(backend, fpath, compress)
    lines += h
    exp += [("c", None)] * len(h)
    exp[len(lines) - 3] = ("w", (0, 1))

    def views(groups, tag):
        for g in groups:
            lines.append("v %s %s %s" % g)
            exp.append(("v", (g, ref.view(*g), tag)))

    for k, op in enumerate(ops):
        if op[0] in ("w", "u"):
            _, path, pl, label, name, p = op
            st, idx = ref.write(path, pl, label, name, p, op[0])
            lines.append("%s %s %s %s %s %d" % (op[0], path, pl, label, name, p))
            exp.append(("w", (st, idx if st == 0 else 0), k))
            near = [(path, pl, l) for l, _, _ in kinds_at(path, pl)]
        elif op[0] in ("ln", "lnraw"):
            _, path, pl, label, name, tfile, tpath = op
            st = ref.link(path, pl, label, name, "@%s|%s" % (donor if tfile == "D" else "", tpath))
            lines.append("ln %s %s %s %s %s %s" % (path, pl, label, name, donor if tfile == "D" else "-", tpath))
            exp.append(("l", st, k))
            if op[0] == "ln":
                ref.reopen()
                lines.append("reopen m")
                exp.append(("o", 0, k))
            near = [(path, pl, l) for l, _, _ in kinds_at(path, pl)] if path in ref.nodes else []
        elif op[0] == "raw":
            _, path, pl, name, p = op
            st = ref.raw(path, pl, name, p)
            lines.append("raw %s %s %s %d" % (path, pl, name, p))
            exp.append(("l", st, k))
            near = [(path, pl, "Blob_t")] if path in ref.nodes else []
        elif op[0] == "d":
            _, path, pl, name = op
            nd = ref.nodes.get(path)
            single = bool(nd and name in nd["names"] and nd["names"][name][0] in CONTAINER_LABELS)
            st = ref.delete(path, name)
            lines.append("d %s %s %s" % (path, pl, name))
            exp.append(("d", st, k, single))
            near = [(path, pl, l) for l, _, _ in kinds_at(path, pl)]
        elif op[0] == "mk":
            _, path, what, arg, chain = op
            gone = []
            if path in ref.nodes and len(chain) == 1:
                gone = [join(path, o) for o, (lab, _) in ref.nodes[path]["names"].items() if lab == chain[0][1] and o != chain[0][0]]
            st = ref.mk(path, chain)
            lines.append("mk %s %s%s" % (path, what, " " + arg if arg else ""))
            inner = path
            for name, _ in chain:
                inner = join(inner, name)
            exp.append(("c", st, k, [inner] + gone))          # the (re-)created container: the engine forgets what was below it
            near = []
        elif op[0] == "reopen":
            views(ref.groups(), ("pre", k))
            ref.reopen()
            lines.append("reopen " + op[1])
            exp.append(("o", 0, k))
            views(ref.groups(), ("post", k))
            continue
        else:
            raise ValueError(op)
        if sparse and k % sparse != sparse - 1:
            continue                      # sparse views: state the library keeps BETWEEN calls is not refreshed by reads
        seen = set()
        gs = []
        for g in near + ref.groups(nonempty_only=True):
            if g not in seen and g[0] in ref.nodes:
                seen.add(g); gs.append(g)
        views(gs, ("after", k))
    views(ref.groups(), ("pre", len(ops)))
    ref.reopen()
    if ext:
        # cg_close; the file the links point into is written again with other payloads; the fresh open
        lines.append("close"); exp.append(("c", 0))
        d2 = donor_lines(ops, donor + ".new", 2) + ["mv %s.new %s" % (donor, donor)]
        lines += d2; exp += [("donor", None)] * len(d2)
        lines.append("open r " + fpath); exp.append(("o2", 0, len(ops)))
    else:
        lines.append("reopen r")
        exp.append(("o", 0, len(ops)))
    views(ref.groups(), ("post", len(ops)))
    if ext:
        # what lies behind a link into the second file is what that file holds NOW
        for lp, ln, lab, ident in ref.links():
            if ident.startswith("@" + donor + "|") and lab not in NO_P:
                plan = donor_plan(ref.nodes[lp]["label"], lab, 2)
                if plan is not None and ident == "@%s|%s" % (donor, plan[1]):
                    lines.append("p " + join(lp, ln)); exp.append(("p", plan[2]))
    lines.append("close")
    exp.append(("c", None))
    return lines, exp


def evaluate(ops, lines, exp, out, outcome):
    """the three oracles on the implementation's output -> list of failures (dicts with a 'class')"""
    fails = []
    if outcome != "ok":
        return [{"class": "crash", "outcome": outcome, "last_lines": out[-3:]}]
    if len(out) != len(lines):
        return [{"class": "output-length", "expected": len(lines), "got": len(out), "tail": out[-3:]}]
    snap_prev, snap_cur = {}, {}
    snap_prev_k = -1
    pre = {}
    cur_tag = None
    for i, (e, got) in enumerate(zip(exp, out)):
        kind = e[0]
        if kind == "c":
            if e[1] is not None and got != "c %d" % e[1]:
                fails.append({"class": "status", "line": lines[i], "expected": "c %d" % e[1], "got": got})
            continue
        if kind == "w":
            want = "w %d %d" % e[1]
            if got != want:
                fails.append({"class": "status", "line": lines[i], "expected": want, "got": got, "op": e[2] if len(e) > 2 else None})
            continue
        if kind == "d":
            if got != "d %d" % e[1]:
                fails.append({"class": "status", "line": lines[i], "expected": "d %d" % e[1], "got": got, "op": e[2]})
            continue
        if kind == "o":
            if got != "o 0":
                fails.append({"class": "reopen-failed", "line": lines[i], "got": got})
            continue
        if kind == "o2":
            if got != "c 0":
                fails.append({"class": "reopen-failed", "line": lines[i], "got": got})
            continue
        if kind == "donor":
            if not got.startswith(("w 0", "c 0")):
                fails.append({"class": "link-target-file", "line": lines[i], "got": got,
                              "note": "the second file (the target of the links) could not be written"})
            continue
        if kind == "l":
            if got != "l %d" % e[1]:
                fails.append({"class": "status", "line": lines[i], "expected": "l %d" % e[1], "got": got, "op": e[2]})
            continue
        if kind == "p":
            if got != "p %d" % e[1]:
                fails.append({"class": "through-link", "oracle": "a link into another file shows what that file holds now",
                              "line": lines[i], "expected": "p %d" % e[1], "got": got})
            continue
        g, want, tag = e[1]
        v = parse_view(got)
        if v is None:
            fails.append({"class": "view-unreadable", "line": lines[i], "got": got}); continue
        wants = [(n, str(p)) for n, p in want]
        # O3: the ideal tree
        if dict(v) != dict(wants) or len(v) != len(wants):
            fails.append({"class": "content", "oracle": "O3 ideal tree", "group": g, "when": tag, "expected": fmt_view(want), "got": got})
        elif v != wants:
            fails.append({"class": "order", "oracle": "O3 ideal tree", "group": g, "when": tag, "expected": fmt_view(want), "got": got})
        # O1: session vs fresh open
        if tag[0] == "pre":
            pre[(tag[1], g)] = v
        elif tag[0] == "post":
            s = pre.get((tag[1], g))
            if s is not None:
                if dict(s) != dict(v) or len(s) != len(v):
                    fails.append({"class": "content", "oracle": "O1 session vs fresh open", "group": g, "at_reopen": tag[1],
                                  "session": s, "reopened": v})
                elif s != v:
                    fails.append({"class": "index", "oracle": "O1 session vs fresh open", "group": g, "at_reopen": tag[1],
                                  "session": s, "reopened": v})
        # O2: frame
        if tag != cur_tag:
            if cur_tag is not None and cur_tag[0] in ("after", "pre"):
                snap_prev = snap_cur
                snap_prev_k = cur_tag[1]
            snap_cur = {} if tag[0] != "post" else snap_cur
            cur_tag = tag
        if tag[0] in ("after", "pre"):
            snap_cur[g] = v
            if tag[0] == "after" and g in snap_prev and tag[1] - snap_prev_k <= 1:      # (sparse views: several ops lie between)
                op = ops[tag[1]]
                tpath, tname = (op[1], op[4]) if op[0] in ("w", "u", "ln", "lnraw") else (op[1], op[3]) if op[0] in ("d", "raw") else (None, None)
                sub = join(tpath, tname) if tpath else None
                if sub and (g[0] == sub or g[0].startswith(sub + "/")):
                    continue
                before, after = dict(snap_prev[g]), dict(v)
                for n in set(before) | set(after):
                    if g[0] == tpath and n == tname:
                        continue
                    if before.get(n) != after.get(n):
                        fails.append({"class": "frame", "oracle": "O2 sibling untouched", "group": g, "op": lines_of_op(op),
                                      "sibling": n, "before": before.get(n), "after": after.get(n)})
    return fails


def links_well_formed(ops):
    """no link of the history ever dangles: the target of a link inside the file exists when the link is made and as long as
    the link lives (the API documents an error for a missing target: such histories say nothing)"""
    ref = Ref()
    ref.write("/", "CGNSTree_t", "CGNSBase_t", "B", 1, "w")

    def exists(t):
        up, name = (t.rsplit("/", 1)[0] or "/"), t.rsplit("/", 1)[1]
        nd = ref.nodes.get(up)
        return bool(nd and name in nd["names"] and not is_link(nd["names"][name][1]))
    for op in ops:
        if op[0] in ("w", "u"):
            ref.write(op[1], op[2], op[3], op[4], op[5], op[0])
        elif op[0] == "d":
            ref.delete(op[1], op[3])
        elif op[0] == "mk":
            ref.mk(op[1], op[4])
        elif op[0] == "reopen":
            ref.reopen()
        elif op[0] == "raw":
            ref.raw(op[1], op[2], op[3], op[4])
        elif op[0] in ("ln", "lnraw"):
            if op[5] == "" and not exists(op[6]):
                return False
            ref.link(op[1], op[2], op[3], op[4], "@%s|%s" % ("<D>" if op[5] == "D" else "", op[6]))
        for _, _, _, ident in ref.links():
            f, t = ident[1:].split("|", 1)
            if f == "" and not exists(t):
                return False
    return True


def lines_of_op(op):
    if op[0] in ("w", "u"):
        return "%s %s %s %s %s %d" % op
    if op[0] == "d":
        return "d %s %s %s" % op[1:]
    if op[0] == "mk":
        return "mk %s %s%s" % (op[1], op[2], " " + op[3] if op[3] else "")
    if op[0] in ("ln", "lnraw"):
        return "%s %s %s %s %s %s %s" % (op[0], op[1], op[2], op[3], op[4], "<second file>" if op[5] == "D" else "-", op[6])
    return " ".join(str(x) for x in op)


def run_case(exe, ops, backend, fpath, compress, sparse=0):
    if os.path.exists(fpath):
        os.unlink(fpath)
    lines, exp = expand(ops, backend, fpath, compress, sparse=sparse)
    out, outcome = vlib.run_impl(exe, "\n".join(lines) + "\n", timeout=300)
    for f in (donor_file(fpath), donor_file(fpath) + ".new", fpath + ".temp"):
        if os.path.exists(f):
            os.unlink(f)
    return lines, exp, out, outcome


def order_by_design(ops, fails):
    """Are all failures index differences between the session and a fresh open that the reference PREDICTED?  class Ref
    implements the documented order rules (a slot is re-used on overwrite, the database appends the re-created node, the
    zones of a base are sorted by name on read); O3 has compared every view -- before and after the reopen -- with it, so
    when only O1 'index' failures remain the difference is exactly the predicted one.  -> the finding keys, or None"""
    keys = set()
    for f in fails:
        if f["class"] != "index":
            return None
        g = f["group"]
        if Ref.sorted_on_read(g[1], g[2]):
            keys.add("index-after-reopen-sorted:" + g[2])
        else:
            keys.add("index-after-overwrite-nonlast:" + g[2])
    return keys


# ----------------------------------------------------------------------------------------------- the generator
class Gen:
    def __init__(self, rng, big=False, allow_nonlast=True, links=0.0):
        self.rng, self.big, self.allow_nonlast = rng, big, allow_nonlast
        self.links = links            # probability that an edit step creates a link
        self.ref = Ref()
        self.ref.write("/", "CGNSTree_t", "CGNSBase_t", "B", 1, "w")
        self.ops = []
        self.counter = 0
        self.touched = {}            # (parent label, label) -> set of op kinds seen
        self.mk_done = set()
        self.loaded = set()          # (parent path, name) of the arrays the library loaded at the last cg_open

    def fresh_name(self, label):
        self.counter += 1
        r = self.rng.random()
        base = "%s%d" % (TAG.get(label, "N"), self.counter)
        if r < 0.06:
            return (base + "_" + "x" * 32)[:32]          # a 32-character name
        if r < 0.10:
            return base + ".v-2"
        return base

    def payload(self, bound):
        return self.rng.randrange(bound) if bound else self.rng.randint(0, 9999)

    def note(self, pl, label, what):
        self.touched.setdefault((pl, label), set()).add(what)

    def array_mode(self, path, pl, label, name, mode):
        """a DataArray_t under a parent of the node-context API can also be rewritten in place (cg_array_general_write)"""
        if label != A or mode != "w" or self.rng.random() >= 0.35:
            return mode
        if AVOID["stale_array"] and (path, name) in self.loaded:
            return mode
        return "u"

    def emit(self, op):
        self.ops.append(op)
        if op[0] in ("reopen", "ln"):
            self.loaded = None
        elif op[0] in ("w", "d") and self.loaded:
            self.loaded.discard((op[1], op[4] if op[0] == "w" else op[3]))
        self._emit(op)
        if self.loaded is None:
            self.loaded = {(p, n) for p, nd in self.ref.nodes.items() if nd["label"] not in NOCACHE
                           for n, (lab, _) in nd["names"].items() if lab == A}

    def _emit(self, op):
        if op[0] in ("w", "u"):
            self.ref.write(op[1], op[2], op[3], op[4], op[5], op[0])
        elif op[0] == "d":
            self.ref.delete(op[1], op[3])
        elif op[0] == "mk":
            self.ref.mk(op[1], op[4])
        elif op[0] == "reopen":
            self.ref.reopen()
        elif op[0] == "raw":
            self.ref.raw(op[1], op[2], op[3], op[4])
        elif op[0] in ("ln", "lnraw"):
            self.ref.link(op[1], op[2], op[3], op[4], "@%s|%s" % ("<D>" if op[5] == "D" else "", op[6]))
            if op[0] == "ln":
                self.ref.reopen()

    def link_op(self, path, pl, label):
        """a link child of kind `label` under `path`: into the second file, or to an existing entity of that kind under a
        parent with the same label in this file (never to an ancestor, never from inside a target: no chains, no cycles)"""
        if pl not in LINK_PARENTS or self.ref.inside_target(path) or not [k for k in link_kinds_at(path, pl) if k[0] == label] \
                or (pl, label) in SIZE_BOUND:
            return None
        name = ("L" + self.fresh_name(label))[:32]
        cands = []
        for tp, nd in self.ref.nodes.items():
            if nd["label"] != pl:
                continue
            for n, (lab, pay) in nd["names"].items():
                t = join(tp, n)
                if lab == label and not is_link(pay) and n in nd["slots"].get(label, []) and not (path == t or path.startswith(t + "/")) \
                        and not self.ref.has_link_below(t):
                    cands.append(t)
        if cands and self.rng.random() < 0.4:
            return ("ln", path, pl, label, name, "", self.rng.choice(sorted(cands)))
        plan = donor_plan(pl, label, 1)
        if plan is None:
            return None
        return ("ln", path, pl, label, name, "D", plan[1])

    def positions(self):
        return [(p, nd["label"]) for p, nd in self.ref.nodes.items() if nd["label"] in CAT]

    def kinds_at(self, path, pl):
        return [] if pl == "CGNSTree_t" else kinds_at(path, pl)

    def grow(self):
        """one structural step: a new entity somewhere (so that deeper positions come to exist), or a container"""
        pos = self.positions()
        # prefer shallow, not yet populated positions
        self.rng.shuffle(pos)
        path, pl = pos[0]
        if self.rng.random() < 0.25:
            has_biter = any(lab == "BaseIterativeData_t" for lab, _ in self.ref.nodes["/B"]["names"].values())
            cands = [m for m in MK if m[2] == pl and (path, m[0], m[1]) not in self.mk_done
                     and not (m[0] in ("ziter", "piter") and not has_biter)
                     and not (m[0] == "piter" and AVOID["pit"])]
            if cands:
                m = self.rng.choice(cands)
                old = [n for n, (lab, _) in self.ref.nodes[path]["names"].items() if lab == m[3][0][1]]
                if any(self.ref.pinned(join(path, o)) for o in old):
                    return
                self.mk_done.add((path, m[0], m[1]))
                self.emit(mk_op(path, m))
                return
        if pl != "CGNSTree_t" and self.rng.random() < 0.05:
            # a node of one of the ten data types that the mid-level library does not interpret (through cgio)
            self.counter += 1
            self.emit(("raw", path, pl, "Ty%d_%d" % (self.rng.randrange(10), self.counter), self.payload(None)))
            self.note(pl, "Blob_t", "create")
            return
        if pl == "Zone_t" and join(path, "ZoneBC") not in self.ref.nodes and self.rng.random() < 0.3:
            self.emit(("w", join(path, "ZoneBC"), "ZoneBC_t", "BC_t", self.fresh_name("BC_t"), self.payload(None)))
            self.note("ZoneBC_t", "BC_t", "create")
            return
        ks = self.kinds_at(path, pl)
        if not ks:
            return
        label, mode, bound = self.rng.choice(ks)
        name = "GridCoordinates" if (label == "GridCoordinates_t" and "GridCoordinates" not in self.ref.nodes[path]["names"]
                                     and self.rng.random() < 0.7) else self.fresh_name(label)
        self.emit((self.array_mode(path, pl, label, name, mode), path, pl, label, name, self.payload(bound)))
        self.note(pl, label, "create")

    def edit(self):
        """one edit of an existing sibling group: create / overwrite / delete, positions chosen at the boundaries"""
        groups = [g for g in self.ref.groups(nonempty_only=True) if g[1] != "CGNSTree_t"]
        if not groups:
            return self.grow()
        path, pl, label = self.rng.choice(groups)
        entry = [k for k in self.kinds_at(path, pl) if k[0] == label]
        if not entry:
            return self.grow()
        _, mode, bound = entry[0]
        sibs = [n for n, _ in self.ref.view(path, pl, label)]
        filev = [n for n, _ in self.ref.file_view(path, label)]
        if self.links and self.rng.random() < self.links:
            op = self.link_op(path, pl, label)
            if op is not None:
                self.emit(op)
                self.note(pl, label, "link")
                return
        r = self.rng.random()
        if r < 0.30 or len(sibs) < 2:
            self.emit((mode, path, pl, label, self.fresh_name(label), self.payload(bound)))
            self.note(pl, label, "create")
        elif r < 0.62 and not (label == F and AVOID["afn_overwrite"]):
            pick = self.rng.choice(["first", "last", "mid", "any"])
            name = {"first": sibs[0], "last": sibs[-1], "mid": sibs[len(sibs) // 2], "any": self.rng.choice(sibs)}[pick]
            if mode == "w" and not self.allow_nonlast and filev and filev[-1] != name:
                name = filev[-1]
            if not is_link(self.ref.nodes[path]["names"][name][1]):
                mode = self.array_mode(path, pl, label, name, mode)
            if mode == "w" and self.ref.pinned(join(path, name)):
                return                     # the target of a link inside the file stays (a dangling link cannot be opened)
            if mode == "u" and is_link(self.ref.nodes[path]["names"][name][1]):
                return
            self.emit((mode, path, pl, label, name, self.payload(bound)))
            self.note(pl, label, "overwrite" if mode == "w" else "rewrite")
            if mode == "w" and filev and filev[-1] != name:
                self.note(pl, label, "overwrite-nonlast")
        elif r < 0.95:
            pick = self.rng.choice(["first", "last", "mid", "any"])
            name = {"first": sibs[0], "last": sibs[-1], "mid": sibs[len(sibs) // 2], "any": self.rng.choice(sibs)}[pick]
            if name == "GridCoordinates" or self.ref.pinned(join(path, name)):
                return
            self.emit(("d", path, pl, name))
            self.note(pl, label, "delete")
        else:
            self.emit(("d", path, pl, "NoSuch%d" % self.rng.randint(0, 9)))

    def drop_container(self):
        """delete a single child (CGNS_DELETE_CHILD arm) together with everything the history put below it"""
        cands = [(p, nd["label"], n) for p, nd in self.ref.nodes.items() for n, (lab, _) in nd["names"].items()
                 if lab in CONTAINER_LABELS and lab != "BaseIterativeData_t" and not self.ref.pinned(join(p, n))]
        if not cands:
            return self.edit()
        path, pl, name = self.rng.choice(cands)
        self.emit(("d", path, pl, name))
        self.mk_done = {m for m in self.mk_done if not (m[0] == path or m[0].startswith(join(path, name)))}
        self.note(pl, self.ref_label_cache.get((path, name), "single child"), "delete-single")

    def history(self, nsteps, focus=None):
        self.ref_label_cache = {}
        for _ in range(self.rng.randint(4, 10)):
            self.grow()
        for _ in range(nsteps):
            for p, nd in self.ref.nodes.items():
                for n, (lab, _) in nd["names"].items():
                    if lab in CONTAINER_LABELS:
                        self.ref_label_cache[(p, n)] = lab
            r = self.rng.random()
            if r < 0.22:
                self.grow()
            elif r < 0.93:
                self.edit()
            elif r < 0.96:
                self.drop_container()
            else:
                self.emit(("reopen", "m"))
        return self.ops


def focused_history(rng, target, allow_nonlast=True, links=0.0):
    """a history aimed at ONE (parent label, label) group: the shortest chain of entities that makes a position with
    the parent label exist, then create / overwrite / delete on that group with sibling kinds around it"""
    g = Gen(rng, allow_nonlast=allow_nonlast)
    pl, label = target
    chain = route_to(pl)
    if chain is None:
        return None
    path = "/B"
    for step in chain:
        if step[0] == "mkbase":
            g.emit(mk_op("/B", step[1]))
        elif step[0] == "mk":
            op = mk_op(path, step[1])
            g.emit(op)
            for name, _ in (op[4][:1] if len(step) == 3 else op[4]):
                path = join(path, name)
        elif step[0] == "zonebc":
            g.emit(("w", join(path, "ZoneBC"), "ZoneBC_t", "BC_t", "Bc0", 3))
            path = join(path, "ZoneBC")
            if step[1] == "BC_t":
                path = join(path, "Bc0")
        else:
            _, ppl, lab = step
            name = "GridCoordinates" if lab == "GridCoordinates_t" else TAG.get(lab, "N") + "0"
            mode = [k for k in CAT[ppl] if k[0] == lab][0][1]
            g.emit((mode, path, ppl, lab, name, 7))
            path = join(path, name)
    if path not in g.ref.nodes or g.ref.nodes[path]["label"] != pl:
        return None
    entry = [k for k in g.kinds_at(path, pl) if k[0] == label]
    if not entry:
        return None
    _, mode, bound = entry[0]
    others = [k for k in g.kinds_at(path, pl) if k[0] != label]
    names = []
    n0 = rng.randint(4, 5)
    for i in range(n0):
        nm = g.fresh_name(label)
        g.emit((mode, path, pl, label, nm, g.payload(bound))); names.append(nm)
        if others and rng.random() < 0.5:
            ol, om, ob = rng.choice(others)
            g.emit((om, path, pl, ol, g.fresh_name(ol), g.payload(ob)))
    g.note(pl, label, "create")
    # always: two deletions in one session, then the first survivor (the last one where only index-preserving overwrites are
    # wanted) is overwritten by name -- whatever the library keeps per name (arrays, name -> index maps) has shifted twice
    if not (label == F and AVOID["afn_overwrite"]):
        for _ in range(2):
            g.emit(("d", path, pl, names[0])); names.pop(0)
        g.note(pl, label, "delete")
        filev = [n for n, _ in g.ref.file_view(path, label)]
        nm = names[0] if (mode == "u" or allow_nonlast or Ref.sorted_on_read(pl, label)) else filev[-1]
        if mode == "w" and filev and filev[-1] != nm:
            g.note(pl, label, "overwrite-nonlast")
        g.emit((mode, path, pl, label, nm, g.payload(bound)))
        g.note(pl, label, "overwrite" if mode == "w" else "rewrite")
    for _ in range(rng.randint(5, 9)):
        r = rng.random()
        filev = [n for n, _ in g.ref.file_view(path, label)]
        if links and rng.random() < links:
            op = g.link_op(path, pl, label)
            if op is not None:
                g.emit(op); names.append(op[4]); g.note(pl, label, "link")
                continue
        if r < 0.4 and names and not (label == F and AVOID["afn_overwrite"]):
            nm = rng.choice([names[0], names[-1], rng.choice(names)])
            if mode == "w" and not allow_nonlast and filev:
                nm = filev[-1]
            if g.ref.pinned(join(path, nm)):
                continue
            m2 = mode if is_link(g.ref.nodes[path]["names"][nm][1]) else g.array_mode(path, pl, label, nm, mode)
            if m2 == "w" and filev and filev[-1] != nm:
                g.note(pl, label, "overwrite-nonlast")
            g.emit((m2, path, pl, label, nm, g.payload(bound)))
            g.note(pl, label, "overwrite" if m2 == "w" else "rewrite")
        elif r < 0.75 and len(names) > 1:
            nm = rng.choice([names[0], names[-1], rng.choice(names)])
            if nm == "GridCoordinates" or g.ref.pinned(join(path, nm)):
                continue
            g.emit(("d", path, pl, nm)); names.remove(nm)
            g.note(pl, label, "delete")
        elif r < 0.9:
            nm = g.fresh_name(label)
            g.emit((mode, path, pl, label, nm, g.payload(bound))); names.append(nm)
        else:
            g.emit(("reopen", "m"))
    return g


_ROUTES = {}


def route_to(pl):
    """steps from /B to a node labelled pl"""
    if _ROUTES:
        return _ROUTES.get(pl)
    # breadth first over the catalogue: entity steps and mk steps
    start = "CGNSBase_t"
    routes = {start: []}
    todo = [start]
    while todo:
        cur = todo.pop(0)
        nxt = []
        for lab, _, _ in CAT.get(cur, []):
            if lab in CAT:
                nxt.append((lab, ("ent", cur, lab)))
        for m in MK:
            if m[2] == cur:
                nxt.append((m[3][-1][1], ("mk", m)))
                if len(m[3]) > 1:
                    nxt.append((m[3][0][1], ("mk", m, 0)))
        if cur == "Zone_t":
            nxt.append(("ZoneBC_t", ("zonebc", "ZoneBC_t")))
            nxt.append(("BC_t", ("zonebc", "BC_t")))
        for lab, step in nxt:
            if lab not in routes:
                routes[lab] = routes[cur] + [step]
                todo.append(lab)
    for lab, r in routes.items():
        _ROUTES[lab] = r
    # ziter needs a BaseIterativeData_t first
    biter = [m for m in MK if m[0] == "biter"][0]
    for lab in ("ZoneIterativeData_t", "ParticleIterativeData_t"):         # read back only when the base has a BaseIterativeData_t
        if lab in _ROUTES:
            _ROUTES[lab] = [("mkbase", biter)] + _ROUTES[lab]
    return _ROUTES.get(pl)


# ----------------------------------------------------------------------------------------------- probes
def route_ops(pl, fixed=False):
    """ops that make a node labelled pl exist -> (ops, path of that node) or None; fixed: single children get their default
    names (the same ops on every call)"""
    import random
    chain = route_to(pl)
    if chain is None:
        return None
    g = Gen(random.Random(1))
    path = "/B"
    for step in chain:
        if step[0] == "mkbase":
            g.emit(mk_op("/B", step[1], step[1][3][0][0] if fixed else None))
        elif step[0] == "mk":
            op = mk_op(path, step[1], step[1][3][0][0] if fixed else None)
            g.emit(op)
            for name, _ in (op[4][:1] if len(step) == 3 else op[4]):
                path = join(path, name)
        elif step[0] == "zonebc":
            g.emit(("w", join(path, "ZoneBC"), "ZoneBC_t", "BC_t", "Bc0", 3))
            path = join(path, "ZoneBC")
            if step[1] == "BC_t":
                path = join(path, "Bc0")
        else:
            _, ppl, lab = step
            name = "GridCoordinates" if lab == "GridCoordinates_t" else TAG.get(lab, "N") + "0"
            mode = [k for k in CAT[ppl] if k[0] == lab][0][1]
            g.emit((mode, path, ppl, lab, name, 7))
            path = join(path, name)
    if path not in g.ref.nodes or g.ref.nodes[path]["label"] != pl:
        return None
    return list(g.ops), path


PIT = "ParticleIterativeData_t"


def probe_noblock(pl):
    if pl == PIT:
        return [mk_op("/B", [m for m in MK if m[0] == "biter"][0]),
                ("w", "/B", "CGNSBase_t", "ParticleZone_t", "PZ0", 4),
                ("mk", "/B/PZ0", "piter", None, [("ParticleIterativeData", PIT)]),
                ("w", "/B/PZ0/ParticleIterativeData", PIT, D, "De1", 1),
                ("w", "/B/PZ0/ParticleIterativeData", PIT, D, "De2", 2),
                ("d", "/B/PZ0/ParticleIterativeData", PIT, "De1")]          # (default names: the corpus witness of 627245e)
    r = route_ops(pl)
    if r is None or not kinds_at(r[1], pl):
        return None
    ops, path = r
    label, mode, bound = kinds_at(path, pl)[0]
    return ops + [(mode, path, pl, label, "Keep1", 1), (mode, path, pl, label, "Gone", 2), ("d", path, pl, "Gone")]


def probe_shadowed(pl, label, name):
    """give a sibling of kind `label` the reserved name under a parent labelled pl, and delete it"""
    r = route_ops(pl)
    if r is None:
        return None
    ops, path = r
    entry = [k for k in kinds_at(path, pl) if k[0] == label]
    if not entry:
        return None
    mode, bound = entry[0][1], entry[0][2]
    b = bound or 99
    return ops + [(mode, path, pl, label, "Keep1", 3 % b), (mode, path, pl, label, name, 5 % b), (mode, path, pl, label, "Keep2", 6 % b),
                  ("d", path, pl, name)]


def probe_order(pl, label):
    """the witness of C04_order_refuted for one kind: three siblings, overwrite the first"""
    r = route_ops(pl)
    if r is None:
        return None
    ops, path = r
    entry = [k for k in kinds_at(path, pl) if k[0] == label and k[1] == "w"]
    if not entry:
        return None
    b = entry[0][2] or 99
    t = TAG.get(label, "N")
    return ops + [("w", path, pl, label, "%sa" % t, 1 % b), ("w", path, pl, label, "%sb" % t, 2 % b), ("w", path, pl, label, "%sc" % t, 3 % b),
                  ("w", path, pl, label, "%sa" % t, 4 % b)], (path, pl, label)


def model_lines(lines, out, exp=None):
    """the lines the engine answers (w / u / d / v / reopen) and the implementation's answers to them; the deletion of a
    single child (a container the model does not know) becomes `drop <path>`: the engine forgets the subtree"""
    ml, il = [], []
    second = False                      # inside the lines that write the second file (the target of the links)
    for i, (l, o) in enumerate(zip(lines, out)):
        t = l.split(" ")
        if t[0] == "open" and t[1] == "w" and (t[2].endswith(".donor") or t[2].endswith(".donor.new")):
            second = 2                  # open w ... close, open m ... close
        if second:
            if t[0] == "close":
                second -= 1
            continue
        if t[0] == "open" and t[1] == "r":            # the fresh open after the second file was written again
            ml.append("reopen r"); il.append("o" + o[1:])
            continue
        if t[0] == "d" and exp is not None and len(exp[i]) > 3 and exp[i][3]:
            ml.append("drop " + join(t[1], t[3]))
            continue
        if t[0] == "mk" and exp is not None and len(exp[i]) > 3:
            for g in exp[i][3]:
                ml.append("drop " + g)
            continue
        if t[0] in ("w", "u", "d", "v", "reopen", "ln", "raw"):
            ml.append(l); il.append(o)
    return ml, il


def ser(ops):
    return [[list(map(list, x)) if isinstance(x, list) else x for x in o] for o in ops]


def deser(ops):
    out = []
    for o in ops:
        if o[0] == "mk":
            out.append(("mk", o[1], o[2], o[3], [tuple(x) for x in o[4]]))
        else:
            out.append(tuple(o))
    return out


# ----------------------------------------------------------------------------------------------- overwrite vs attributes
def op_line(op):
    if op[0] == "mk":
        return "mk %s %s%s" % (op[1], op[2], " " + op[3] if op[3] else "")
    return lines_of_op(op)


def attr_targets():
    """every entity whose writer deletes and re-creates it in a re-used slot: (tag, parent ops, first write, second write,
    path of the node) -- single children (mk), DimensionalUnits (unitsfull then units) and the multi-sibling kinds that are
    positions"""
    out = []
    for m in MK:
        r = route_ops(m[2])
        if r is None:
            continue
        ops, path = r
        if m[0] in ("ziter", "piter") and not any(o[0] == "mk" and o[2] == "biter" for o in ops):
            ops = [mk_op("/B", [m for m in MK if m[0] == "biter"][0])] + ops
        w = mk_op(path, m)
        inner = path
        for name, _ in w[4]:
            inner = join(inner, name)
        out.append(("single %s under %s" % (m[3][-1][1], m[2]), m[3][-1][1], ops, [w], [w], inner))
    for pl in ("CGNSBase_t", "Zone_t", "FlowSolution_t", "UserDefinedData_t"):
        r = route_ops(pl)
        if r is None:
            continue
        ops, path = r
        out.append(("units under %s" % pl, "DimensionalUnits_t", ops, [("mk", path, "unitsfull", None, [])], [("mk", path, "units", None, [])],
                    path + " noattach"))
    # single-valued attributes of the index API written twice with different values (the second call must replace the first)
    for what, pl, lab in (("simtype", "CGNSBase_t", "SimulationType_t"), ("simtype2", "CGNSBase_t", "SimulationType_t"),
                          ("bocoloc", "BC_t", "GridLocation_t")):
        r = route_ops(pl)
        if r is None:
            continue
        ops, path = r
        out.append(("attribute %s under %s" % (what, pl), lab + ":" + what, ops, [("mk", path, what, None, [])], [("mk", path, what, None, [])],
                    path + " noattach"))
    seen = set()
    for pl in sorted(CAT):
        if pl == "CGNSTree_t":
            continue
        for label, mode, bound in CAT[pl]:
            if mode != "w" or label not in CAT or (pl, label) in seen:
                continue
            r = route_ops(pl)
            if r is None:
                continue
            ops, path = r
            if not [k for k in kinds_at(path, pl) if k[0] == label]:
                continue
            seen.add((pl, label))
            name = TAG.get(label, "N") + "x"
            b = bound or 99
            out.append(("%s under %s" % (label, pl), label, ops, [("w", path, pl, label, name, 11 % b)], [("w", path, pl, label, name, 22 % b)],
                        join(path, name)))
    return out


def attr_scripts(backend, fpath, ops, first, second, inner):
    pre = header(backend, fpath, 0) + [op_line(o) for o in ops]
    a = pre + ["variant 2"] + [op_line(o) for o in second] + ["full " + inner, "reopen r", "full " + inner, "close"]
    noattach = inner.endswith(" noattach")          # the node at `inner` is the OWNER of the single child (DimensionalUnits)
    inner = inner.split(" ")[0]
    a = pre + ["variant 2"] + [op_line(o) for o in second] + ["full " + inner, "reopen r", "full " + inner, "close"]
    b = pre + ["variant 1"] + [op_line(o) for o in first] + ([] if noattach else ["attach " + inner]) + ["full " + inner, "variant 2"] + \
        [op_line(o) for o in second] + ["full " + inner, "reopen r", "full " + inner, "close"]
    return a, b


def fdiff(x, y):
    """the fields in which two `f` lines differ"""
    xs, ys = x.split(" ")[2:], y.split(" ")[2:]
    dx = dict(t.split("=", 1) for t in xs if "=" in t)
    dy = dict(t.split("=", 1) for t in ys if "=" in t)
    return sorted(k for k in set(dx) | set(dy) if dx.get(k) != dy.get(k))


def attr_case(exe, work, backend, target):
    """-> (failures, attached fields, raw)"""
    tag, label, ops, first, second, inner = target
    fa, fb = os.path.join(work, "attrA_%s.cgns" % backend), os.path.join(work, "attrB_%s.cgns" % backend)
    for f in (fa, fb):
        if os.path.exists(f):
            os.unlink(f)
    sa, sb = attr_scripts(backend, fa, ops, first, second, inner)[0], attr_scripts(backend, fb, ops, first, second, inner)[1]
    oa, ca = vlib.run_impl(exe, "\n".join(sa) + "\n", timeout=120)
    ob, cb = vlib.run_impl(exe, "\n".join(sb) + "\n", timeout=120)
    for f in (fa, fb):
        if os.path.exists(f):
            os.unlink(f)
    fails = []
    if ca != "ok" or cb != "ok":
        return [{"class": "crash", "outcome": ca if ca != "ok" else cb, "target": tag}], [], (sa, oa, sb, ob)
    bad = [l for l, o in zip(sa, oa) if (l.startswith(("w ", "mk ", "open", "close")) and not o.startswith(("w 0", "c 0")))
           or (l.startswith("reopen") and o != "o 0")]
    bad += [l for l, o in zip(sb, ob) if (l.startswith(("w ", "mk ", "open", "close")) and not o.startswith(("w 0", "c 0")))
            or (l.startswith("reopen") and o != "o 0")]
    if bad and not tag.startswith("attribute "):
        return [{"class": "status", "target": tag, "lines": bad[:3]}], [], (sa, oa, sb, ob)
    if bad:           # a single-valued attribute written a second time: the refusal is one failure, what the views show another
        fails.append({"class": "attr-refused", "oracle": "ideal: writing an attribute again replaces it", "target": tag, "lines": bad[:3],
                      "answers": [o for l, o in zip(sb, ob) if l.startswith("mk ")]})
    fa_ = [o for o in oa if o.startswith("f ")]
    fb_ = [o for o in ob if o.startswith("f ")]
    att = [o for o in ob if o.startswith("a")][0].split()[1:] if any(o.startswith("a") for o in ob) else ["(first write differs)"]
    if len(fa_) != 2 or len(fb_) != 3:
        return [{"class": "view-unreadable", "target": tag, "A": fa_, "B": fb_}], att, (sa, oa, sb, ob)
    a_ses, a_re = fa_
    b_att, b_ses, b_re = fb_
    if a_ses != a_re:
        fails.append({"class": "attr-fresh", "oracle": "fresh creation: session vs fresh open", "target": tag, "fields": fdiff(a_ses, a_re),
                      "session": a_ses, "reopened": a_re})
    if b_ses != a_ses:
        fails.append({"class": "attr-session", "oracle": "ideal: an overwritten entity has exactly what the new call gave it",
                      "target": tag, "fields": fdiff(b_ses, a_ses), "after_overwrite": b_ses, "fresh": a_ses, "before_overwrite": b_att})
    if b_re != a_re:
        fails.append({"class": "attr-file", "oracle": "ideal, after a fresh open", "target": tag, "fields": fdiff(b_re, a_re),
                      "after_overwrite": b_re, "fresh": a_re})
    if b_ses != b_re and not fails:
        fails.append({"class": "attr-o1", "oracle": "O1 session vs fresh open", "target": tag, "fields": fdiff(b_ses, b_re)})
    return fails, (att if b_att != a_ses else []), (sa, oa, sb, ob)


def run(ck):
    big = ck.tier == "thorough"
    vlib.build_impl()
    exe = vlib.build_harness("c04_mod", ["c04_mod.c"])
    pregen()
    res = vlib.coq_check_properties("C04")
    broken = ck.proof_result(res, CHECKER)
    forb = vlib.coq_forbidden_scan("C04")
    ck.extra["forbidden_tokens"] = forb
    if forb:
        ck.violation({"broken_obligation": "forbidden tokens in the Coq development", "hits": forb}, nofail=True)
    vlib.build_modelrun("c04")
    ck.cov["trusted_base"] = [
        "Coq 8.16.1 kernel + vm_compute (no native_compute)",
        "translators/c04_delete.py and translators/c11_goto.py (token-level template matchers; whatever they cannot classify is an "
        "Unparsed / WOther row that falsifies the forallb obligation)",
        "extraction: ExtrOcamlBasic only; OCaml 4.13.1; ocaml/eng_c04.ml (parsing / printing, one Mirror.parent per node path)",
        "harness/c04_mod.c (payload <-> attribute encoding per kind, the P descriptor), this generator, class Ref and the oracles",
        "hand transcription of the overwrite template, ADDRESS4MULTIPLE, CGNS_DELETE_SHIFT, cgi_array_general_write's in-place "
        "branch and the read-back order in coq/Mirror.v, validated by the correspondence below and pinned by the regenerated tables",
    ]
    ck.assumptions = ["malloc never fails", "one process, one open file (the second file of the links is written while the main file is closed)",
                      "a link child is an opaque leaf: nothing is written through it, no link to a link, no dangling link; "
                      "cg_link_write is followed by cg_close + cg_open (OLink)", "node names without '/' (family-tree paths are not used as names)",
                      "payload = what the harness can encode in the attributes of a kind and in a Descriptor_t child",
                      "the model treats one parent node at a time; nesting is composed by the engine (subtree dropped on overwrite/delete)"]
    ck.cov["rule"] = ("seeded modify-mode histories: (a) one focused history per (parent label, child label) sibling group of the catalogue "
                      "(create 3-5, overwrite first/last/any, delete first/last/any, creations of sibling kinds in between, reopen), "
                      "(b) random whole-tree histories over all groups at every level, (l) one history per parent label cg_link_write "
                      "accepts with a link into a second file, a link inside the file, their deletion / overwrite and edits of the "
                      "siblings around a cg_close + cg_open; links (p = 0.08 .. 0.15 per step) and in-place rewrites of node-context "
                      "arrays (cg_array_general_write) also occur in (a) and (b); the second file is written again with other "
                      "payloads before the fresh open; the view of a link is cg_is_link + cg_link_read; each on ADF and HDF5 with "
                      "compress-on-close 0 / 1 / -1; after EVERY operation the views of all kinds under the touched node and of every non-empty group are "
                      "taken, around every cg_close + cg_open the views of every group. Lines compared with the extracted model; "
                      "oracles O1 (session vs fresh open), O2 (frame), O3 (Python ideal tree) on the implementation's output. "
                      "non-trivial = the history contains an overwrite or in-place rewrite of an existing sibling AND a delete; "
                      "distinct by SHA1 of the script")
    corr_broken = []
    dist = {"focused": 0, "random": 0, "probes": 0, "ops": {}, "backends": {}, "compress": {}, "max_groups": 0}
    covered = {}
    work = ck.work
    state = {"n": 0, "hard": 0, "found": 0}
    AVOID["afn_overwrite"] = AVOID["pzone_integral"] = AVOID["pit"] = AVOID["stale_array"] = False
    AVOID["active_zconn"] = True           # until the probe below has run: cg_zconn_set before every call
    reported = set()

    def finding(key, replay_dict):
        """one witness per key and run"""
        if key in reported:
            return
        reported.add(key)
        if ck.finding(key, replay_dict):
            state["found"] += 1            # an unlisted key: a concrete failing input has been found and reported

    def hard(replay_dict, nofail=False):
        state["hard"] += 1
        ck.violation(replay_dict, nofail=nofail)

    # ---- static part: what the regenerated tables say (evaluated by the extracted Coq functions)
    tl = vlib.run_model("c04", "tables\n")
    tables = {"shadowed": [], "no_block": [], "unsound": [], "kinds": {}, "verdicts": {}, "bad_nrow": [], "bad_dblock": [], "bad_wrow": []}
    for l in tl:
        t = l.split()
        if t[0] in ("delete_table_ok", "write_table_ok", "addr_tails_ok", "link_writer_ok", "copy_keeps_links", "general_write_mentions_cache", "data_sizes_ok", "zconn_arm_keeps_current"):
            tables["verdicts"][t[0]] = t[1]
        elif t[0] == "link_parents":
            LINK_PARENTS.clear()
            LINK_PARENTS.update(t[1].split(",") if len(t) > 1 else [])
        elif t[0] == "goto":
            GOTO_CHILDREN[t[1]] = t[2].split(",") if len(t) > 2 else []
        elif t[0] == "bad_link_parent":
            tables.setdefault("bad_link_parent", []).append(t[1])
        elif t[0] == "shadowed":
            tables["shadowed"].append(tuple(t[1:4]))
        elif t[0] == "no_block":
            tables["no_block"].append((t[1], t[2]))
        elif t[0] == "unsound":
            tables["unsound"].append((t[1], t[2]))
        elif t[0] == "kinds":
            tables["kinds"][t[1]] = t[2].split(",") if len(t) > 2 else []
        elif t[0] == "bad_nrow":
            tables["bad_nrow"].append((t[1], t[2]))
        elif t[0] == "bad_rrow":
            tables.setdefault("bad_rrow", []).append((t[1], t[2]))
        elif t[0] in ("bad_single", "user_single", "shadowed_single"):
            tables.setdefault(t[0], []).append(tuple(t[1:4]))
        elif t[0] == "unjustified_name":
            tables.setdefault(t[0], []).append(tuple(t[1:3]))
        elif t[0] in ("bad_dblock", "bad_wrow"):
            tables[t[0]].append(t[1])
    ck.extra["tables"] = {"verdicts": tables["verdicts"], "shadowed": tables["shadowed"], "positions_without_block": tables["no_block"],
                          "unsound_kinds": tables["unsound"], "sound_sibling_groups": sum(len(v) for v in tables["kinds"].values()),
                          "writers_not_storing_the_node_id": tables["bad_nrow"],
                          "writers_not_reinitialising_a_field": tables.get("bad_rrow", []), "bad_dblock": tables["bad_dblock"],
                          "bad_wrow": tables["bad_wrow"]}
    # the single children whose name the caller chooses get non-default names in every history from here on
    USER_NAMED.clear()
    USER_NAMED.update(l for _, l, _ in tables.get("user_single", []))
    _inst["n"] = 0
    _ROUTES.clear()
    mk_labels = {m[3][-1][1] for m in MK}
    ck.extra["caller_named_single_children"] = {"from_tables": sorted(tables.get("user_single", [])),
                                                "not_creatable_by_the_harness": sorted(l for l in USER_NAMED if l not in mk_labels)}
    # the catalogue must stay inside what the theorems cover: every group the harness drives is a sound kind of its parent
    outside = [(pl, k[0]) for pl in CAT for k in CAT[pl] if pl in tables["kinds"] and k[0] not in tables["kinds"][pl]]
    ck.extra["catalogue_groups_outside_sound_kinds"] = outside

    def exec_case(ops, backend, compress, name, sparse=0):
        state["n"] += 1
        fpath = os.path.join(work, "%s%d_%s.cgns" % (name, state["n"], backend))
        lines, exp, out, outcome = run_case(exe, ops, backend, fpath, compress, sparse)
        if os.path.exists(fpath):
            os.unlink(fpath)
        return lines, exp, out, outcome

    def correspond(ops, backend, compress, lines, out, exp=None):
        ml, il = model_lines(lines, out, exp)
        mo = vlib.run_model("c04", "\n".join(ml) + "\n")
        ml = [x for x in ml if not x.startswith("drop ")]
        if mo != il:
            d = vlib.first_divergence(mo, il)
            corr_broken.append({"ops": ser(ops), "history": [lines_of_op(o) for o in ops], "backend": backend, "compress": compress,
                                "first_divergence": {"line": ml[d[0]] if d and d[0] < len(ml) else None, "model": d[1], "impl": d[2]} if d else None})

    def report(ops, backend, compress, fails, tag, sparse=0):
        """shrink and report a failing history"""
        def sig(f):
            g = f.get("group")
            return (f["class"], g[2] if g else None)
        want = sig(fails[0])

        def still(sub):
            if not links_well_formed(sub):
                return False
            l2, e2, o2, oc2 = exec_case(sub, backend, compress, "shrink", sparse)
            f2 = evaluate(sub, l2, e2, o2, oc2)
            return bool(f2) and order_by_design(sub, f2) is None and any(sig(f) == want for f in f2)
        small = vlib.ddmin(ops, still, max_tests=120) if len(ops) > 3 else list(ops)
        l2, e2, o2, oc2 = exec_case(small, backend, compress, "shrink", sparse)
        f2 = evaluate(small, l2, e2, o2, oc2) or fails
        hard({"level": "api", "backend": backend, "compress": compress, "sparse": sparse,
              "harness_mode": "zcmode set" if AVOID["active_zconn"] else "zcmode keep", "ops": ser(small),
                      "history": [lines_of_op(o) for o in small], "failures": f2[:4], "class": f2[0]["class"], "found_by": tag,
                      "failures_before_shrinking": fails[:2],
                      "replay_hint": "./check C04 --replay <this file>"})

    def probe(ops, backend, kind, sample_extra=None, sparse=0):
        dist["probes"] += 1
        lines, exp, out, outcome = exec_case(ops, backend, 0, "probe", sparse)
        fails = evaluate(ops, lines, exp, out, outcome)
        ck.case(None, sample=dict({"kind": "probe " + kind, "backend": backend}, **(sample_extra or {})))
        return fails, lines, out, outcome

    # ---- corpus first: the witnesses of the defects this property found and /repo repaired (corpus/C04/*.json, one per
    # original finding key).  They must PASS now; a regression re-fires VIOLATION under the original key, and the random
    # histories then avoid the trigger so that the rest of the run still says something.
    cdir = os.path.join(vlib.ROOT, "corpus", "C04")
    corpus_seen = []
    for f in sorted(os.listdir(cdir)) if os.path.isdir(cdir) else []:
        if not f.endswith(".json"):
            continue
        c = json.load(open(os.path.join(cdir, f)))
        ops = deser(c["ops"])
        for backend in c.get("backends", ["adf", "hdf5"]):
            fails, lines, out, outcome = probe(ops, backend, "corpus " + c["key"])
            if fails and order_by_design(ops, fails) is not None:
                for key in sorted(order_by_design(ops, fails)):
                    finding(key, {"ops": ser(ops), "history": [lines_of_op(o) for o in ops], "backend": backend, "failures": fails[:2]})
                fails = []
            corpus_seen.append({"key": c["key"], "backend": backend, "passes": not fails})
            if fails:
                if c["key"].startswith("multifam"):
                    AVOID["afn_overwrite"] = True
                if c["key"].startswith("pzone"):
                    AVOID["pzone_integral"] = True
                if c["key"].startswith("delete-no-dispatch-block:"):
                    AVOID["pit"] = True
                finding(c["key"], {"ops": ser(ops), "history": [lines_of_op(o) for o in ops], "backend": backend, "compress": 0,
                                   "outcome": outcome, "failures": fails[:3], "regression_of": c.get("fixed_by"), "what": c.get("what")})
            elif outcome == "ok":
                correspond(ops, backend, 0, lines, out, None)
    ck.extra["corpus"] = corpus_seen
    # ---- probes: what the unchanged tree does by design or does wrong; each goes through ck.finding with a stable key
    for backend in ("adf", "hdf5"):
        # a write colliding with a sibling of another label: the session keeps a phantom entry
        ops = [("w", "/B", "CGNSBase_t", "Zone_t", "Z0", 5), ("w", "/B/Z0", "Zone_t", "FlowSolution_t", "S2", 1),
               ("w", "/B/Z0", "Zone_t", "DiscreteData_t", "S2", 7)]
        fails, lines, out, outcome = probe(ops, backend, "failed write")
        grp = ("/B/Z0", "Zone_t", "DiscreteData_t")
        ph = [f for f in fails if f.get("group") == grp]
        other = [f for f in fails if f.get("group") != grp]
        if ph and not other and all(f["class"] == "content" for f in ph):
            finding("failed-write-leaves-phantom",
                       {"witness": "C04_failed_write_refuted", "ops": ser(ops), "history": [lines_of_op(o) for o in ops], "backend": backend, "failures": ph[:2]})
        elif fails:
            report(ops, backend, 0, fails, "probe failed write")
    static_broken = []          # what the tables flag without (yet) a failing input: searched for below, reported at the end
    if tables["verdicts"].get("link_writer_ok") != "true":
        static_broken.append({"broken_obligation": "cg_link_write is no longer the function Mirror.link_new transcribes (its calls, the "
                                                   "lvalues it changes or its white list changed)", "bad_parents": tables.get("bad_link_parent", []),
                              "table": "Gen_C04.link_parents / link_calls / link_assigns"})
    if tables["verdicts"].get("data_sizes_ok") != "true":
        static_broken.append({"broken_obligation": "cgio_compute_data_size no longer returns the element size of every data type (the node "
                                                   "copy of compress-on-close moves that many bytes per element)", "table": "Gen_C04.data_size_rows"})
    if tables["verdicts"].get("copy_keeps_links") != "true":
        static_broken.append({"broken_obligation": "the tree copy behind compress-on-close (cgns_io.c recurse_nodes) does not create every "
                                                   "link again as a link", "table": "Gen_C04.copy_link_guard / Mirror.copy_keeps_links"})
    # cg_link_write without cg_close + cg_open: the witness of C04_link_invisible_until_reopen_refuted on the library
    for backend in ("adf", "hdf5"):
        ops = [("w", "/B", "CGNSBase_t", "Zone_t", "Z0", 5), ("w", "/B/Z0", "Zone_t", "FlowSolution_t", "S1", 3),
               ("w", "/B/Z0", "Zone_t", "FlowSolution_t", "S2", 4), ("lnraw", "/B/Z0", "Zone_t", "FlowSolution_t", "L1", "", "/B/Z0/S1")]
        fails, lines, out, outcome = probe(ops, backend, "link without reopen")
        grp = ("/B/Z0", "Zone_t", "FlowSolution_t")
        mine = [f for f in fails if f.get("group") == grp and f["class"] == "content" and f.get("oracle", "").startswith("O1")
                and dict(f["reopened"]).get("L1") == "@|/B/Z0/S1" and "L1" not in dict(f["session"])]
        if mine and len(mine) == len(fails):
            finding("link-invisible-until-reopen",
                    {"witness": "C04_link_invisible_until_reopen_refuted", "ops": ser(ops), "history": [lines_of_op(o) for o in ops],
                     "backend": backend, "failures": mine[:1],
                     "what": "cg_link_write creates the link node in the file and updates nothing in the session: cg_nsols & co. do not "
                             "count it until the file is closed and opened again (cgnslib.c: 'Need to fix this ... to keep the in-core "
                             "information current')"})
            if outcome == "ok":
                correspond(ops, backend, 0, lines, out)
        elif fails:
            report(ops, backend, 0, fails, "probe link without reopen")
        else:
            corr_broken.append({"probe": "the witness of C04_link_invisible_until_reopen_refuted does not diverge on the implementation",
                                "backend": backend})
    for fn, how in tables["bad_nrow"]:
        if True:
            static_broken.append({"broken_obligation": "a node-context writer does not store the id of the node it creates",
                                  "function": fn, "how": how, "table": "Gen_C04.ctx_writers / Mirror.bad_nrows"})

    # the witness of C04_order_refuted, for EVERY kind whose writer deletes and re-creates (by design of CGNS)
    seen_labels = set()
    order_probes = []
    for pl in sorted(CAT):
        for label, mode, _ in CAT[pl]:
            if mode == "w" and label not in seen_labels and pl not in ("CGNSTree_t", PIT):
                r = probe_order(pl, label)
                if r is not None:
                    seen_labels.add(label)
                    order_probes.append((pl, label) + r)
    by_design = {}
    for n, (pl, label, ops, grp) in enumerate(order_probes):
        if label == F and AVOID["afn_overwrite"]:
            continue
        backend = "adf" if n % 2 == 0 else "hdf5"
        fails, lines, out, outcome = probe(ops, backend, "order witness", {"group": [pl, label]})
        idx = [f for f in fails if f["class"] == "index" and f["group"] == grp]
        rest = [f for f in fails if not (f["class"] in ("index", "order") and f["group"] == grp)]
        first = ops[-1][4]
        if idx and not rest and [n for n, _ in idx[0]["reopened"]][-1] == first and [n for n, _ in idx[0]["session"]][-1] != first \
                and not Ref.sorted_on_read(pl, label):
            by_design[label] = backend
            finding("index-after-overwrite-nonlast:" + label,
                       {"witness": "C04_order_refuted", "ops": ser(ops), "history": [lines_of_op(o) for o in ops], "backend": backend,
                        "session": idx[0]["session"], "reopened": idx[0]["reopened"],
                        "by_design": "the session re-uses the slot, the database appends the re-created node"})
        elif fails:
            report(ops, backend, 0, fails, "probe order witness %s/%s" % (pl, label))
        elif label == "FlowSolution_t":
            corr_broken.append({"probe": "the witness of C04_order_refuted does not diverge on the implementation", "backend": backend})
        if outcome == "ok" and not rest:
            correspond(ops, backend, 0, lines, out)
    # the witness of C04_zone_sort_refuted: zones / particle zones created out of name order
    for n, label in enumerate(("Zone_t", "ParticleZone_t")):
        ops = [("w", "/B", "CGNSBase_t", label, "Zc", 3), ("w", "/B", "CGNSBase_t", label, "Za", 4)]
        backend = "adf" if n % 2 == 0 else "hdf5"
        fails, lines, out, outcome = probe(ops, backend, "zone sort witness", {"label": label})
        keys = order_by_design(ops, fails) if fails else None
        if fails and keys == {"index-after-reopen-sorted:" + label}:
            by_design["sorted:" + label] = backend
            finding("index-after-reopen-sorted:" + label,
                    {"witness": "C04_zone_sort_refuted", "ops": ser(ops), "history": [lines_of_op(o) for o in ops], "backend": backend,
                     "session": fails[0]["session"], "reopened": fails[0]["reopened"],
                     "by_design": "cgi_read_base orders the zones of a base by name"})
        elif fails:
            report(ops, backend, 0, fails, "probe zone sort witness")
        else:
            corr_broken.append({"probe": "the witness of C04_zone_sort_refuted does not diverge on the implementation", "label": label})
        if outcome == "ok":
            correspond(ops, backend, 0, lines, out)
    ck.extra["by_design_index_difference_confirmed_for"] = sorted(by_design)

    # what the tables flag: shadowed label arms and reachable parents without a dispatcher block -- replayed on the library
    replayed = []
    for (pl, label, name) in tables["shadowed"]:
        ops = probe_shadowed(pl, label, name)
        if ops is None:
            replayed.append({"triple": [pl, label, name], "replayed": False, "why": "the harness has no writer for this group"})
            continue
        div = False
        for backend in ("adf", "hdf5"):
            fails, lines, out, outcome = probe(ops, backend, "shadowed arm", {"triple": [pl, label, name]})
            if fails:
                div = True
                finding("delete-arm-shadowed:%s/%s:%s" % (pl, label, name),
                           {"ops": ser(ops), "history": [lines_of_op(o) for o in ops], "backend": backend, "failures": fails[:3],
                            "table": "Mirror.shadowed on the regenerated Gen_C04.delete_table lists this triple"})
        replayed.append({"triple": [pl, label, name], "replayed": True, "diverges": div})
    for (pl, kind) in tables["no_block"]:
        if kind != "has_children":
            continue
        ops = probe_noblock(pl)
        if ops is None:
            static_broken.append({"broken_obligation": "a parent label the goto table reaches has no block in cg_delete_node and the "
                                                       "harness cannot build such a node", "parent": pl})
            continue
        div = False
        for backend in ("adf", "hdf5"):
            fails, lines, out, outcome = probe(ops, backend, "parent without block", {"parent": pl})
            if fails:
                div = True
                finding("delete-no-dispatch-block:%s" % pl, {"ops": ser(ops), "history": [lines_of_op(o) for o in ops], "backend": backend, "failures": fails[:3]})
        replayed.append({"no_block": pl, "replayed": True, "diverges": div})
    for (pl, label) in tables["unsound"]:
        if pl == PIT and any(r.get("no_block") == PIT for r in replayed):
            continue
        static_broken.append({"broken_obligation": "the dispatcher does not shift the array of this kind for an unreserved name",
                              "parent": pl, "label": label, "table": "Mirror.unsound_kinds"})
    ck.extra["table_findings_replayed"] = replayed
    for t3 in tables.get("bad_single", []):
        static_broken.append({"broken_obligation": "the arm that frees this single child does not select it the way its writers name it "
                                                   "(by label for a caller-named kind, by its literal name for a fixed-name kind)",
                              "parent": t3[0], "label": t3[1], "pointer": t3[2], "table": "Mirror.bad_singles"})
    for t2 in tables.get("unjustified_name", []):
        static_broken.append({"broken_obligation": "an arm compares node_name with a literal that is neither the fixed name of a child kind "
                                                   "of this parent nor a name the reader identifies a child by", "parent": t2[0], "name": t2[1]})
    # caller-named single children under a RESERVED name that an earlier arm tests: replay each on the library
    for (pl, label, name) in tables.get("shadowed_single", []):
        ms = [m for m in MK if m[2] == pl and m[3][-1][1] == label]
        r = route_ops(pl)
        if not ms or r is None:
            static_broken.append({"broken_obligation": "shadowed single child the harness cannot build", "triple": [pl, label, name]})
            continue
        ops, path = r
        if ms[0][0] in ("ziter", "piter") and not any(o[0] == "mk" and o[2] == "biter" for o in ops):
            ops = [mk_op("/B", [m for m in MK if m[0] == "biter"][0])] + ops
        ops = ops + [mk_op(path, ms[0], name), ("w", join(path, name), label, D, "Dek", 5), ("d", path, pl, name), mk_op(path, ms[0], name)]
        div = False
        for backend in ("adf", "hdf5"):
            fails, lines, out, outcome = probe(ops, backend, "shadowed single child", {"triple": [pl, label, name]})
            if fails:
                div = True
                finding("delete-arm-shadowed:%s/%s:%s" % (pl, label, name),
                        {"ops": ser(ops), "history": [lines_of_op(o) for o in ops], "backend": backend, "failures": fails[:3],
                         "table": "Mirror.shadowed_singles on the regenerated tables lists this triple"})
        replayed.append({"triple": [pl, label, name], "single_child": True, "replayed": True, "diverges": div})
    for fn, fields in tables.get("bad_rrow", []):
        static_broken.append({"broken_obligation": "a writer that can be handed a re-used slot does not set these fields again",
                              "function": fn, "fields": fields, "table": "Gen_C04.reinit_rows / Mirror.bad_rrows"})

    # ---- overwrite vs attributes: every entity whose writer deletes and re-creates it in a re-used slot is written, given every
    # attribute the API accepts there, overwritten by the same writer, and must then look -- in the session and after a fresh
    # open -- exactly like the same entity created for the first time (run in a second file)
    atts = attr_targets()
    attr_cov = {}
    for ai, target in enumerate(atts):
        for backend in (("adf", "hdf5") if big else (("adf", "hdf5")[ai % 2],)):
            fails, attached, raw = attr_case(exe, work, backend, target)
            dist["attr"] = dist.get("attr", 0) + 1
            ck.case(hashlib.sha1((target[0] + backend).encode()).hexdigest() if attached else None,
                    sample={"kind": "overwrite vs attributes", "target": target[0], "backend": backend, "attached": attached})
            ck.cov["traces_validated_against_impl"] += 1
            attr_cov[target[0]] = sorted(set(attr_cov.get(target[0], [])) | set(attached))
            if fails and target[0].startswith("attribute ") and any(f["class"] == "attr-refused" for f in fails):
                finding("attribute-rewrite-refused:%s" % target[1],
                        {"attr_target": target[0], "backend": backend, "failures": fails[:4], "script_overwrite": raw[2], "history": raw[2]})
                fails = []
            for f in fails:
                rep = {"attr_target": target[0], "backend": backend, "failure": f, "script_fresh": raw[0], "script_overwrite": raw[2],
                       "history": raw[2]}
                if f["class"] in ("attr-session", "attr-file"):
                    finding("overwrite-keeps-attribute:%s:%s" % (target[1], "+".join(f["fields"])), rep)
                elif f["class"] == "attr-fresh":
                    finding("fresh-view-differs:%s:%s" % (target[1], "+".join(f["fields"])), rep)
                else:
                    hard(dict(rep, **{"class": f["class"], "found_by": "overwrite vs attributes"}))
    ck.extra["overwrite_vs_attributes"] = {"targets": len(atts), "attached": attr_cov}

    def one(ops, backend, compress, tag, sparse=0):
        lines, exp, out, outcome = exec_case(ops, backend, compress, "h", sparse)
        fails = evaluate(ops, lines, exp, out, outcome)
        for o in ops:
            dist["ops"][o[0]] = dist["ops"].get(o[0], 0) + 1
        dist["backends"][backend] = dist["backends"].get(backend, 0) + 1
        dist["compress"][str(compress)] = dist["compress"].get(str(compress), 0) + 1
        names = set()
        ow = False
        for o in ops:
            if o[0] in ("w", "u"):
                if (o[1], o[4]) in names:
                    ow = True
                names.add((o[1], o[4]))
        nontriv = ow and any(o[0] == "d" for o in ops)
        ck.case(hashlib.sha1(("\n".join(lines) + backend).encode()).hexdigest() if nontriv else None,
                sample={"kind": tag, "backend": backend, "compress": compress, "ops": [lines_of_op(o) for o in ops[:12]] + ["..."]})
        ck.cov["traces_validated_against_impl"] += 1
        if fails:
            keys = order_by_design(ops, fails)
            if keys is not None:
                for key in sorted(keys):
                    finding(key, {"ops": ser(ops), "history": [lines_of_op(o) for o in ops], "backend": backend, "compress": compress,
                                     "failures": fails[:3], "by_design": "the session re-uses the slot, the database appends"})
                fails = []
                # the model must still print the same lines
        if not fails and outcome == "ok":
            correspond(ops, backend, compress, lines, out, exp)
        return fails

    # the current ZoneGridConnectivity_t container (cg_zconn_set) while a sibling container is deleted: with `zcmode keep` the
    # harness does not select ZB again after ZA is gone; the connectivity written next must land in ZB
    zsaid = tables["verdicts"].get("zconn_arm_keeps_current")
    zseen = False
    for backend in ("adf", "hdf5"):
        AVOID["active_zconn"] = False
        ZG, GC = "ZoneGridConnectivity_t", "GridConnectivity_t"
        ops = [("w", "/B", "CGNSBase_t", "Zone_t", "Z0", 5), ("w", "/B/Z0", "Zone_t", ZG, "ZA", 1), ("w", "/B/Z0", "Zone_t", ZG, "ZB", 2),
               ("w", "/B/Z0", "Zone_t", ZG, "ZC", 3), ("w", "/B/Z0/ZB", ZG, GC, "CnB1", 7), ("d", "/B/Z0", "Zone_t", "ZA"),
               ("w", "/B/Z0/ZB", ZG, GC, "CnB2", 8), ("w", "/B/Z0/ZC", ZG, GC, "CnC", 9)]
        # (views after every 4th op only: nothing is read between `w CnB1` -- the harness selects ZB --, `d ZA` and `w CnB2`)
        fails, lines, out, outcome = probe(ops, backend, "current ZoneGridConnectivity_t across a deletion", sparse=4)
        if fails and all(f.get("group", ("",))[0].startswith("/B/Z0/Z") or f["class"] == "status" for f in fails):
            zseen = True
            finding("active-zconn-follows-index-after-delete",
                    {"ops": ser(ops), "history": [lines_of_op(o) for o in ops], "backend": backend, "failures": fails[:3],
                     "harness_mode": "zcmode keep", "sparse": 4,
                     "what": "the current ZoneGridConnectivity_t node is remembered as an INDEX (zone->active_zconn): after "
                             "cg_zconn_set selected ZB among ZA, ZB, ZC, cg_delete_node(ZA) leaves the index at 2, which is now ZC: "
                             "cg_conn_write / cg_nconns / ... address ZC"})
        elif fails:
            report(ops, backend, 0, fails, "probe current ZoneGridConnectivity_t across a deletion", sparse=4)
        elif outcome == "ok":
            correspond(ops, backend, 0, lines, out)
    AVOID["active_zconn"] = zseen            # while the defect is present the histories select the container before every call
    if zsaid is not None and (zsaid == "false") != zseen:
        corr_broken.append({"probe": "Mirror.zconn_arm_keeps_current = %s but the current container %s across a deletion on the "
                                     "implementation" % (zsaid, "changes" if zseen else "stays")})

    # cg_array_general_write on an array the library loaded when it opened the file (the witness of
    # C04_cached_array_not_refreshed_diverges): the table says whether cgi_array_general_write mentions array->data at all
    r = route_ops("ReferenceState_t")
    if r is not None:
        rops, rpath = r
        stale_seen = False
        for backend in ("adf", "hdf5"):
            ops = rops + [("w", rpath, "ReferenceState_t", A, "A1", 5), ("reopen", "m"), ("u", rpath, "ReferenceState_t", A, "A1", 7)]
            fails, lines, out, outcome = probe(ops, backend, "array rewritten in place after a reopen")
            grp = (rpath, "ReferenceState_t", A)
            mine = [f for f in fails if f.get("group") == grp and f["class"] == "content" and "A1:7!a=5" in str(f.get("got", f.get("session")))]
            if mine and all(f.get("group") == grp for f in fails):
                stale_seen = True
                AVOID["stale_array"] = True
                finding("array-general-write-stale-cache",
                        {"witness": "C04_cached_array_not_refreshed_diverges", "ops": ser(ops), "history": [lines_of_op(o) for o in ops],
                         "backend": backend, "failures": mine[:2],
                         "what": "cg_array_general_write on an existing DataArray_t whose data cgi_read_array loaded at cg_open (parents other "
                                 "than GridCoordinates_t / FlowSolution_t / ...) writes the node and leaves array->data alone: cg_array_read "
                                 "and cg_array_read_as keep answering the old values until the file is opened again"})
            elif fails:
                report(ops, backend, 0, fails, "probe array rewritten in place")
            elif outcome == "ok":
                correspond(ops, backend, 0, lines, out)
        says = tables["verdicts"].get("general_write_mentions_cache")
        if (says == "false") != stale_seen:
            corr_broken.append({"probe": "Gen_C04.general_write_mentions_cache = %s but the in-place rewrite of a loaded array %s on the "
                                         "implementation" % (says, "diverges" if stale_seen else "does not diverge")})

    # ---- (t) every data type through the rewrite of the file: arrays of the seven types of the mid-level library under a parent
    # whose arrays are loaded at open (IntegralData_t) and one whose arrays are not (UserDefinedData_t), in 1-D and 2-D shapes,
    # nodes of all ten types of the database created through cgio (U4, U8, B1 included), descriptors of 1..40 characters; an
    # unrelated deletion, cg_close + cg_open (with compress-on-close the whole file is copied node by node), in-place rewrites
    # and overwrites, the fresh open.  EVERY byte is verified by the harness on every view.
    tcombos = [("adf", 1), ("hdf5", -1), ("hdf5", 1), ("adf", -1), ("adf", 0), ("hdf5", 0)]
    for ti_, (backend, compress) in enumerate(tcombos if big else tcombos[:4]):
        if state["hard"]:
            break
        U1, I1 = "/B/U1", "/B/I1"
        ops = [("w", "/B", "CGNSBase_t", U, "U1", 3), ("w", "/B", "CGNSBase_t", I, "I1", 4)]
        for k in range(7):
            for sfx in ("x", "yy", "zzz"):
                ops.append(("w", U1, U, A, "Ty%d%s" % (k, sfx), 1000 + 100 * k + len(sfx)))
                ops.append(("w", I1, I, A, "Ty%d%s" % (k, sfx), 2000 + 100 * k + len(sfx)))
        for k in range(10):
            ops.append(("raw", U1, U, "Ty%dr" % k, 3000 + k))
            ops.append(("raw", "/B", "CGNSBase_t", "Ty%dbb" % k, 4000 + k))
        ops += [("w", "/B", "CGNSBase_t", D, "De1", 39), ("w", "/B", "CGNSBase_t", D, "De2", 7), ("w", U1, U, D, "De3", 9999),
                ("d", "/B", "CGNSBase_t", "De2"), ("reopen", "m")]
        for k in range(7):
            ops.append(("u", I1, I, A, "Ty%dx" % k, 5000 + k))            # in place, loaded at open
            ops.append(("u", U1, U, A, "Ty%dyy" % k, 6000 + k))           # in place, not loaded
            ops.append(("w", I1, I, A, "Ty%dzzz" % k, 7000 + k))          # deleted and created again
        ops += [("raw", I1, I, "Ty8late", 8000), ("d", "/B", "CGNSBase_t", "De1")]
        if AVOID["stale_array"]:
            ops = [o for o in ops if not (o[0] == "u" and o[1] == I1)]
        dist["types"] = dist.get("types", 0) + 1
        covered.setdefault("%s/%s" % (U, A), set()).update({"create", "overwrite", "rewrite", "all-types"})
        covered.setdefault("%s/%s" % (I, A), set()).update({"create", "overwrite", "rewrite", "all-types"})
        fails = one(ops, backend, compress, "every data type")
        if fails:
            report(ops, backend, compress, fails, "every data type")

    # ---- (l) links: under every parent label cg_link_write accepts, a link into a second file, a link to a sibling in the same
    # file and a second link that is deleted again, with edits of the siblings around them; cg_close + cg_open in the middle
    # (with compress-on-close that is the rewrite of the file) and the fresh open at the end, before which the second file is
    # written again with other payloads
    link_targets = []
    for pl in sorted(CAT):
        if pl not in LINK_PARENTS:
            continue
        r = route_ops(pl)
        if r is None:
            continue
        ks = link_kinds_at(r[1], pl)
        if not ks:
            continue
        for ki, k in enumerate(ks):
            if big or ki == (len(link_targets) % len(ks)):
                link_targets.append((pl, k[0], k[2]))
                if not big:
                    break
    lcombos = [("adf", 1), ("hdf5", -1), ("adf", -1), ("hdf5", 1), ("adf", 0), ("hdf5", 0)]
    link_cov = []
    stop = state["hard"] > 0
    for li, (pl, label, bound) in enumerate(link_targets):
        if stop:
            break
        ops, path = route_ops(pl)
        plan = donor_plan(pl, label, 1)
        if plan is None:
            continue
        t = TAG.get(label, "N")
        b = bound or 99
        a_, b_, c_ = ("GridCoordinates" if label == "GridCoordinates_t" else t + "a"), t + "b", t + "c"
        ops = ops + [("w", path, pl, label, a_, 1 % b), ("w", path, pl, label, b_, 2 % b),
                     ("ln", path, pl, label, "Lx", "D", plan[1]), ("ln", path, pl, label, "Ls", "", join(path, a_)),
                     ("ln", path, pl, label, "Ly", "D", plan[1]), ("d", path, pl, b_), ("reopen", "m"),
                     ("w", path, pl, label, c_, 3 % b), ("d", path, pl, "Ly"), ("w", path, pl, label, "Ls", 5 % b),
                     ("w", path, pl, label, b_, 4 % b), ("d", path, pl, c_)]
        backend, compress = lcombos[li % len(lcombos)]
        dist["links"] = dist.get("links", 0) + 1
        covered.setdefault("%s/%s" % (pl, label), set()).update({"create", "overwrite", "delete", "link", "link-delete", "link-overwrite"})
        link_cov.append("%s/%s" % (pl, label))
        fails = one(ops, backend, compress, "links %s/%s" % (pl, label))
        if fails:
            report(ops, backend, compress, fails, "links %s/%s" % (pl, label))
            stop = True
    ck.extra["link_groups"] = link_cov

    # ---- (a) one focused history per sibling group
    targets = [(pl, k[0]) for pl in sorted(CAT) for k in CAT[pl] if pl != "CGNSTree_t" and not (pl == PIT and AVOID["pit"])]
    stop = stop or state["hard"] > 0
    combos = [("adf", 0), ("hdf5", 0), ("adf", 1), ("hdf5", -1), ("adf", -1), ("hdf5", 1)]
    for ti, target in enumerate(targets):
        if stop:
            break
        for rep in range(4 if big else 1):
            backend, compress = combos[(ti + 3 * rep) % len(combos)]
            g = focused_history(ck.rng, target, allow_nonlast=(rep == 1) or (ti % 4 == 0), links=0.15 if (ti + rep) % 2 else 0.0)
            if g is None:
                continue
            dist["focused"] += 1
            for k, v in g.touched.items():
                covered.setdefault("%s/%s" % k, set()).update(v)
            fails = one(g.ops, backend, compress, "focused %s/%s" % target)
            if fails:
                report(g.ops, backend, compress, fails, "focused %s/%s" % target)
                stop = True
                break
    # ---- (a') every single-child container: fill it, delete it (CGNS_DELETE_CHILD arm), create it again
    for mi, m in enumerate(MK):
        if stop:
            break
        r = route_ops(m[2])
        if r is None:
            continue
        ops, path = r
        if m[0] in ("ziter", "piter") and not any(o[0] == "mk" and o[2] == "biter" for o in ops):
            ops = [mk_op("/B", [m for m in MK if m[0] == "biter"][0])] + ops
        first = mk_op(path, m)
        ops = ops + [first]
        inner = path
        for name, _ in first[4]:
            inner = join(inner, name)
        for lab, mode, bound in CAT.get(m[3][-1][1], [])[:3]:
            ops.append((mode, inner, m[3][-1][1], lab, TAG.get(lab, "N") + "k", 5 % (bound or 99)))
        top = first[4][0][0]
        if m[0] != "biter":                      # (deleting BaseIterativeData_t hides the ZoneIterativeData_t of every zone on read)
            # delete it by the name it was given, create it again -- under ANOTHER name when the caller chooses the name --
            # and put a child below the new one (a stale mirror entry makes that write fail or land elsewhere)
            again = mk_op(path, m)
            ops += [("d", path, m[2], top), again]
            inner2 = path
            for name, _ in again[4]:
                inner2 = join(inner2, name)
            for lab, mode, bound in CAT.get(m[3][-1][1], [])[:1]:
                ops.append((mode, inner2, m[3][-1][1], lab, TAG.get(lab, "N") + "n", 6 % (bound or 99)))
        elif first[4][0][1] in USER_NAMED:
            # BaseIterativeData_t: replace it under another name instead (cg_biter_write overwrites the single child)
            again = mk_op(path, m)
            ops.append(again)
            for lab, mode, bound in CAT.get(m[3][-1][1], [])[:1]:
                ops.append((mode, join(path, again[4][0][0]), m[3][-1][1], lab, TAG.get(lab, "N") + "n", 6 % (bound or 99)))
        backend, compress = combos[mi % len(combos)]
        dist["focused"] += 1
        covered.setdefault("%s/%s" % (m[2], m[3][0][1]), set()).update({"create", "delete-single"} if m[0] != "biter" else {"create"})
        fails = one(ops, backend, compress, "single child %s under %s" % (m[0], m[2]))
        if fails:
            report(ops, backend, compress, fails, "single child %s under %s" % (m[0], m[2]))
            stop = True
    # ---- (b) random whole-tree histories
    nrand = 400 if big else 14
    for j in range(nrand):
        if stop:
            break
        backend = "adf" if j % 2 == 0 else "hdf5"
        compress = [0, 1, -1][j % 3]
        g = Gen(ck.rng, big=big, allow_nonlast=(j % 2 == 0), links=0.08 if j % 4 != 3 else 0.0)
        g.history(ck.rng.randint(30, 80) if big else ck.rng.randint(18, 36))
        dist["random"] += 1
        dist["max_groups"] = max(dist["max_groups"], len(g.ref.groups(nonempty_only=True)))
        for k, v in g.touched.items():
            covered.setdefault("%s/%s" % k, set()).update(v)
        sp = 3 if j % 3 == 1 else 0          # a third of them with views after every third op only
        fails = one(g.ops, backend, compress, "random", sp)
        if fails:
            report(g.ops, backend, compress, fails, "random", sp)
            stop = True

    ck.extra["covered_groups"] = {k: sorted(v) for k, v in sorted(covered.items())}
    full = [k for k, v in covered.items() if {"create", "delete"} <= v and ("overwrite" in v or "rewrite" in v)]
    ck.extra["groups_with_create_overwrite_delete"] = len(full)
    ck.extra["labels_deleted"] = sorted({k.split("/")[1] for k, v in covered.items() if "delete" in v})
    ck.extra["single_children_deleted"] = sorted({k for k, v in covered.items() if "delete-single" in v})
    ck.extra["parent_labels_covered"] = sorted({k.split("/")[0] for k in covered})
    ck.extra["avoided_triggers"] = dict(AVOID)
    ck.extra["input_distribution"] = dist
    ck.extra["model_vs_implementation_mismatches"] = {"count": len(corr_broken), "first": corr_broken[:2]}
    ck.extra["table_obligations_without_failing_input"] = static_broken[:5]

    # ---- something broke without a failing input so far: widen the search (DESIGN.md 1.3)
    if (corr_broken or broken or static_broken) and not state["hard"] and not state["found"]:
        found = False
        for j in range(120 if big else 40):
            backend = "adf" if j % 2 == 0 else "hdf5"
            compress = [0, 1, -1][j % 3]
            g = Gen(ck.rng, allow_nonlast=(j % 2 == 0), links=0.1)
            g.history(ck.rng.randint(20, 45))
            lines, exp, out, outcome = exec_case(g.ops, backend, compress, "wide")
            fails = evaluate(g.ops, lines, exp, out, outcome)
            ck.cov["evaluations"] += 1
            if fails and order_by_design(g.ops, fails) is None:
                report(g.ops, backend, compress, fails, "widened search")
                found = True
                break
        if not found:
            hard({"broken_obligations": broken, "broken_tables": static_broken[:5], "broken_correspondence": corr_broken[:3],
                          "note": "an obligation no longer checks or the model and the implementation print different lines, "
                                  "but every history explored still satisfies the three oracles"}, nofail=True)


def replay(ck, path):
    r = json.load(open(path))
    vlib.build_impl()
    exe = vlib.build_harness("c04_mod", ["c04_mod.c"])
    pregen()
    vlib.build_modelrun("c04")
    load_link_parents()
    if "attr_target" in r:
        t = [t for t in attr_targets() if t[0] == r["attr_target"]]
        if not t:
            print("replay: no such target any more:", r["attr_target"]); return 1
        fails, att, _ = attr_case(exe, ck.work, r["backend"], t[0])
        print("replay %s: the implementation %s: %s" % (r["attr_target"], "still diverges" if fails else "no longer diverges", json.dumps(fails[:2])[:1200]))
        return 1 if fails else 0
    if "ops" not in r:
        print("replay names a broken obligation/correspondence, no input to run:", json.dumps(r)[:600]); return 1
    ops = deser(r["ops"])
    AVOID["active_zconn"] = r.get("harness_mode") != "zcmode keep"
    lines, exp, out, outcome = run_case(exe, ops, r["backend"], os.path.join(ck.work, "replay.cgns"), r.get("compress", 0), r.get("sparse", 0))
    fails = evaluate(ops, lines, exp, out, outcome)
    if r.get("finding_key"):
        print("replay of finding %s: the implementation %s: %s" % (r["finding_key"], "still diverges" if fails else "no longer diverges",
                                                                   json.dumps(fails[:2])))
        return 1 if fails else 0
    if fails and order_by_design(ops, fails) is not None:
        print("replay: only the by-design index difference remains:", json.dumps(fails[:2]))
        return 0
    print("replay: property %s on this input: %s" % ("FAILS" if fails else "holds", json.dumps(fails[:3])))
    return 1 if fails else 0
