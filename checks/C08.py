"""C08 -- links are transparent, non-owning, and always terminate.

Model     : coq/Links.v -- a world of several files (TreeDB tables) whose link records carry (file, path), with faithful
            transcriptions of cgio_find_file, ADFI_chase_link (+ link_depth, the one-entry cache and its exact clearing
            points), ADF_Get_Node_ID, the "file>path" payload, the in_use / links bookkeeping with ADFI_close_file, and of
            ADFH's one-hop open_link / parse_path over raw HDF5 groups.
Proofs    : coq/LinksProofs.v / Properties_C08.v (C08_terminates*, C08_transparent, C08_non_owning, C08_dangling,
            C08_cache_*, C08_search_order, and the *_refuted witnesses of what the current code gets wrong).
Tie       : seeded link graphs over 1-3 files per back end driven through cgio_* by harness/c08_cgio.c and through the
            extracted model (ocaml/eng_c08.ml); every answer is compared.  Mid-level tier: harness/c08_mll.c.
Oracle    : does NOT go through the Coq model: a direct read of the target in the same session, a direct dump of the
            target before / after a link is deleted, and the ideal (fully transparent, cache-free) resolution computed by
            this file over its own mirror of the trees -- see ideal_*.
"""
import hashlib, json, os, re, shutil
import vlib
from checks import nodedb

CHECKER = "make -C coq Properties_C08.vo (coqc 8.16.1 kernel); coqc Properties_C08.v (Print Assumptions)"
hx = nodedb.hx
ROOTS = {"adf": (b"ADF MotherNode", b"Root Node of ADF File"), "hdf5": (b"HDF5 MotherNode", b"Root Node of HDF5 File")}
ENVNAME = {"adf": "ADF_LINK_PATH", "hdf5": "HDF5_LINK_PATH"}
TSZ = nodedb.TYPES
MAXDEPTH = 100
BADID = re.compile(r"#### BAD ID \[\s*-?\d+\] ?")

# finding keys (see notes/C08.md, section Defects).  The first six are REPAIRED in /repo (909ac4d, 8281ca0, 9d19299,
# bf287b5, fff8c32): their witnesses live in corpus/C08/ and must pass; a regression re-fires under the original key.
K_STALE = "adf-link-cache-stale-after-rename"
K_NEST = "adf-link-path-through-own-cycle-stack-overflow"
K_CLOSE = "adf-close-recursion-mutual-file-links"
K_CLOSE9 = "adf-close-closes-file-still-linked"
K_SEP = "adf-link-file-name-containing-separator"
K_H5CHAIN = "hdf5-link-to-link-not-followed"
K_H5VIA = "hdf5-path-through-link-not-followed"
K_H5PATH = "hdf5-link-search-path-ignored"
K_CFGADD = "cg-configure-add-path-replaces"
K_H5LEAK = "hdf5-linked-file-stays-open-after-close"
K_H5CREATE = "hdf5-create-under-link-node-accepted"


# ============================================================================ mirror of the world (generator + oracle)
class FileM:
    def __init__(self, fid, path, be):
        self.fid, self.path, self.be = fid, path, be      # path: literal bytes used for every open
        self.exists = False
        self.mode = None                                  # None = not explicitly open
        self.reset()

    def reset(self):
        nm, lb = ROOTS[self.be]
        self.nodes = {0: dict(parent=-1, name=nm, label=lb, dt="MT", dims=[], data=None, link=None)}
        self.order = [0]
        self.next = 1

    def kids(self, u):
        return [k for k in self.order if self.nodes[k]["parent"] == u]

    def subtree(self, u):
        out = [u]
        for k in self.kids(u):
            out += self.subtree(k)
        return out

    def npath(self, u):
        segs = []
        while u != 0:
            segs.append(self.nodes[u]["name"]); u = self.nodes[u]["parent"]
        return b"/" + b"/".join(reversed(segs))

    def depth(self, u):
        d = 0
        while u != 0:
            u = self.nodes[u]["parent"]; d += 1
        return d


class World:
    def __init__(self, be):
        self.be = be
        self.files = {}                                    # fid -> FileM
        self.env = {"ADF_LINK_PATH": b"", "HDF5_LINK_PATH": b"", "CGNS_LINK_PATH": b""}
        self.plist = []
        self.decoys = {}                                   # literal -> type name ("adf" / "hdf5" / "junk")

    def path_op(self, op, arg):
        """cg_set_path / cg_add_path / cg_configure(CG_CONFIG_SET_PATH | CG_CONFIG_ADD_PATH) as documented: `set` starts a
        new list (empty for NULL or ""), `add` appends and refuses NULL / ""; arg: bytes or None (NULL).  -> expected status"""
        empty = arg is None or arg == b""
        if op in ("setpath", "cfgset"):
            self.plist = [] if empty else [arg]
            return "ok"
        if empty:
            return "err other"
        self.plist.append(arg)
        return "ok"

    def by_path(self, lit):
        for f in self.files.values():
            if f.path == lit:
                return f
        return None

    def exists_as(self, lit, be):
        f = self.by_path(lit)
        if f is not None and f.exists:
            return f.be == be
        return self.decoys.get(lit) == be


class Unres(Exception):
    """the ideal resolution fails: kind in file | target | cycle | depth"""
    def __init__(self, kind):
        Exception.__init__(self, kind); self.kind = kind


def dirname(lit):
    i = lit.rfind(b"/")
    return None if i < 0 else lit[: i + 1]


def documented_candidates(w, parent, fname):
    """the documented search order (cgio_find_file): absolute | parent's directory | current directory |
    <type>_LINK_PATH | CGNS_LINK_PATH | cg_set_path / cg_add_path list; -> [(literal, rule)]"""
    if fname.startswith(b"/"):
        return [(fname, "abs")]
    out = []
    d = dirname(parent)
    if d is not None:
        out.append((d + fname, "parentdir"))
    out.append((fname, "cwd"))
    for rule, val in (("typeenv", w.env[ENVNAME[w.be]]), ("cgnsenv", w.env["CGNS_LINK_PATH"])):
        for comp in val.split(b":"):
            if comp:
                out.append((comp + (b"" if comp.endswith(b"/") else b"/") + fname, rule))
    for entry in w.plist:
        for comp in entry.split(b":"):
            if comp:
                out.append((comp + (b"" if comp.endswith(b"/") else b"/") + fname, "pathlist"))
    return out


class Ideal:
    """fully transparent resolution over the mirror: every link met -- as the node read, as a component of a stored
    path, as a component of the caller's path -- is followed; a cycle or a chain of more than 100 hops is an error.
    `trace` records what was needed, for naming a known defect class."""
    def __init__(self, w):
        self.w = w
        self.trace = {"hops": 0, "landed_on_link": False, "through_link": False, "file_rule": set()}

    def node(self, n):
        f = self.w.by_path(n[0])
        return None if f is None or not f.exists else f.nodes.get(n[1])

    def child(self, n, name):
        f = self.w.by_path(n[0])
        for k in f.kids(n[1]):
            if f.nodes[k]["name"] == name:
                return (n[0], k)
        return None

    def find_file(self, parent, fname):
        for lit, rule in documented_candidates(self.w, parent, fname):
            if self.w.exists_as(lit, self.w.be):
                self.trace["file_rule"].add(rule)
                return lit
        raise Unres("file")

    def resolve(self, n, stack=()):
        hops = 0
        while True:
            r = self.node(n)
            if r is None:
                raise Unres("target")
            if r["link"] is None:
                return n
            if n in stack:
                raise Unres("cycle")
            hops += 1
            self.trace["hops"] += 1
            if hops > MAXDEPTH:
                raise Unres("depth")
            stack = stack + (n,)
            fname, path = r["link"]
            lit = self.find_file(n[0], fname) if fname else n[0]
            n = self.walk((lit, 0), path, stack, stored=True)
            rr = self.node(n)
            if rr is not None and rr["link"] is not None:
                self.trace["landed_on_link"] = True

    def walk(self, start, path, stack=(), stored=False):
        """-> the node named by `path` (its last component is NOT resolved)"""
        if path.startswith(b"/"):
            start = (start[0], 0)
        toks = [t for t in path.split(b"/") if t]
        if not toks:
            if path.startswith(b"/"):
                return start
            raise Unres("target")
        cur = self.resolve(start, stack)
        for i, t in enumerate(toks):
            k = self.child(cur, t)
            if k is None:
                raise Unres("target")
            if i + 1 < len(toks):
                r = self.node(k)
                if r["link"] is not None:
                    self.trace["through_link"] = True
                cur = self.resolve(k, stack)
            else:
                cur = k
        return cur


def rd_line(w, n_own, n_target):
    """the canonical answer of `rd`: own name of the node addressed, everything else from the target"""
    fo, ft = w.by_path(n_own[0]), w.by_path(n_target[0])
    o, t = fo.nodes[n_own[1]], ft.nodes[n_target[1]]
    data = t["data"].hex() if (t["dt"] != "MT" and t["dims"] and t["data"] is not None) else "-"
    kids = ft.kids(n_target[1])
    return "ok R:%s:%s:%s:%s:%s:%d:%s" % (hx(o["name"]), hx(t["label"]), hx(t["dt"].encode()),
                                          ",".join(map(str, t["dims"])) if t["dims"] else "-", data or "-", len(kids),
                                          ",".join(hx(ft.nodes[k]["name"]) for k in kids) if kids else "-")


def ideal_rd(w, fid, u, path):
    """-> (expected line | ('err', kind), trace, target node or None)"""
    idl = Ideal(w)
    start = (w.files[fid].path, u)
    try:
        own = idl.walk(start, path) if path else start
        if path and not path.startswith(b"/"):
            pass
        tgt = idl.resolve(own)
        return rd_line(w, own, tgt), idl.trace, tgt
    except Unres as e:
        return ("err", e.kind), idl.trace, None


def sub_line(f, u, be):
    """direct dump of the subtree at u as harness `sub` prints it (links are not followed)"""
    def dump(k):
        n = f.nodes[k]
        if n["link"] is not None:
            return "{%s L %s %s}" % (hx(n["name"]), hx(n["link"][0]), hx(n["link"][1]))
        data = n["data"].hex() if (n["dt"] != "MT" and n["dims"] and n["data"] is not None) else "-"
        return "{%s %s %s %s %s%s}" % (hx(n["name"]), hx(n["label"]), n["dt"], ",".join(map(str, n["dims"])) if n["dims"] else "-",
                                       data or "-", "".join(dump(c) for c in f.kids(k)))
    return "ok S:" + dump(u)


# ============================================================================ history generator
NAME_ALPHA = b"abcdefghijklmnopqrstuvwxyzABCDEFGHIJKLMNOPQRSTUVWXYZ0123456789_-.#+= >"


def rand_name(rng, used, simple=False):
    for _ in range(100):
        n = rng.choice([1, 2, 3, 4, 6, 8, 12, 31, 32]) if not simple else rng.choice([1, 2, 3, 5])
        b = bytes(rng.choice(NAME_ALPHA[:62] if simple or rng.random() < 0.7 else NAME_ALPHA) for _ in range(n))
        b = b.strip(b" ") or b"n"
        if b in (b".", b"..") or b in used:
            continue
        return b
    return b"node%d" % rng.randint(0, 10 ** 9)


class Gen:
    """one history = one process: files created and linked, read through the links, targets renamed / moved /
    deleted / re-created, links deleted / re-targeted, files closed and re-opened (explicitly or only through links).
    expect[i] is None (no oracle for that line: the model decides), a line (must be printed), ('err', kind) (must
    fail cleanly), ('same', j) (must equal line j) ."""
    def __init__(self, rng, be, root, nfiles, layout=None, allow_defects=True, nops=40):
        self.rng, self.be, self.root = rng, be, root
        self.w = World(be)
        self.lines, self.expect, self.meta = [], [], []
        self.allow_defects = allow_defects
        self.renamed = False
        self.moved = False
        # files that link to EACH OTHER keep each other open after the caller's close (reference cycle, C17's known
        # finding fd:adf-link-cycle-keeps-files-open); opening such a file again would put two ADF handles on one file,
        # which is outside this check's assumptions: histories that allow back links run as one session
        self.forward_only = rng.random() < 0.75
        dirs = ["m", "m", "m", "cwd", "p1", "p2", "p3", "m/sub"]
        for k in range(1, nfiles + 1):
            loc = layout[k - 1] if layout else rng.choice(dirs if k > 1 else ["m", "m", "cwd", "p1"])
            base = b"f%d.cgns" % k if rng.random() < 0.8 else b"file %d.x" % k
            lit = base if loc == "cwd" else (root + "/" + loc + "/").encode() + base
            f = FileM(k, lit, be); f.loc, f.base = loc, base
            self.w.files[k] = f
        self.nops = nops

    # ---- emission
    def emit(self, line, expect=None, meta=None):
        t = line.split(" ")
        if t[0] in ("closef", "create", "link", "delete", "rename", "move", "label", "dims", "wall", "rd", "lnk", "sub"):
            f = self.w.files.get(int(t[1]))
            if f is not None and f.mode is not None:
                meta = dict(meta or {}, user_open=True)
        self.lines.append(line); self.expect.append(expect); self.meta.append(meta)
        return len(self.lines) - 1

    def P(self, s):
        return (self.root + "/" + s).encode()

    # ---- configuration of the search path
    def config(self):
        rng = self.rng
        pool = [self.P("p1"), self.P("p2"), self.P("p3"), self.P("nodir"), self.P("p1") + b"/", self.P("m")]
        # directories that really hold a file are named more often, so that bare names resolve through every rule
        pool += [self.P(f.loc) for f in self.w.files.values() if f.loc in ("p1", "p2", "p3", "m/sub")] * 3
        def plist(maxn):
            comps = [rng.choice(pool) for _ in range(rng.randint(0, maxn))]
            s = b":".join(comps)
            if comps and rng.random() < 0.3:
                s = b":" + s + b"::" + rng.choice(pool)
            return s
        for name in (ENVNAME[self.be], "CGNS_LINK_PATH", ENVNAME["hdf5" if self.be == "adf" else "adf"]):
            v = plist(2) if rng.random() < 0.5 else b""
            self.w.env[name] = v
            self.emit("setenv %s %s" % (name, hx(v)), "ok")
        # a HISTORY of list settings, not one setting: what is left is what the last set + the adds after it say
        if rng.random() < 0.3:
            self.w.plist = []
            self.emit("pathdel", "ok")
        for _ in range(rng.choice([0, 1, 2, 3, 4])):
            op = rng.choice(["setpath", "setpath", "addpath", "addpath", "cfgset", "cfgadd", "pathadd"])
            r = rng.random()
            arg = None if r < 0.12 else b"" if r < 0.25 else (plist(2) or self.P("p2"))
            if op == "pathadd":
                if not arg:
                    continue
                self.w.plist.append(arg); self.emit("pathadd %s" % hx(arg), "ok")
            else:
                self.emit("%s %s" % (op, "NULL" if arg is None else hx(arg)), self.w.path_op(op, arg))

    # ---- building blocks
    def op_create(self, f, p=None):
        rng = self.rng
        cands = [u for u in f.nodes if f.nodes[u]["link"] is None and f.depth(u) < 4]
        p = rng.choice(cands) if p is None else p
        u = f.next; f.next += 1
        nm = rand_name(rng, {f.nodes[k]["name"] for k in f.kids(p)}, simple=rng.random() < 0.5)
        self.emit("create %d %d %d %s" % (f.fid, p, u, hx(nm)), "ok")
        f.nodes[u] = dict(parent=p, name=nm, label=b"", dt="MT", dims=[], data=None, link=None); f.order.append(u)
        if rng.random() < 0.8:
            lb = bytes(rng.choice(NAME_ALPHA[:62]) for _ in range(rng.choice([1, 5, 12, 32]))) + b""
            self.emit("label %d %d %s" % (f.fid, u, hx(lb)), "ok"); f.nodes[u]["label"] = lb
        if rng.random() < 0.5:
            self.op_data(f, u)
        return u

    def op_data(self, f, u):
        rng = self.rng
        ty = rng.choice(["I4", "R8", "C1", "I8", "R4", "U4"]); n = rng.choice([1, 2, 3, 7, 40, 600])
        dims = [n] if rng.random() < 0.7 or n < 4 else [2, n // 2]
        self.emit("dims %d %d %s %s" % (f.fid, u, ty, ",".join(map(str, dims))), "ok")
        data = rng.randbytes(nodedb.prod(dims) * TSZ[ty])
        self.emit("wall %d %d %s" % (f.fid, u, data.hex()), "ok")
        f.nodes[u].update(dt=ty, dims=dims, data=data)

    def file_spelling(self, src, dst):
        """a way of naming file dst from a link stored in file src"""
        rng = self.rng
        # HDF5: a link that names its OWN file is traversed by libhdf5 as an external link; the file then stays open
        # inside libhdf5 after cgio_close_file (descriptor leak, C17's business) and a later read-only session inherits
        # the read-write handle.  Random HDF5 histories keep clear of that; the directed scenario `h5self` reports it.
        if dst is src and (self.be == "hdf5" or rng.random() < 0.85):
            return b""
        r = rng.random()
        if dst.loc == "cwd":
            return dst.base
        if r < 0.45:
            return dst.path                                   # absolute
        if dst.loc == "m/sub" and src.loc == "m" and r < 0.7:
            return b"sub/" + dst.base
        return dst.base                                       # bare name: parent's dir / cwd / search path decide

    def op_link(self, f, kind=None):
        """create one link in file f"""
        rng, w = self.rng, self.w
        parents = [u for u in f.nodes if f.nodes[u]["link"] is None and f.depth(u) < 4]
        p = rng.choice(parents)
        u = f.next; f.next += 1
        nm = rand_name(rng, {f.nodes[k]["name"] for k in f.kids(p)}, simple=True)
        g = rng.choice(list(w.files.values()))
        if self.forward_only and g.fid < f.fid:
            g = f
        kind = kind or rng.choice(["node"] * 6 + ["link", "link", "via", "via", "missing", "nofile", "cycle", "relative", "root"])
        fname = self.file_spelling(f, g)
        links = [k for k in g.nodes if g.nodes[k]["link"] is not None]
        plain = [k for k in g.nodes if g.nodes[k]["link"] is None and k != 0]
        path = None
        if kind == "link" and links:
            path = g.npath(rng.choice(links))
        elif kind == "via" and links:
            l = rng.choice(links)
            exp, _, tgt = ideal_rd(w, g.fid, l, b"")
            if tgt is not None:
                tf = w.by_path(tgt[0]); ks = tf.kids(tgt[1])
                if ks:
                    path = g.npath(l) + b"/" + tf.nodes[rng.choice(ks)]["name"]
        elif kind == "missing":
            path = (g.npath(rng.choice(plain)) if plain and rng.random() < 0.5 else b"") + b"/NoSuchNode"
        elif kind == "nofile":
            # (an absolute name that does not exist is retried by libhdf5 with its last component in the parent's
            #  directory -- modelled in h5_cands -- so the missing files get base names that exist nowhere)
            fname = rng.choice([b"nothere.cgns", self.P("m/nothere.cgns"), self.P("nodir/nothere1.cgns")])
            path = b"/" + rand_name(rng, set(), simple=True)
        elif kind == "cycle":
            # the link names itself, or a sibling link that will name it back
            fname = b"" if (rng.random() < 0.7 or self.be == "hdf5") else self.file_spelling(f, f)
            g = f
            path = f.npath(p).rstrip(b"/") + b"/" + nm
            if rng.random() < 0.5:
                u2 = f.next; f.next += 1
                nm2 = rand_name(rng, {f.nodes[k]["name"] for k in f.kids(p)} | {nm}, simple=True)
                self.emit("link %d %d %d %s %s %s" % (f.fid, p, u2, hx(nm2), hx(fname), hx(path)), "ok")
                f.nodes[u2] = dict(parent=p, name=nm2, label=b"", dt="LK", dims=[], data=None, link=(fname, path)); f.order.append(u2)
                path = f.npath(p).rstrip(b"/") + b"/" + nm2
        elif kind == "root":
            path = b"/"
        if path is None:
            if not plain:
                path = b"/"
            else:
                path = g.npath(rng.choice(plain))
                if kind == "relative":
                    path = path[1:]
        self.emit("link %d %d %d %s %s %s" % (f.fid, p, u, hx(nm), hx(fname), hx(path)), "ok")
        f.nodes[u] = dict(parent=p, name=nm, label=b"", dt="LK", dims=[], data=None, link=(fname, path)); f.order.append(u)
        return u

    def all_links(self, only_open=True):
        out = []
        for f in self.w.files.values():
            if only_open and f.mode is None:
                continue
            out += [(f, u) for u in f.nodes if f.nodes[u]["link"] is not None]
        return out

    def op_read(self, f, u, path=b""):
        """read through (f,u)[/path]; the oracle line comes from the ideal resolution; when the target's file is open a
        direct read of the target follows and must agree"""
        exp, trace, tgt = ideal_rd(self.w, f.fid, u, path)
        i = self.emit("rd %d %d %s" % (f.fid, u, hx(path)), exp, dict(kind="through", trace=trace, renamed=self.renamed))
        if tgt is not None:
            tf = self.w.by_path(tgt[0])
            if tf.mode is not None and self.rng.random() < 0.7:
                self.emit("rd %d %d -" % (tf.fid, tgt[1]), ("samefields", i), dict(kind="direct"))
        return i

    def op_read_some(self):
        rng = self.rng
        ls = self.all_links()
        if not ls:
            return
        f, u = rng.choice(ls)
        r = rng.random()
        if r < 0.55:
            self.op_read(f, u)
        elif r < 0.8:
            # a child / grandchild of the target, addressed through the link id
            exp, _, tgt = ideal_rd(self.w, f.fid, u, b"")
            path = b"NoChild"
            if tgt is not None:
                tf = self.w.by_path(tgt[0]); ks = tf.kids(tgt[1])
                if ks:
                    k = rng.choice(ks); path = tf.nodes[k]["name"]
                    if tf.nodes[k]["link"] is None and tf.kids(k) and rng.random() < 0.5:
                        path += b"/" + tf.nodes[rng.choice(tf.kids(k))]["name"]
            self.op_read(f, u, path)
        else:
            # by absolute path from the root of the file that holds the link (components before the last are followed)
            self.op_read(f, 0, f.npath(u) if rng.random() < 0.6 else f.npath(u) + b"/" + rand_name(rng, set(), True))
        if rng.random() < 0.3:
            n = f.nodes[u]
            self.emit("lnk %d %d" % (f.fid, u), "ok L:1:%s:%s" % (hx(n["link"][0]), hx(n["link"][1])), dict(kind="lnk"))
        if f.mode in ("w", "m") and rng.random() < 0.25:
            # using a DANGLING link as the parent of a new node must be refused (a resolving one is not tried: ADF puts the
            # child into the target, outside this check's scope)
            exp, _, tgt = ideal_rd(self.w, f.fid, u, b"")
            if tgt is None:
                self.emit("tryc %d %d %d %s" % (f.fid, u, 3900 + rng.randint(0, 90), hx(rand_name(rng, set(), True))), ("mustfail",),
                          dict(kind="create-under-dangling"))

    def targets_of_links(self):
        """nodes (in open, writable files) that some link currently resolves to or passes through"""
        out = []
        for f, u in self.all_links(only_open=False):
            idl = Ideal(self.w)
            try:
                t = idl.resolve((f.path, u))
            except Unres:
                continue
            tf = self.w.by_path(t[0])
            if tf.mode in ("w", "m") and t[1] != 0:
                out.append((tf, t[1]))
                p = tf.nodes[t[1]]["parent"]
                if p != 0:
                    out.append((tf, p))
        return out

    def op_mutate(self):
        rng, w = self.rng, self.w
        writable = [f for f in w.files.values() if f.mode in ("w", "m")]
        if not writable:
            return
        r = rng.random()
        tg = self.targets_of_links()
        if r < 0.16:
            self.op_create(rng.choice(writable))
        elif r < 0.30:
            self.op_link(rng.choice(writable))
        elif r < 0.46 and tg:
            # rename a target or an ancestor of one (ADF: the cached resolution survives it)
            f, u = rng.choice(tg)
            p = f.nodes[u]["parent"]
            nm = rand_name(rng, {f.nodes[k]["name"] for k in f.kids(p)}, simple=True)
            if self.be == "hdf5" and self.moved:
                return
            probes = []
            for lf, lu in self.all_links():
                _, _, t = ideal_rd(w, lf.fid, lu, b"")
                if t is not None and t[0] == f.path and (t[1] == u or f.nodes[t[1]]["parent"] == u):
                    probes.append((lf, lu))
            probes = probes[:2]
            for lf, lu in probes:                             # fill the cache, rename, ask again
                self.op_read(lf, lu)
            self.emit("rename %d %d %d %s" % (f.fid, p, u, hx(nm)), "ok")
            f.nodes[u]["name"] = nm
            if self.be == "hdf5":
                f.order.remove(u); f.order.append(u)
            self.renamed = True
            for lf, lu in probes[-1:]:
                self.op_read(lf, lu)
        elif r < 0.54 and tg:
            f, u = rng.choice(tg)
            if self.be == "hdf5" and self.renamed:
                return
            p = f.nodes[u]["parent"]
            cands = [x for x in f.nodes if x not in f.subtree(u) and x != p and f.nodes[x]["link"] is None and
                     f.nodes[u]["name"] not in {f.nodes[k]["name"] for k in f.kids(x)} and f.depth(x) < 4]
            if cands:
                np_ = rng.choice(cands)
                self.emit("move %d %d %d %d" % (f.fid, p, u, np_), "ok")
                f.nodes[u]["parent"] = np_; f.order.remove(u); f.order.append(u)
                self.moved = True
        elif r < 0.62 and tg:
            # delete a target (links to it dangle), sometimes re-create it under the same name
            f, u = rng.choice(tg)
            p, nm = f.nodes[u]["parent"], f.nodes[u]["name"]
            self.emit("delete %d %d %d" % (f.fid, p, u), "ok")
            for k in f.subtree(u):
                del f.nodes[k]; f.order.remove(k)
            if rng.random() < 0.5:
                u2 = f.next; f.next += 1
                self.emit("create %d %d %d %s" % (f.fid, p, u2, hx(nm)), "ok")
                f.nodes[u2] = dict(parent=p, name=nm, label=b"", dt="MT", dims=[], data=None, link=None); f.order.append(u2)
                lb = b"recreated"
                self.emit("label %d %d %s" % (f.fid, u2, hx(lb)), "ok"); f.nodes[u2]["label"] = lb
        elif r < 0.80:
            # delete a link (or re-target it): the target must not change -- direct dump before and after
            ls = [(f, u) for f, u in self.all_links() if f.mode in ("w", "m")]
            if not ls:
                return
            f, u = rng.choice(ls)
            _, _, tgt = ideal_rd(w, f.fid, u, b"")
            before = None
            if tgt is not None:
                tf = w.by_path(tgt[0])
                inside = tf is f and f.nodes[u]["parent"] in tf.subtree(tgt[1])
                if tf.mode is not None and not inside:
                    before = self.emit("sub %d %d" % (tf.fid, tgt[1]), sub_line(tf, tgt[1], self.be), dict(kind="hash"))
            p, nm = f.nodes[u]["parent"], f.nodes[u]["name"]
            self.emit("delete %d %d %d" % (f.fid, p, u), "ok")
            del f.nodes[u]; f.order.remove(u)
            if before is not None:
                self.emit("sub %d %d" % (tf.fid, tgt[1]), ("same", before), dict(kind="hash-after-link-delete"))
            if rng.random() < 0.6:
                # re-target: same name, new destination
                g = rng.choice(list(w.files.values()))
                if self.forward_only and g.fid < f.fid:
                    g = f
                plain = [k for k in g.nodes if k != 0]
                path = g.npath(rng.choice(plain)) if plain else b"/"
                u2 = f.next; f.next += 1
                fname = self.file_spelling(f, g)
                self.emit("link %d %d %d %s %s %s" % (f.fid, p, u2, hx(nm), hx(fname), hx(path)), "ok")
                f.nodes[u2] = dict(parent=p, name=nm, label=b"", dt="LK", dims=[], data=None, link=(fname, path)); f.order.append(u2)
                if before is not None:
                    self.emit("sub %d %d" % (tf.fid, tgt[1]), ("same", before), dict(kind="hash-after-retarget"))
                self.op_read(f, u2)
        elif r < 0.90 and tg:
            f, u = rng.choice(tg)
            if rng.random() < 0.5:
                lb = bytes(rng.choice(NAME_ALPHA[:62]) for _ in range(rng.choice([0, 3, 32])))
                self.emit("label %d %d %s" % (f.fid, u, hx(lb)), "ok"); f.nodes[u]["label"] = lb
            else:
                self.op_data(f, u)
        else:
            f = rng.choice(writable)
            wide = [u for u in f.nodes if f.nodes[u]["link"] is None and f.depth(u) < 3]
            p = rng.choice(wide)
            for _ in range(rng.choice([3, 8, 9, 13])):          # fill sub-node tables across their growth steps
                self.op_create(f, p)

    # ---- explicit building blocks (directed scenarios)
    def x_create(self, f, p, nm, label=b"", data=None):
        u = f.next; f.next += 1
        self.emit("create %d %d %d %s" % (f.fid, p, u, hx(nm)), "ok")
        f.nodes[u] = dict(parent=p, name=nm, label=b"", dt="MT", dims=[], data=None, link=None); f.order.append(u)
        if label:
            self.emit("label %d %d %s" % (f.fid, u, hx(label)), "ok"); f.nodes[u]["label"] = label
        if data is not None:
            self.emit("dims %d %d C1 %d" % (f.fid, u, len(data)), "ok")
            self.emit("wall %d %d %s" % (f.fid, u, data.hex()), "ok")
            f.nodes[u].update(dt="C1", dims=[len(data)], data=data)
        return u

    def x_link(self, f, p, nm, fname, path):
        u = f.next; f.next += 1
        self.emit("link %d %d %d %s %s %s" % (f.fid, p, u, hx(nm), hx(fname), hx(path)), "ok")
        f.nodes[u] = dict(parent=p, name=nm, label=b"", dt="LK", dims=[], data=None, link=(fname, path)); f.order.append(u)
        return u

    def x_rename(self, f, u, nm):
        self.emit("rename %d %d %d %s" % (f.fid, f.nodes[u]["parent"], u, hx(nm)), "ok")
        f.nodes[u]["name"] = nm
        if self.be == "hdf5":
            f.order.remove(u); f.order.append(u)
        self.renamed = True

    def x_delete(self, f, u):
        self.emit("delete %d %d %d" % (f.fid, f.nodes[u]["parent"], u), "ok")
        for k in f.subtree(u):
            del f.nodes[k]; f.order.remove(k)

    def x_open(self, f, mode):
        self.emit("file %d %s %s %s" % (f.fid, hx(f.path), self.be, mode), "ok")
        f.mode = mode
        if mode == "w":
            f.reset(); f.exists = True

    def x_close(self, f):
        self.emit("closef %d" % f.fid, "ok"); f.mode = None

    def x_lnk(self, f, u, hint=None):
        n = f.nodes[u]
        self.emit("lnk %d %d" % (f.fid, u), "ok L:1:%s:%s" % (hx(n["link"][0]), hx(n["link"][1])), dict(kind="lnk", hint=hint or {}))

    def x_read(self, f, u, path=b"", hint=None):
        i = self.op_read(f, u, path)
        if hint:
            self.meta[i]["hint"] = hint
        return i

    def add_file(self, loc, base):
        k = max(self.w.files) + 1 if self.w.files else 1
        lit = base if loc == "cwd" else (self.root + "/" + loc + "/").encode() + base
        f = FileM(k, lit, self.be); f.loc, f.base = loc, base
        self.w.files[k] = f
        return f

    # ---- phases
    def open_all(self, mode, subset=None):
        for f in self.w.files.values():
            if subset is not None and f.fid not in subset:
                continue
            self.emit("file %d %s %s %s" % (f.fid, hx(f.path), self.be, mode), "ok")
            f.mode = mode
            if mode == "w":
                f.reset(); f.exists = True

    def close_all(self):
        fs = [f for f in self.w.files.values() if f.mode is not None]
        self.rng.shuffle(fs)
        for f in fs:
            self.emit("closef %d" % f.fid, "ok"); f.mode = None

    def sweep(self):
        """read through every link of every open file, then dump every open file directly"""
        for f, u in self.all_links():
            self.op_read(f, u)
            n = f.nodes[u]
            self.emit("lnk %d %d" % (f.fid, u), "ok L:1:%s:%s" % (hx(n["link"][0]), hx(n["link"][1])), dict(kind="lnk"))
        for f in self.w.files.values():
            if f.mode is not None:
                self.emit("sub %d 0" % f.fid, sub_line(f, 0, self.be), dict(kind="dump"))

    def build(self):
        rng = self.rng
        self.config()
        self.open_all("w")
        for f in self.w.files.values():
            for _ in range(rng.randint(3, 9)):
                self.op_create(f)
        for _ in range(rng.randint(2, 3 + 2 * len(self.w.files))):
            self.op_link(rng.choice(list(self.w.files.values())))
        for step in range(self.nops):
            r = rng.random()
            if r < 0.55:
                self.op_read_some()
            elif r < 0.93:
                self.op_mutate()
            elif r < 0.97 and len(self.w.files) > 1:
                # close one file explicitly: it stays reachable through links
                fs = [f for f in self.w.files.values() if f.mode is not None]
                if len(fs) > 1:
                    f = rng.choice(fs); self.emit("closef %d" % f.fid, "ok"); f.mode = None
            elif self.forward_only:
                # everything closed, the search path possibly reconfigured, a subset re-opened
                self.sweep(); self.close_all()
                if rng.random() < 0.4:
                    self.config()
                ids = list(self.w.files)
                sub = set(rng.sample(ids, rng.randint(1, len(ids))))
                self.open_all(rng.choice(["m", "m", "r"]), sub)
        self.sweep()
        self.close_all()
        if self.forward_only:
            self.open_all("r")
            self.sweep()
            self.close_all()
        return self


# ============================================================================ running a history
def prepare_dirs(root):
    shutil.rmtree(root, ignore_errors=True)
    for d in ("m/sub", "cwd", "p1", "p2", "p3"):
        os.makedirs(os.path.join(root, d), exist_ok=True)


MODEL_FLAGS = []          # switches of the extracted model, set when a regression witness shows the library before a repair


def run_case(exe, be, lines, root, timeout=120):
    """-> dict(lines, outcome, stack, model)"""
    prepare_dirs(root)
    text = "\n".join(lines) + "\n"
    env = {"ADF_LINK_PATH": "", "HDF5_LINK_PATH": "", "CGNS_LINK_PATH": "", "HDF5_EXT_PREFIX": ""}
    for k in env:
        os.environ.pop(k, None)
    il, outcome, stack = vlib.run_impl(exe, text, timeout=timeout, cwd=os.path.join(root, "cwd"), want_stack=True)
    il = [BADID.sub("", l) for l in il]          # ADFH_CHECK_HID prints a diagnostic to stdout before failing
    ml = vlib.run_model("c08", text, args=[be] + ([",".join(MODEL_FLAGS)] if MODEL_FLAGS else []))
    return dict(lines=il, outcome=outcome, stack=stack, model=ml)


def is_crash(outcome):
    return outcome.startswith(("asan:stack-overflow", "signal:11", "signal:6")) or outcome == "asan:stack-overflow"


def same_fields(a, b):
    """two `rd` lines agree on label, type, dimensions, data, child count and child names (the name is the node's own)"""
    return a.startswith("ok R:") and b.startswith("ok R:") and a.split(":")[2:] == b.split(":")[2:]


def judge(be, g_lines, g_expect, g_meta, res):
    """-> (oracle_failures, correspondence_divergence).  An oracle failure is (index, description, key or None); the key
    names a known defect class and is given only when the faithful model predicts exactly the observed answer."""
    il, ml = res["lines"], res["model"]
    fails = []
    n = len(g_lines)
    crashed_at = None
    if res["outcome"] != "ok":
        crashed_at = len(il)
    for i in range(n):
        exp = g_expect[i]
        got = il[i] if i < len(il) else None
        mod = ml[i] if i < len(ml) else None
        meta = g_meta[i] or {}
        if got is None:
            break
        if exp is None:
            continue
        if isinstance(exp, str):
            if got == exp:
                continue
            if exp == "ok" or not exp.startswith(("ok R:", "ok S:", "ok L:")):
                # a mutation / open / close did not do what the generator planned: the mirror is off from here on.
                # ADF + the faithful model refuses it too + the file was opened by the caller and never closed by him:
                # ADFI_close_file closed it behind his back (finding #9)
                key = None              # 909ac4d: a file opened by the caller is closed by nobody else
                fails.append((i, dict(op=nodedb.short(g_lines[i], 200), expected=exp, got=got,
                                      oracle="a file opened by the caller stays open until the caller closes it"), key))
                break
            fails.append((i, dict(op=nodedb.short(g_lines[i], 200), expected=nodedb.short(exp, 300), got=nodedb.short(got, 300),
                                  oracle="ideal resolution / direct dump"), classify(be, meta, exp, got, mod)))
        elif exp[0] == "err":
            if got.startswith("err ") and got != "err other":
                continue
            if got == "err other" and exp[1] in ("target",):
                continue
            fails.append((i, dict(op=nodedb.short(g_lines[i], 200), expected="clean link error (%s)" % exp[1], got=nodedb.short(got, 300),
                                  oracle="ideal resolution"), classify(be, meta, exp, got, mod)))
        elif exp[0] == "mustfail":
            if not got.startswith("err"):
                key = (meta.get("hint") or {}).get(be) if (mod is not None and mod == got) else None
                fails.append((i, dict(op=nodedb.short(g_lines[i], 200), expected="refused (the link it goes through has no target)", got=got,
                                      oracle="a link whose target is missing fails cleanly when used"), key))
        elif exp[0] == "same":
            if got != il[exp[1]]:
                fails.append((i, dict(op=nodedb.short(g_lines[i], 200), before=nodedb.short(il[exp[1]], 300), after=nodedb.short(got, 300),
                                      oracle="direct dump of the target before / after the link operation"), None))
        elif exp[0] == "samefields":
            j = exp[1]
            thr = il[j]
            if thr.startswith("ok R:") and not same_fields(thr, got):
                # the through-read already failed the ideal oracle when it differs; report only if that one passed
                if isinstance(g_expect[j], str) and thr == g_expect[j]:
                    fails.append((i, dict(op=nodedb.short(g_lines[i], 200), through=nodedb.short(thr, 300), direct=nodedb.short(got, 300),
                                          oracle="direct read of the target in the same session"), None))
    if crashed_at is not None and crashed_at < n:
        mod = ml[crashed_at] if crashed_at < len(ml) else None
        key = None                      # no crash is excused any more (8281ca0, 909ac4d)
        fails.append((crashed_at, dict(op=nodedb.short(g_lines[crashed_at], 200), outcome=res["outcome"], stack=res["stack"],
                                       oracle="every call returns (no crash, no hang)"), key))
    elif crashed_at is not None:
        mod = ml[n] if n < len(ml) else None
        key = None
        fails.append((n, dict(op="(closing the files still open at exit)", outcome=res["outcome"], stack=res["stack"],
                              oracle="every call returns (no crash, no hang)"), key))
    div = None
    mlc = [x for x in ml]
    cmp_impl = list(il)
    if res["outcome"] != "ok" and is_crash(res["outcome"]):
        cmp_impl = cmp_impl[: crashed_at] + ["crash"]
    d = nodedb.compare(mlc, cmp_impl)
    if d:
        div = dict(line=d[0], op=nodedb.short(g_lines[d[0]], 200) if d[0] < n else "(exit)", model=nodedb.short(d[1], 300),
                   impl=nodedb.short(d[2], 300))
    return fails, div


def classify(be, meta, exp, got, mod):
    """name the known defect class of a failed through-read -- only when the faithful model predicts the observed line"""
    if mod is None or mod != got:
        return None
    if meta.get("hint", {}).get(be):
        return meta["hint"][be]
    tr = meta.get("trace")
    if tr is None:
        return None
    if be == "adf":
        return None                                   # every ADF defect class found so far has been repaired
    if tr["file_rule"] & {"typeenv", "cgnsenv", "pathlist"}:
        return K_H5PATH
    if tr["through_link"]:
        return K_H5VIA
    return None


# ============================================================================ directed scenarios (witnesses and boundaries)
def scenario(name, rng, be, root):
    """-> Gen with a fixed script; None when the scenario does not apply to this back end"""
    g = Gen(rng, be, root, 0)
    g.emit("pathdel", "ok")
    for nme in ("ADF_LINK_PATH", "HDF5_LINK_PATH", "CGNS_LINK_PATH"):
        g.emit("setenv %s -" % nme, "ok")
    A = g.add_file("m", b"a.cgns")
    if name == "stale":
        # C08_cache_refuted: read through L, rename the target, read again; then a new node takes the old name
        g.x_open(A, "w")
        a = g.x_create(A, 0, b"A"); b = g.x_create(A, a, b"B", b"LabelB", b"payload"); g.x_create(A, b, b"K", b"LabelK")
        L = g.x_link(A, 0, b"L", b"", b"/A/B")
        g.x_read(A, L); g.x_rename(A, b, b"C"); g.x_read(A, L); g.x_read(A, L, b"K")
        g.x_create(A, a, b"B", b"the new B"); g.x_read(A, L)
        g.x_delete(A, b); g.x_read(A, L)                      # a delete clears the cache: now the new B answers
        g.x_close(A)
    elif name == "nest":
        # C08_terminates_refuted: a stored path that passes through the link itself
        g.x_open(A, "w"); g.x_create(A, 0, b"T", b"LabelT")
        L = g.x_link(A, 0, b"L", b"", b"/L/x"); g.x_lnk(A, L); g.x_read(A, L); g.x_close(A)
    elif name == "nest2":
        g.x_open(A, "w"); g.x_create(A, 0, b"T", b"LabelT")
        g.x_link(A, 0, b"P", b"", b"/Q/y"); Q = g.x_link(A, 0, b"Q", b"", b"/P/x"); g.x_read(A, Q); g.x_close(A)
    elif name == "mutual":
        # C08_close_recursion_refuted: A:/LA -> B:/LB -> A:/T is a fine chain; closing A never returns
        B = g.add_file("m", b"b.cgns")
        g.x_open(A, "w"); g.x_create(A, 0, b"T", b"LabelT", b"xyz"); LA = g.x_link(A, 0, b"LA", b"b.cgns", b"/LB"); g.x_close(A)
        g.x_open(B, "w"); g.x_link(B, 0, b"LB", b"a.cgns", b"/T"); g.x_close(B)
        g.x_open(A, "r"); g.x_read(A, LA); g.x_read(A, LA, b"") ; g.x_close(A)     # the close returns (909ac4d)
    elif name == "close9":
        # C08_close_refuted (#9): A -> B, C -> A; the caller holds A, B and C; closing C then A closes B behind his back
        B = g.add_file("m", b"b.cgns"); C = g.add_file("m", b"c.cgns")
        g.x_open(B, "w"); x = g.x_create(B, 0, b"X", b"LabelX"); g.x_create(B, x, b"Y", b"LabelY"); g.x_close(B)
        g.x_open(A, "w"); L1 = g.x_link(A, 0, b"L1", b"b.cgns", b"/X"); g.x_close(A)
        g.x_open(C, "w"); LC = g.x_link(C, 0, b"LC", b"a.cgns", b"/L1"); g.x_close(C)
        g.x_open(A, "r"); g.x_open(B, "r"); g.x_open(C, "r")
        g.x_read(A, L1); g.x_read(C, LC); g.x_read(C, LC, b"Y")
        g.x_close(C); g.x_read(A, L1); g.x_close(A)
        g.x_read(B, x)                                         # B was opened by the caller and never closed by him
        g.x_close(B)
    elif name == "userheld":
        # the caller opens the linked-to file himself, then a file that links into it; closing the linking file must
        # leave his own handle alone, and the linking file must really be closed (it is re-created afterwards)
        Lf = g.add_file("m", b"l.cgns")
        g.x_open(Lf, "w"); x = g.x_create(Lf, 0, b"X", b"LabelX", b"data"); g.x_close(Lf)
        g.x_open(A, "w"); La = g.x_link(A, 0, b"La", b"l.cgns", b"/X"); Ls = g.x_link(A, 0, b"Ls", b"a.cgns", b"/T") if be == "adf" else None
        t = g.x_create(A, 0, b"T", b"first"); g.x_close(A)
        g.x_open(Lf, "m"); g.x_open(A, "m"); g.x_read(A, La); g.x_read(A, La)
        if Ls is not None:
            g.x_read(A, Ls)
        g.x_close(A)
        g.x_read(Lf, x); g.emit("label %d %d %s" % (Lf.fid, x, hx(b"relabelled")), "ok"); Lf.nodes[x]["label"] = b"relabelled"; g.x_read(Lf, x)
        g.x_open(A, "m"); g.emit("label %d %d %s" % (A.fid, t, hx(b"second")), "ok"); A.nodes[t]["label"] = b"second"
        g.x_read(A, La); g.x_read(A, t)
        if Ls is not None:
            g.x_read(A, Ls)                                    # by its own file name: must see the new label
        g.x_close(A); g.x_close(Lf)
        g.x_open(A, "r"); g.x_read(A, La)
        if Ls is not None:
            g.x_read(A, Ls)
        g.x_close(A)
    elif name == "underlink":
        # a dangling link used as a parent: refused, and nothing anywhere changes
        g.x_open(A, "w"); g.x_create(A, 0, b"T", b"LabelT")
        Ld = g.x_link(A, 0, b"Ld", b"", b"/Nope"); Lf = g.x_link(A, 0, b"Lf", b"nofile.cgns", b"/T"); Lc = g.x_link(A, 0, b"Lc", b"", b"/Lc")
        before = sub_line(A, 0, be)
        for L_, nm in ((Ld, b"c1"), (Lf, b"c2"), (Lc, b"c3")):
            g.emit("tryc %d %d %d %s" % (A.fid, L_, 3900, hx(nm)), ("mustfail",), dict(kind="create-under-dangling"))
            g.x_read(A, L_)
        g.emit("sub %d 0" % A.fid, before, dict(kind="dump")); g.x_close(A)
        g.x_open(A, "r"); g.emit("sub %d 0" % A.fid, before, dict(kind="dump")); g.x_close(A)
    elif name in ("pathhist", "pathhist2"):
        # search-path HISTORIES: the same relative name in three directories with different content, absent from the
        # default places; after every step the linking file is opened afresh and the link says which file it reached
        tf = {}
        for loc in ("p1", "p2", "p3"):
            f = g.add_file(loc, b"t.cgns"); tf[loc] = f
            g.x_open(f, "w"); g.x_create(f, 0, b"X", ("I am the one in " + loc).encode(), loc.encode()); g.x_close(f)
        g.x_open(A, "w"); L = g.x_link(A, 0, b"L", b"t.cgns", b"/X"); g.x_close(A)
        P1, P2, P3 = g.P("p1"), g.P("p2"), g.P("p3")
        def look():
            g.x_open(A, "r"); g.x_read(A, L, hint={"hdf5": K_H5PATH}); g.x_close(A)
        def setter(op, arg):
            g.emit("%s %s" % (op, "NULL" if arg is None else hx(arg)), g.w.path_op(op, arg)); look()
        def env(nm, val):
            g.emit("setenv %s %s" % (nm, hx(val)), "ok"); g.w.env[nm] = val; look()
        if name == "pathhist":
            look()
            for op, arg in (("setpath", P1), ("setpath", b""), ("setpath", P2), ("setpath", None), ("setpath", P1), ("addpath", P2),
                            ("setpath", b""), ("addpath", P2), ("addpath", b""), ("addpath", None), ("cfgset", P3), ("cfgset", None),
                            ("cfgadd", P1), ("cfgadd", P2), ("cfgset", b""), ("cfgadd", None), ("cfgadd", P3), ("setpath", P2 + b":" + P1),
                            ("cfgset", b"")):
                setter(op, arg)
            env("CGNS_LINK_PATH", P2); setter("addpath", P3); env("CGNS_LINK_PATH", b""); env(ENVNAME[be], P1)
            setter("setpath", b""); env(ENVNAME[be], b""); setter("cfgadd", P2); setter("setpath", None)
        else:
            for _ in range(14):
                r = rng.random()
                if r < 0.2:
                    env(rng.choice(["CGNS_LINK_PATH", ENVNAME[be]]), rng.choice([b"", b"", P1, P2, P3 + b":" + P1]))
                else:
                    a = rng.random()
                    setter(rng.choice(["setpath", "addpath", "cfgset", "cfgadd"]),
                           None if a < 0.15 else b"" if a < 0.3 else rng.choice([P1, P2, P3, g.P("nodir") + b":" + P2]))
    elif name == "errbudget":
        # failures must not use anything up: many failing resolutions (dangling, cyclic, through their own path), then good ones
        g.x_open(A, "w"); t = g.x_create(A, 0, b"T", b"LabelT", b"abc"); g.x_create(A, t, b"K", b"LabelK")
        bad = [g.x_link(A, 0, b"D1", b"", b"/Nope"), g.x_link(A, 0, b"D2", b"nofile.cgns", b"/T"),
               g.x_link(A, 0, b"C1", b"", b"/C1"), g.x_link(A, 0, b"N1", b"", b"/N1/x"), g.x_link(A, 0, b"V1", b"", b"/D1/K")]
        good = g.x_link(A, 0, b"G", b"", b"/T"); via = g.x_link(A, 0, b"GV", b"", b"/G/K")
        for rnd in range(30):
            for b_ in bad:
                g.x_read(A, b_)
            if rnd % 10 == 9:
                g.x_read(A, good); g.x_read(A, via, hint={"hdf5": K_H5VIA}); g.x_read(A, 0, b"/G/K")
        g.x_read(A, good); g.x_read(A, via, hint={"hdf5": K_H5VIA}); g.x_close(A)
    elif name in ("chain100", "chain101", "chain5"):
        n = {"chain100": 100, "chain101": 101, "chain5": 5}[name]
        g.x_open(A, "w"); g.x_create(A, 0, b"T", b"LabelT", b"0123")
        prev = b"/T"; last = None
        for k in range(1, n + 1):
            nm = b"L%03d" % k
            last = g.x_link(A, 0, nm, b"", prev); prev = b"/" + nm
        g.x_read(A, last); g.x_read(A, 0, prev); g.x_close(A)
        g.x_open(A, "r"); g.x_read(A, last); g.x_close(A)
    elif name == "cycle":
        g.x_open(A, "w")
        P = g.x_link(A, 0, b"P", b"", b"/Q"); Q = g.x_link(A, 0, b"Q", b"", b"/P"); S = g.x_link(A, 0, b"S", b"", b"/S")
        g.x_read(A, P); g.x_read(A, Q); g.x_read(A, S); g.x_read(A, 0, b"/P/x"); g.x_lnk(A, S); g.x_close(A)
    elif name == "via":
        # a stored path and a caller's path that pass through a link
        g.x_open(A, "w")
        t = g.x_create(A, 0, b"T", b"LabelT"); k = g.x_create(A, t, b"K", b"LabelK", b"kk"); g.x_create(A, k, b"M", b"LabelM")
        L2 = g.x_link(A, 0, b"L2", b"", b"/T"); L1 = g.x_link(A, 0, b"L1", b"", b"/L2/K")
        g.x_read(A, L2); g.x_read(A, L2, b"K"); g.x_read(A, L2, b"K/M"); g.x_read(A, 0, b"/L2/K/M")
        g.x_read(A, L1); g.x_read(A, L1, b"M"); g.x_read(A, 0, b"/L1/M")
        g.x_close(A)
    elif name == "dangling":
        B = g.add_file("m", b"b.cgns")
        g.x_open(A, "w")
        Lf = g.x_link(A, 0, b"Lf", b"b.cgns", b"/X"); Lp = g.x_link(A, 0, b"Lp", b"", b"/Later/On")
        La = g.x_link(A, 0, b"La", (root + "/nodir/zz.cgns").encode(), b"/X")
        for L in (Lf, Lp, La):
            g.x_read(A, L); g.x_lnk(A, L)
        g.emit("sub %d 0" % A.fid, sub_line(A, 0, be), dict(kind="dump"))      # a failing read changed nothing
        lt = g.x_create(A, 0, b"Later"); g.x_create(A, lt, b"On", b"here now"); g.x_read(A, Lp)
        g.x_open(B, "w"); g.x_create(B, 0, b"X", b"LabelX"); g.x_read(A, Lf); g.x_close(B); g.x_read(A, Lf)
        g.x_close(A)
    elif name == "retarget":
        g.x_open(A, "w")
        t1 = g.x_create(A, 0, b"T1", b"one", b"1111"); t2 = g.x_create(A, 0, b"T2", b"two", b"22")
        L = g.x_link(A, 0, b"L", b"", b"/T1"); g.x_read(A, L)
        for tgt, path in ((t2, b"/T2"), (t1, b"T1"), (t2, b"/T2")):
            before = g.emit("sub %d 0" % A.fid, None)
            g.x_delete(A, L)
            L = g.x_link(A, 0, b"L", b"", path); g.x_read(A, L)
        g.x_close(A)
    elif name == "search":
        # every rule of the documented order in turn: the candidates are removed one by one
        locs = [("m", "parentdir"), ("cwd", "cwd"), ("p1", "typeenv"), ("p2", "cgnsenv"), ("p3", "pathlist"), ("m/sub", "pathlist2")]
        tf = []
        for loc, rule in locs:
            f = g.add_file(loc, b"t.cgns"); tf.append(f)
            g.x_open(f, "w"); g.x_create(f, 0, b"X", ("found by " + rule).encode()); g.x_close(f)
        other = "hdf5" if be == "adf" else "adf"
        g.emit("setenv %s %s" % (ENVNAME[be], hx(b":" + g.P("nodir") + b":" + g.P("p1") + b"/")), "ok")
        g.w.env[ENVNAME[be]] = b":" + g.P("nodir") + b":" + g.P("p1") + b"/"
        g.emit("setenv %s %s" % (ENVNAME[other], hx(g.P("p3"))), "ok"); g.w.env[ENVNAME[other]] = g.P("p3")
        g.emit("setenv CGNS_LINK_PATH %s" % hx(g.P("p2")), "ok"); g.w.env["CGNS_LINK_PATH"] = g.P("p2")
        for v in (g.P("nodir") + b":" + g.P("p3"), g.P("m/sub")):
            g.emit("pathadd %s" % hx(v), "ok"); g.w.plist.append(v)
        # a second name: a file of the OTHER back end in the parent's directory and a non-CGNS file in the current
        # directory are passed over; the right one sits on the path list
        g.emit("file 9 %s %s w" % (hx(g.P("m/u.cgns")), other), "ok"); g.emit("closef 9", "ok"); g.w.decoys[g.P("m/u.cgns")] = other
        g.emit("junk %s" % hx(b"u.cgns"), "ok"); g.w.decoys[b"u.cgns"] = "junk"
        U = g.add_file("p3", b"u.cgns"); g.x_open(U, "w"); g.x_create(U, 0, b"X", b"the right type"); g.x_close(U)
        g.x_open(A, "w"); L = g.x_link(A, 0, b"L", b"t.cgns", b"/X"); LU = g.x_link(A, 0, b"LU", b"u.cgns", b"/X"); g.x_close(A)
        g.x_open(A, "r"); g.x_read(A, LU, hint={"hdf5": K_H5PATH}); g.x_close(A)
        for f in tf + [None]:
            g.x_open(A, "r"); g.x_read(A, L, hint={"hdf5": K_H5PATH}); g.x_close(A)
            if f is not None:
                g.emit("unlinkf %s" % hx(f.path), "ok"); f.exists = False
    elif name == "sep":
        # C08_link_query_refuted: a file name that contains the payload separator
        B = g.add_file("m", b"x>y.cgns")
        g.x_open(B, "w"); g.x_create(B, 0, b"T", b"LabelT"); g.x_close(B)
        g.x_open(A, "w"); L = g.x_link(A, 0, b"L", b"x>y.cgns", b"/T")
        g.x_lnk(A, L, hint={"adf": K_SEP}); g.x_read(A, L, hint={"adf": K_SEP}); g.x_close(A)
    else:
        raise ValueError(name)
    return g


SCENARIOS = ["stale", "nest", "nest2", "mutual", "close9", "userheld", "errbudget", "underlink", "pathhist", "pathhist2", "chain5", "chain100", "chain101", "cycle", "via", "dangling",
             "retarget", "search", "sep"]


# ============================================================================ mid-level tier (harness/c08_mll.c)
import struct


def mll_val(seed, z, c, i):
    return float(((seed * 2654435761 + z * 40503 + c * 977 + i * 31) & 0xFFFFFFFF) % 100003) / 7.0


def mll_coords_line(seed, z):
    out = "ok C:3"
    for c, nm in enumerate(("CoordinateX", "CoordinateY", "CoordinateZ")):
        out += ":%s/4=" % nm + b"".join(struct.pack("<d", mll_val(seed, z, c, i)) for i in range(27)).hex()
    return out


def mll_sol_line(seed, z):
    return "ok S:1:Sol/2/1,Density=" + b"".join(struct.pack("<d", mll_val(seed, z, 7, i)) for i in range(27)).hex()


class MllCase:
    def __init__(self, name, be, root):
        self.name, self.be, self.root = name, be, root
        self.lines, self.expect, self.hint = ["ftype %s" % be], ["ok"], [None]

    def P(self, s):
        return (self.root + "/" + s).encode()

    def add(self, line, expect="ok", hint=None):
        self.lines.append(line); self.expect.append(expect); self.hint.append(hint)
        return len(self.lines) - 1


def mll_cases(rng, be, root):
    """scripts + expected lines; the expectations come from the generator's own arithmetic (what mkfile wrote) and from
    direct reads of the target file in the same session -- never from the Coq model"""
    cases = []
    sb, sa = rng.randint(1, 10 ** 6), rng.randint(1, 10 ** 6)
    GC, SOL = b"/Base/Zone1/GridCoordinates", b"/Base/Zone1/Sol"
    chain_hint = None                                  # fff8c32: ADFH follows chains

    def basic(name, bloc, fname, config=(), hint=None, readback=True):
        c = MllCase(name, be, root)
        bpath = c.P(bloc + "/b.cgns") if bloc != "cwd" else b"b.cgns"
        apath = c.P("m/a.cgns")
        for nme in ("ADF_LINK_PATH", "HDF5_LINK_PATH", "CGNS_LINK_PATH"):
            c.add("setenv %s -" % nme)
        c.add("setpath -")
        c.add("mkfile %s 2 %d 1 1" % (hx(bpath), sb))
        c.add("mkfile %s 1 %d 0 0" % (hx(apath), sa))
        c.add("open 0 %s m" % hx(apath))
        c.add("linkw 0 %s %s %s %s" % (hx(b"/Base/Zone1"), hx(b"GridCoordinates"), hx(fname), hx(b"/Base/Zone2/GridCoordinates")))
        c.add("linkw 0 %s %s %s %s" % (hx(b"/Base/Zone1"), hx(b"Sol"), hx(fname), hx(SOL)))
        c.add("linkw 0 %s %s %s %s" % (hx(b"/Base"), hx(b"ZoneL"), hx(fname), hx(b"/Base/Zone2")))
        c.add("close 0")
        for op in config:
            c.add(op)
        if not readback:
            return c
        c.add("open 0 %s r" % hx(apath), hint=hint)
        c.add("islink 0 %s" % hx(GC), "ok 1", hint)
        c.add("linkr 0 %s" % hx(GC), "ok L:%s:%s" % (hx(fname), hx(b"/Base/Zone2/GridCoordinates")), hint)
        c.add("islink 0 %s" % hx(b"/Base/Zone1"), "ok 0", hint)
        c.add("islink 0 %s" % hx(b"/Base/ZoneL"), "ok 1", hint)
        c.add("coords 0 1 1", mll_coords_line(sb, 2), hint)
        c.add("sol 0 1 1", mll_sol_line(sb, 1), hint)
        c.add("nzones 0 1", "ok 2", hint)
        c.add("zone 0 1 2", "ok Z:%s:2:3:3:3:2:2:2:0:0:0" % hx(b"ZoneL"), hint)
        c.add("coords 0 1 2", mll_coords_line(sb, 2), hint)
        c.add("sol 0 1 2", mll_sol_line(sb, 2), hint)
        i = c.add("open 1 %s r" % hx(bpath))
        c.add("coords 1 1 2", mll_coords_line(sb, 2))              # the target read directly, same session
        c.add("sol 1 1 1", mll_sol_line(sb, 1))
        c.add("close 1"); c.add("close 0")
        return c

    cases.append(basic("same-dir-relative", "m", b"b.cgns"))
    cases.append(basic("absolute", "p2", (root + "/p2/b.cgns").encode()))
    cases.append(basic("cwd", "cwd", b"b.cgns"))
    p1, p2, p3 = (root + "/p1").encode(), (root + "/p2").encode(), (root + "/p3").encode()
    h5p = {"hdf5": K_H5PATH}
    cases.append(basic("cg_set_path", "p1", b"b.cgns", ["setpath %s" % hx(p2 + b":" + p1)], h5p))
    cases.append(basic("cg_add_path", "p1", b"b.cgns", ["setpath %s" % hx(p2), "addpath %s" % hx(p1)], h5p))
    cases.append(basic("cg_add_path-keeps-earlier", "p1", b"b.cgns", ["setpath %s" % hx(p1), "addpath %s" % hx(p2)], h5p))
    cases.append(basic("cg_configure-set", "p1", b"b.cgns", ["cfgset %s" % hx(p1)], h5p))
    cases.append(basic("cg_configure-add", "p1", b"b.cgns", ["cfgset %s" % hx(p3), "cfgadd %s" % hx(p1)], h5p))
    cases.append(basic("cg_configure-add-keeps-earlier", "p1", b"b.cgns", ["cfgset %s" % hx(p1), "cfgadd %s" % hx(p3)],
                       h5p))                           # bf287b5: ADD_PATH adds
    cases.append(basic("env-CGNS_LINK_PATH", "p1", b"b.cgns", ["setenv CGNS_LINK_PATH %s" % hx(p3 + b":" + p1)], h5p))
    cases.append(basic("env-type-LINK_PATH", "p1", b"b.cgns", ["setenv %s %s" % (ENVNAME[be], hx(p1))], h5p))

    # link to a link across files: C -> A -> B
    c = basic("chain", "m", b"b.cgns")
    cpath = c.P("m/c.cgns")
    c.add("mkfile %s 1 %d 0 0" % (hx(cpath), sa + 1))
    c.add("open 2 %s m" % hx(cpath))
    c.add("linkw 2 %s %s %s %s" % (hx(b"/Base/Zone1"), hx(b"GridCoordinates"), hx(b"a.cgns"), hx(GC)))
    c.add("linkw 2 %s %s %s %s" % (hx(b"/Base"), hx(b"ZoneLL"), hx(b"a.cgns"), hx(b"/Base/ZoneL")))
    c.add("close 2")
    c.add("open 2 %s r" % hx(cpath), hint=chain_hint)
    c.add("coords 2 1 1", mll_coords_line(sb, 2), chain_hint)
    c.add("zone 2 1 2", "ok Z:%s:2:3:3:3:2:2:2:0:0:0" % hx(b"ZoneLL"), chain_hint)
    c.add("coords 2 1 2", mll_coords_line(sb, 2), chain_hint)
    c.add("close 2")
    cases.append(c)

    # non-owning: delete the link, re-create it with another target; the old target is read directly before and after
    c = basic("delete-retarget", "m", b"b.cgns", readback=False)
    apath, bpath = c.P("m/a.cgns"), c.P("m/b.cgns")
    c.add("open 0 %s m" % hx(apath))
    c.add("delnode 0 %s %s" % (hx(b"/Base/Zone1"), hx(b"GridCoordinates")))
    c.add("delnode 0 %s %s" % (hx(b"/Base"), hx(b"ZoneL")))
    c.add("linkw 0 %s %s %s %s" % (hx(b"/Base/Zone1"), hx(b"GridCoordinates"), hx(b"b.cgns"), hx(GC)))
    c.add("close 0")
    c.add("open 1 %s r" % hx(bpath))
    c.add("nzones 1 1", "ok 2")
    c.add("coords 1 1 2", mll_coords_line(sb, 2)); c.add("sol 1 1 2", mll_sol_line(sb, 2)); c.add("coords 1 1 1", mll_coords_line(sb, 1))
    c.add("open 0 %s r" % hx(apath))
    c.add("nzones 0 1", "ok 1")
    c.add("coords 0 1 1", mll_coords_line(sb, 1))
    c.add("close 0"); c.add("close 1")
    cases.append(c)

    # the everyday sequence: read through the link, close, come back to modify the linking file, read again
    c = basic("read-then-modify", "m", b"b.cgns")
    leak = {"hdf5": K_H5LEAK}
    c.add("open 0 %s m" % hx(c.P("m/a.cgns")), hint=leak)
    c.add("coords 0 1 1", mll_coords_line(sb, 2), leak)
    c.add("close 0", hint=leak)
    cases.append(c)

    # dangling: the file, then the node, is missing -- opening / reading must fail cleanly, nothing may crash or hang
    for kind in ("file", "node"):
        c = MllCase("dangling-" + kind, be, root)
        apath, bpath = c.P("m/a.cgns"), c.P("m/b.cgns")
        c.add("setpath -")
        c.add("mkfile %s 2 %d 1 1" % (hx(bpath), sb))
        c.add("mkfile %s 1 %d 0 0" % (hx(apath), sa))
        c.add("open 0 %s m" % hx(apath))
        c.add("linkw 0 %s %s %s %s" % (hx(b"/Base/Zone1"), hx(b"GridCoordinates"),
                                       hx(b"nothere.cgns" if kind == "file" else b"b.cgns"), hx(b"/Base/Zone2/Nothing" if kind == "node" else GC)))
        c.add("close 0")
        c.add("open 0 %s r" % hx(apath), ("clean", ))               # either outcome, but a status and no crash
        c.add("coords 0 1 1", ("clean", ))
        c.add("open 1 %s r" % hx(bpath))
        c.add("coords 1 1 2", mll_coords_line(sb, 2))
        cases.append(c)
    return cases


def mll_path_histories(rng, be, root):
    """search-path HISTORIES through the mid-level API and real cg_open: b.cgns exists in p1, p2, p3 with different
    coordinates and nowhere else; after every setting the linking file is opened afresh and the coordinates read through
    the link tell which file was reached (expected: the documented semantics applied to the history, World.path_op)"""
    cases = []
    for variant in ("fixed", "random"):
        c = MllCase("path-history-" + variant, be, root)
        seeds = {"p1": rng.randint(1, 10 ** 6), "p2": rng.randint(1, 10 ** 6), "p3": rng.randint(1, 10 ** 6)}
        P = {k: c.P(k) for k in seeds}
        w = World(be)
        for k, sd in seeds.items():
            c.add("mkfile %s 1 %d 1 1" % (hx(P[k] + b"/b.cgns"), sd))
            f = FileM(len(w.files) + 1, P[k] + b"/b.cgns", be); f.exists = True; f.seed = sd; w.files[f.fid] = f
        apath = c.P("m/a.cgns")
        for nme in ("ADF_LINK_PATH", "HDF5_LINK_PATH", "CGNS_LINK_PATH"):
            c.add("setenv %s -" % nme)
        c.add("setpath -")
        c.add("mkfile %s 1 7 0 0" % hx(apath))
        c.add("open 0 %s m" % hx(apath))
        c.add("linkw 0 %s %s %s %s" % (hx(b"/Base/Zone1"), hx(b"GridCoordinates"), hx(b"b.cgns"), hx(b"/Base/Zone1/GridCoordinates")))
        c.add("close 0")
        h5p = {"hdf5": K_H5PATH}

        def look():
            hit = None
            for lit, rule in documented_candidates(w, apath, b"b.cgns"):
                if w.exists_as(lit, be):
                    hit = w.by_path(lit); break
            c.add("open 0 %s r" % hx(apath), ("clean",))
            if hit is None:
                c.add("coords 0 1 1", ("nodata",))
            else:
                c.add("coords 0 1 1", mll_coords_line(hit.seed, 1), h5p)
            c.add("close 0", ("clean",))

        def setter(op, arg):
            c.add("%s %s" % (op, "NULL" if arg is None else hx(arg)), "ok" if w.path_op(op, arg) == "ok" else "err cg"); look()

        def env(nm, val):
            c.add("setenv %s %s" % (nm, hx(val))); w.env[nm] = val; look()
        if variant == "fixed":
            look()
            for op, arg in (("setpath", P["p1"]), ("setpath", b""), ("setpath", P["p2"]), ("cfgset", None), ("setpath", P["p1"]),
                            ("addpath", P["p2"]), ("setpath", None), ("addpath", P["p2"]), ("cfgset", P["p3"]), ("cfgset", b""),
                            ("cfgadd", P["p1"]), ("cfgadd", b""), ("setpath", b""), ("cfgadd", P["p3"])):
                setter(op, arg)
            env("CGNS_LINK_PATH", P["p2"]); setter("setpath", b""); env("CGNS_LINK_PATH", b""); env(ENVNAME[be], P["p1"])
            setter("addpath", P["p3"]); env(ENVNAME[be], b""); setter("setpath", None)
        else:
            for _ in range(12):
                if rng.random() < 0.2:
                    env(rng.choice(["CGNS_LINK_PATH", ENVNAME[be]]), rng.choice([b"", P["p1"], P["p2"], P["p3"] + b":" + P["p1"]]))
                else:
                    a = rng.random()
                    setter(rng.choice(["setpath", "addpath", "cfgset", "cfgadd"]),
                           None if a < 0.15 else b"" if a < 0.3 else rng.choice([P["p1"], P["p2"], P["p3"], c.P("nodir") + b":" + P["p2"]]))
        cases.append(c)
    return cases


def run_mll(exe, case):
    prepare_dirs(case.root)
    for k in ("ADF_LINK_PATH", "HDF5_LINK_PATH", "CGNS_LINK_PATH", "HDF5_EXT_PREFIX"):
        os.environ.pop(k, None)
    il, outcome, stack = vlib.run_impl(exe, "\n".join(case.lines) + "\n", timeout=120, cwd=os.path.join(case.root, "cwd"), want_stack=True)
    il = [BADID.sub("", l) for l in il]
    fails = []
    for i, exp in enumerate(case.expect):
        got = il[i] if i < len(il) else None
        if got is None:
            fails.append((i, dict(op=nodedb.short(case.lines[i], 200), outcome=outcome, stack=stack), None))
            break
        if isinstance(exp, tuple):
            if not (got.startswith("ok") or got.startswith("err")):
                fails.append((i, dict(op=nodedb.short(case.lines[i], 200), got=got), None))
            elif exp[0] == "nodata" and got.startswith("ok C:") and not got.startswith("ok C:0"):
                fails.append((i, dict(op=nodedb.short(case.lines[i], 200), expected="no file on the search path: an error or no coordinates",
                                      got=nodedb.short(got, 120), oracle="the documented search order over the current path list"),
                              (case.hint[i] or {}).get(case.be)))
            continue
        if got != exp:
            key = (case.hint[i] or {}).get(case.be)
            fails.append((i, dict(op=nodedb.short(case.lines[i], 200), expected=nodedb.short(exp, 200), got=nodedb.short(got, 200),
                                  oracle="what mkfile wrote into the target / direct read of the target"), key))
            if exp == "ok":
                break
    if outcome != "ok" and not fails:
        fails.append((len(il), dict(outcome=outcome, stack=stack), None))
    return fails, il, outcome


# ============================================================================ expectations from a script alone
def unwritten(f, u, deep):
    """a node dimensioned and never written: what a read returns is unspecified (ADF refuses, HDF5 gives fill values)"""
    for k in (f.subtree(u) if deep else [u]):
        n = f.nodes[k]
        if n["link"] is None and n["dt"] != "MT" and n["dims"] and n["data"] is None:
            return True
    return False


def expect_from_script(be, lines, impl_lines):
    """Rebuild the mirror by interpreting `lines` (a mutation is applied when the library accepted it) and compute the
    oracle's expectation for every read: used to shrink a failing history and to replay one -- no generator state, no
    Coq model."""
    w = World(be)
    expect, meta = [], []
    renamed = False
    foreign = set()
    def ok(i):
        return i < len(impl_lines) and impl_lines[i] == "ok"
    def B(h):
        return b"" if h == "-" else bytes.fromhex(h)
    for i, l in enumerate(lines):
        t = l.split(" ")
        e, m = None, None
        try:
            op = t[0]
            if op == "setenv":
                w.env[t[1]] = B(t[2]) if t[1] in w.env else w.env.get(t[1], b""); e = "ok"
            elif op == "pathadd":
                w.plist.append(B(t[1])); e = "ok"
            elif op == "pathdel":
                w.plist = []; e = "ok"
            elif op in ("setpath", "addpath", "cfgset", "cfgadd"):
                e = w.path_op(op, None if t[1] == "NULL" else B(t[1]))
            elif op == "tryc":
                e = ("mustfail",)
            elif op == "junk":
                w.decoys[B(t[1])] = "junk"; e = "ok"
            elif op == "unlinkf":
                f = w.by_path(B(t[1]))
                if f is not None:
                    f.exists = False
                w.decoys.pop(B(t[1]), None); e = "ok"
            elif op == "file":
                k, lit, fbe, md = int(t[1]), B(t[2]), t[3], t[4]
                if fbe != be:
                    if md == "w":
                        w.decoys[lit] = fbe
                    foreign.add(k); e = "ok"
                else:
                    f = w.files.get(k)
                    if f is None or f.path != lit:
                        f = FileM(k, lit, be); w.files[k] = f
                    if ok(i):
                        f.mode = md
                        if md == "w":
                            f.reset(); f.exists = True
            elif op == "closef":
                k = int(t[1])
                if k in foreign:
                    foreign.discard(k); e = "ok"
                elif k in w.files:
                    m = dict(user_open=w.files[k].mode is not None)
                    e = "ok" if w.files[k].mode is not None else None
                    w.files[k].mode = None
            elif op in ("create", "link", "delete", "rename", "move", "label", "dims", "wall"):
                f = w.files.get(int(t[1]))
                if f is not None and f.mode is not None:
                    m = dict(user_open=True)
                if f is not None and ok(i):
                    if op == "create":
                        p, u = int(t[2]), int(t[3])
                        f.nodes[u] = dict(parent=p, name=B(t[4]), label=b"", dt="MT", dims=[], data=None, link=None); f.order.append(u)
                    elif op == "link":
                        p, u = int(t[2]), int(t[3])
                        f.nodes[u] = dict(parent=p, name=B(t[4]), label=b"", dt="LK", dims=[], data=None, link=(B(t[5]), B(t[6]))); f.order.append(u)
                    elif op == "delete":
                        for k in f.subtree(int(t[3])):
                            del f.nodes[k]; f.order.remove(k)
                    elif op == "rename":
                        u = int(t[3]); f.nodes[u]["name"] = B(t[4]); renamed = True
                        if be == "hdf5":
                            f.order.remove(u); f.order.append(u)
                    elif op == "move":
                        u = int(t[3]); f.nodes[u]["parent"] = int(t[4]); f.order.remove(u); f.order.append(u)
                    elif op == "label":
                        f.nodes[int(t[2])]["label"] = B(t[3])
                    elif op == "dims":
                        f.nodes[int(t[2])].update(dt=t[3], dims=[int(x) for x in t[4].split(",")] if t[4] != "-" else [], data=None)
                    elif op == "wall":
                        f.nodes[int(t[2])]["data"] = B(t[3])
            elif op in ("rd", "lnk", "sub"):
                f = w.files.get(int(t[1])); u = int(t[2])
                if f is not None and f.mode is not None and u in f.nodes:
                    if op == "rd":
                        e, tr, tg = ideal_rd(w, f.fid, u, B(t[3]))
                        m = dict(kind="through", trace=tr, renamed=renamed, user_open=True)
                        if tg is not None and unwritten(w.by_path(tg[0]), tg[1], False):
                            e = None
                    elif op == "lnk":
                        n = f.nodes[u]
                        e = "ok L:0" if n["link"] is None else "ok L:1:%s:%s" % (hx(n["link"][0]), hx(n["link"][1]))
                        m = dict(kind="lnk", user_open=True)
                    else:
                        e = None if unwritten(f, u, True) else sub_line(f, u, be); m = dict(kind="dump", user_open=True)
        except (KeyError, ValueError, IndexError):
            e, m = None, None
        expect.append(e); meta.append(m)
    return expect, meta


# ============================================================================ corpus/C08: witnesses of the repaired defects
CORPUS = os.path.join(vlib.ROOT, "corpus", "C08")
STR_POS = {"cgio": {"file": [2], "create": [4], "rename": [4], "link": [4, 5, 6], "label": [3], "rd": [3], "pathadd": [1], "junk": [1], "tryc": [4],
                    "unlinkf": [1], "setenv": [2], "chdir": [1]},
           "mll": {"setenv": [2], "setpath": [1], "addpath": [1], "cfgset": [1], "cfgadd": [1], "mkfile": [1], "unlinkf": [1], "open": [2],
                   "linkw": [2, 3, 4, 5], "islink": [2], "linkr": [2], "delnode": [2, 3]}}


def _readable(line, kind, root):
    """hex string arguments -> s:<text> with the work directory replaced by @ROOT@ (corpus files are relocatable)"""
    t = line.split(" ")
    for k in STR_POS[kind].get(t[0], []):
        if k < len(t):
            b = b"" if t[k] == "-" else bytes.fromhex(t[k])
            txt = b.decode("latin-1").replace(root, "@ROOT@")
            t[k] = "s:" + "".join(c if (33 <= ord(c) <= 126 and c != "%") else "%%%02x" % ord(c) for c in txt)
    return " ".join(t)


def _encoded(line, kind, root):
    t = line.split(" ")
    for k in STR_POS[kind].get(t[0], []):
        if k < len(t) and t[k].startswith("s:"):
            txt = re.sub(r"%([0-9a-f]{2})", lambda m: chr(int(m.group(1), 16)), t[k][2:]).replace("@ROOT@", root)
            t[k] = hx(txt.encode("latin-1"))
    return " ".join(t)


CORPUS_CGIO = [(K_STALE, "stale", "adf"), (K_NEST, "nest", "adf"), (K_NEST, "nest2", "adf"), (K_CLOSE, "mutual", "adf"),
               (K_CLOSE9, "close9", "adf"), (K_H5CHAIN, "chain5", "hdf5"), (K_H5CHAIN, "cycle", "hdf5"), (K_H5CHAIN, "mutual", "hdf5"),
               (K_H5CHAIN, "close9", "hdf5"), (K_H5CREATE, "underlink", "hdf5")]
# a repaired defect whose witness failing again switches the model to the old transcription of that piece, so that the
# model keeps describing the library under test (the regression itself is reported under the original key)
CORPUS_SWITCH = {K_H5CREATE: "h5create-old"}


def write_corpus(root="/verif/.work/C08/w", only=None):
    """development aid (run by hand when a defect is repaired): freeze the directed witnesses into corpus/C08/*.json"""
    import random
    os.makedirs(CORPUS, exist_ok=True)
    for key, name, be in CORPUS_CGIO:
        if only is not None and key != only:
            continue
        g = scenario(name, random.Random(1), be, root)
        json.dump({"key": key, "kind": "cgio", "backend": be, "name": name,
                   "script": [_readable(l, "cgio", root) for l in g.lines]},
                  open(os.path.join(CORPUS, "%s.%s.%s.json" % (key, name, be)), "w"), indent=1)
    if only is not None:
        return
    for c in mll_cases(random.Random(7), "adf", root):
        if c.name == "cg_configure-add-keeps-earlier":
            json.dump({"key": K_CFGADD, "kind": "mll", "backend": "adf", "name": c.name,
                       "script": [_readable(l, "mll", root) for l in c.lines],
                       "expect": [list(e) if isinstance(e, tuple) else e for e in c.expect]},
                      open(os.path.join(CORPUS, "%s.%s.adf.json" % (K_CFGADD, c.name)), "w"), indent=1)
    for c in mll_cases(random.Random(7), "hdf5", root):
        if c.name == "chain":
            json.dump({"key": K_H5CHAIN, "kind": "mll", "backend": "hdf5", "name": c.name,
                       "script": [_readable(l, "mll", root) for l in c.lines],
                       "expect": [list(e) if isinstance(e, tuple) else e for e in c.expect]},
                      open(os.path.join(CORPUS, "%s.mll-%s.hdf5.json" % (K_H5CHAIN, c.name)), "w"), indent=1)


def run_corpus(R):
    """the regression inputs run first and must PASS; a failure re-fires under the original key (which is no longer listed
    as known, so it prints VIOLATION)"""
    ck = R.ck
    n = 0
    for fn in sorted(os.listdir(CORPUS)) if os.path.isdir(CORPUS) else []:
        if not fn.endswith(".json"):
            continue
        c = json.load(open(os.path.join(CORPUS, fn)))
        be, kind = c["backend"], c["kind"]
        lines = [_encoded(l, kind, R.root) for l in c["script"]]
        n += 1
        ck.case("corpus:" + fn)
        ck.cov["traces_validated_against_impl"] += 1
        if kind == "cgio":
            res = run_case(R.exe, be, lines, R.root)
            exp, meta = expect_from_script(be, lines, res["lines"])
            fails, div = judge(be, lines, exp, meta, res)
            if fails:
                i, desc, _ = fails[0]
                R.report(c["key"], dict(kind="cgio", backend=be, case="corpus:" + fn, script=lines[: i + 1], failure=desc, line=i,
                                        note="regression of a repaired defect"))
                sw = CORPUS_SWITCH.get(c["key"])
                if sw and sw not in MODEL_FLAGS:
                    MODEL_FLAGS.append(sw)
                    R.dist.setdefault("model_variant_switches", []).append(sw)
            elif div:
                R.div.append((be, None, "corpus:" + fn, div))
        else:
            case = MllCase(c["name"], be, R.root)
            case.lines = lines; case.expect = [unjson_expect(e) for e in c["expect"]]; case.hint = [None] * len(lines)
            fails, il, outcome = run_mll(R.mexe, case)
            if fails:
                i, desc, _ = fails[0]
                R.report(c["key"], dict(kind="mll", backend=be, case="corpus:" + fn, script=lines[: i + 1], expect=jsonable(case.expect),
                                        hint=[None] * len(lines), failure=desc, line=i, note="regression of a repaired defect"))
    return n


# ============================================================================ the check
def jsonable(x):
    if isinstance(x, (set, tuple, list)):
        return [jsonable(y) for y in (sorted(x) if isinstance(x, set) else x)]
    if isinstance(x, dict):
        return {k: jsonable(v) for k, v in x.items()}
    if isinstance(x, bytes):
        return x.hex()
    return x


def unjson_expect(e):
    return tuple(e) if isinstance(e, list) else e


def unjson_meta(m):
    if isinstance(m, dict) and isinstance(m.get("trace"), dict):
        m = dict(m); t = dict(m["trace"]); t["file_rule"] = set(t.get("file_rule", [])); m["trace"] = t
    return m


def nontrivial(g, res):
    """a history that really exercised the mechanism: a link into another file resolved, a link deleted or re-targeted,
    a target renamed / moved / deleted, and files closed and opened again"""
    ops = [l.split(" ")[0] for l in g.lines]
    cross = any((m or {}).get("kind") == "through" and (m["trace"]["file_rule"]) for m in g.meta)
    hashd = any((m or {}).get("kind", "").startswith("hash-after") for m in g.meta)
    return cross and hashd and ("rename" in ops or "move" in ops) and ops.count("closef") >= 2


class Runner:
    def __init__(self, ck, exe, mexe):
        self.ck, self.exe, self.mexe = ck, exe, mexe
        self.root = os.path.join(ck.work, "w")
        self.keys_seen = {}
        self.div = []
        self.unknown = []
        self.dist = {"cgio_histories": {"adf": 0, "hdf5": 0}, "directed": 0, "mll_cases": 0, "script_lines": 0, "ops": {},
                     "files": {}, "through_link_reads": 0, "ideal_ok": 0, "ideal_err": {}, "hops_max": 0,
                     "file_rules": {}}

    def account(self, g):
        d = self.dist
        d["script_lines"] += len(g.lines)
        for l in g.lines:
            o = l.split(" ")[0]; d["ops"][o] = d["ops"].get(o, 0) + 1
        for e, m in zip(g.expect, g.meta):
            if (m or {}).get("kind") == "through":
                d["through_link_reads"] += 1
                if isinstance(e, str):
                    d["ideal_ok"] += 1
                else:
                    d["ideal_err"][e[1]] = d["ideal_err"].get(e[1], 0) + 1
                d["hops_max"] = max(d["hops_max"], m["trace"]["hops"])
                for r in m["trace"]["file_rule"]:
                    d["file_rules"][r] = d["file_rules"].get(r, 0) + 1

    def report(self, key, replay):
        """one finding per key and run"""
        if key in self.keys_seen:
            self.keys_seen[key] += 1
            return
        self.keys_seen[key] = 1
        self.ck.finding(key, replay)

    def cgio_case(self, be, g, tag, shrink=True):
        ck = self.ck
        res = run_case(self.exe, be, g.lines, self.root)
        ck.cov["traces_validated_against_impl"] += 1
        self.account(g)
        if res["outcome"].startswith("asan:") and "H5G_name_replace" in res["stack"]:
            self.report(nodedb.LIBHDF5_KEY, {"backend": be, "outcome": res["outcome"], "stack": res["stack"], "case": tag})
            return res
        fails, div = judge(be, g.lines, g.expect, g.meta, res)
        for i, desc, key in fails:
            if key is not None:
                self.report(key, dict(kind="cgio", backend=be, case=tag, script=g.lines[: i + 1] if len(g.lines) < 400 else g.lines[: i + 1][-400:],
                                      script_full=g.lines if sum(map(len, g.lines)) < 300000 else None,
                                      expect=jsonable(g.expect), meta=jsonable(g.meta), failure=desc, line=i))
            else:
                self.unknown.append((be, g, tag, i, desc))
        if div and not [1 for _, _, k in fails if k is None]:
            # the model and the implementation part ways where the oracle has nothing to say (or agrees with the library)
            first_keyed = min([i for i, _, k in fails if k is not None] or [10 ** 9])
            if div["line"] <= first_keyed or True:
                self.div.append((be, g, tag, div))
        return res

    def unkeyed_failure(self, be, lines):
        """does this script (any sub-history) fail an oracle in a way no known defect class explains?"""
        res = run_case(self.exe, be, lines, self.root)
        exp, meta = expect_from_script(be, lines, res["lines"])
        fails, _ = judge(be, lines, exp, meta, res)
        bad = [(i, d) for i, d, k in fails if k is None and d.get("note") != "operation refused"]
        return bad[0] if bad else None

    def shrink_unknown(self, be, g, i0):
        lines = g.lines[: i0 + 1]
        if self.unkeyed_failure(be, lines) is None:
            return lines, None                                  # only the generator's before/after pairing sees it
        small = vlib.ddmin(lines, lambda ls: self.unkeyed_failure(be, ls) is not None, max_tests=120)
        return small, self.unkeyed_failure(be, small)


def run(ck):
    thorough = ck.tier == "thorough"
    vlib.build_impl()
    exe = vlib.build_harness("c08_cgio", ["c08_cgio.c"])
    mexe = vlib.build_harness("c08_mll", ["c08_mll.c"])
    res = vlib.coq_check_properties("C08")
    broken = ck.proof_result(res, CHECKER)
    vlib.build_modelrun("c08")
    forb = vlib.coq_forbidden_scan("C08")
    ck.extra["forbidden_tokens"] = forb
    if forb:
        ck.violation({"broken_obligation": "forbidden tokens", "hits": forb}, nofail=True)
    ck.cov["trusted_base"] = [
        "Coq 8.16.1 kernel + vm_compute", "extraction (ExtrOcamlBasic only), OCaml 4.13.1, ocaml/zutil.ml + eng_c08.ml (handle table, printing)",
        "harness/c08_cgio.c, harness/c08_mll.c (script interpreters, uid -> id bookkeeping, per-operation alarm)",
        "checks/C08.py: generator, its mirror of the trees and the ideal (fully transparent, cache-free) resolution used as oracle",
        "TreeDB.v as the meaning of a file's tree; libhdf5 as installed (its external-link file search is modelled, not verified)"]
    ck.assumptions = [
        "one process, one thread; a file is never opened explicitly while links have opened it implicitly (two ADF handles on one file)",
        "file names are literal strings: two spellings of one physical file are not used in one session; no '..' components",
        "writes THROUGH link ids and children created under a link node are out of scope (ADF redirects them to the target, ADFH refuses)",
        "HDF5 random histories do not store a link that names its own file by file name (libhdf5 keeps such a file open; reported by the mid-level tier as " + K_H5LEAK + ")",
        "the link-cache hit counter of DESIGN.md 2.3 does not exist (no hook in /repo); cache behaviour is tied through observable answers only"]
    ck.cov["rule"] = ("directed witnesses/boundaries (stale cache, path through own cycle, mutual file links, close order, chains of 5/100/101, cycles, "
                      "paths through links, dangling, re-target, every rule of the search order with wrong-type decoys, '>' in a file name) + seeded "
                      "histories over 1-3 files per back end (create / read through / rename / move / delete / re-create targets, delete / re-target "
                      "links with a direct dump of the target before and after, fill of sub-node tables across growth steps, explicit closes, "
                      "close-all + reopen of a subset so that files are reached only through links, search path reconfigured between sessions) "
                      "on ADF and HDF5, each compared line by line with the extracted Links.v and judged by the ideal resolution + direct reads; "
                      "mid-level tier: cg_link_write / cg_is_link / cg_link_read / coordinates, solutions and zones read through links vs the "
                      "values written into the target, for every way of setting the search path. non-trivial = a cross-file link resolved, a link "
                      "deleted or re-targeted with the before/after dump, a target renamed or moved, and at least two closes; distinct by SHA1")
    R = Runner(ck, exe, mexe)
    del MODEL_FLAGS[:]
    # ---- 0. regression corpus: the witnesses of the repaired defects
    R.dist["corpus_cases"] = run_corpus(R)
    # ---- 1. directed scenarios
    for name in SCENARIOS:
        for be in ("adf", "hdf5"):
            g = scenario(name, ck.rng, be, R.root)
            R.cgio_case(be, g, "directed:" + name)
            R.dist["directed"] += 1
            ck.case("directed:%s:%s" % (name, be), sample={"scenario": name, "backend": be, "ops": [nodedb.short(x, 90) for x in g.lines[5:12]] + ["..."]})
    # ---- 2. seeded histories
    n = 1000 if thorough else 55
    for i in range(n):
        for be in ("adf", "hdf5"):
            nf = ck.rng.choice([1, 2, 2, 3, 3])
            g = Gen(ck.rng, be, R.root, nf, nops=ck.rng.choice([25, 40, 60] if not thorough else [25, 40, 60, 120])).build()
            res = R.cgio_case(be, g, "seeded:%d" % i)
            R.dist["cgio_histories"][be] += 1
            R.dist["files"][str(nf)] = R.dist["files"].get(str(nf), 0) + 1
            ck.case(hashlib.sha1("\n".join(g.lines).encode()).hexdigest() if nontrivial(g, res) else None,
                    sample={"backend": be, "files": nf, "ops": [nodedb.short(x, 90) for x in g.lines[8:16]] + ["..."]})
        if len(R.unknown) >= 2:
            break
    # ---- 3. mid-level tier
    for be in ("adf", "hdf5"):
        for c in mll_cases(ck.rng, be, R.root) + mll_path_histories(ck.rng, be, R.root):
            fails, il, outcome = run_mll(mexe, c)
            ck.cov["traces_validated_against_impl"] += 1
            R.dist["mll_cases"] += 1
            ck.case("mll:%s:%s" % (c.name, be))
            unkeyed = 0
            for i, desc, key in fails:
                rep = dict(kind="mll", backend=be, case=c.name, script=c.lines[: i + 1], expect=jsonable(c.expect), hint=jsonable(c.hint),
                           failure=desc, line=i)
                if key is not None:
                    R.report(key, rep)
                elif unkeyed == 0:                       # one replay per case: the first line that fails
                    unkeyed += 1
                    ck.violation(dict(rep, oracle="values written into the target / direct read of the target / clean status"))
    # ---- 4. mid-level tier 2: opening a linking file (READ, MODIFY) and reading through it never changes the linked-to
    #         file, whatever library version wrote the files (the layouts cgi_read_* upgrades in MODIFY mode)
    R.dist["nonowning_cases"] = 0
    for be in ("adf", "hdf5"):
        todo = [(v, k, None) for v, k in AGING] + list(AGING_DEFECTS)
        for j, (ver, kinds, dkey) in enumerate(todo):
            fails, info = nonowning_case(mexe, be, R.root, ver, kinds, ck.rng.randint(1, 10 ** 6), relname=(j % 2 == 0), defect_key=dkey)
            ck.cov["traces_validated_against_impl"] += 3
            R.dist["nonowning_cases"] += 1
            ck.case("nonowning:%s:%s:%s" % (be, ver, "+".join(kinds)))
            for desc, key in fails[:1]:
                rep_ = dict(kind="nonowning", backend=be, version=ver, kinds=list(kinds), failure=desc, script=info.get("script"),
                            oracle="SHA-256 and complete cgio dump of the linked-to file before / after open + read + close of the linking file")
                if key is not None:
                    R.report(key, rep_)
                else:
                    ck.violation(rep_)
    # ---- verdicts for unkeyed oracle failures and for divergences
    for be, g, tag, i, desc in R.unknown[:2]:
        small, f2 = R.shrink_unknown(be, g, i)
        rep = dict(kind="cgio", backend=be, case=tag, failure=desc, line=i)
        if f2 is not None:
            rep.update(script=small, failure_on_shrunk_script=f2[1], line=f2[0], expectations="recomputed from the script (expect_from_script)")
        else:
            rep.update(script=small[-300:], script_full=small if sum(map(len, small)) < 300000 else None,
                       expect=jsonable(g.expect[: i + 1]), meta=jsonable(g.meta[: i + 1]))
        ck.violation(rep)
    if R.div and not ck.violations:
        # a broken correspondence is not a verdict: look for a failing input of the property around it
        found = False
        for be, g, tag, div in R.div[:2]:
            for k in range(30 if thorough else 12):
                g2 = Gen(ck.rng, be, R.root, (len(g.w.files) if g is not None else 0) or 2, nops=40).build()
                res = run_case(exe, be, g2.lines, R.root)
                fails, _ = judge(be, g2.lines, g2.expect, g2.meta, res)
                bad = [(i, d) for i, d, key in fails if key is None]
                if bad:
                    ck.violation(dict(kind="cgio", backend=be, case="widened search after divergence in " + tag, script=g2.lines[: bad[0][0] + 1][-300:],
                                      expect=jsonable(g2.expect[: bad[0][0] + 1]), meta=jsonable(g2.meta[: bad[0][0] + 1]), failure=bad[0][1], line=bad[0][0]))
                    found = True
                    break
            if found:
                break
        if not found:
            be, g, tag, div = R.div[0]
            ck.violation({"broken_correspondence": div, "backend": be, "case": tag, "script": (g.lines[: div["line"] + 1][-200:] if g is not None else None),
                          "note": "coq/Links.v and the library answer differently although every oracle (ideal resolution, direct reads, "
                                  "before/after dumps) is satisfied on everything explored"}, nofail=True)
    if broken and not ck.violations:
        ck.violation({"broken_obligations": broken, "note": "a theorem of Properties_C08.v no longer checks; no history explored fails an oracle"}, nofail=True)
    ck.extra["input_distribution"] = R.dist
    ck.extra["finding_hits"] = R.keys_seen
    ck.extra["model_impl_divergences"] = len(R.div)


def replay(ck, path):
    r = json.load(open(path))
    vlib.build_impl()
    root = os.path.join(ck.work, "w")
    if r.get("kind") == "nonowning":
        mexe = vlib.build_harness("c08_mll", ["c08_mll.c"])
        fails, info = nonowning_case(mexe, r["backend"], root, r["version"], tuple(r["kinds"]), r.get("seed", 1), True)
        print("replay: %s" % (json.dumps([f for f, _ in fails][:2])[:1500] if fails else "holds"))
        return 1 if fails else 0
    if r.get("kind") == "mll":
        mexe = vlib.build_harness("c08_mll", ["c08_mll.c"])
        c = MllCase(r["case"], r["backend"], root)
        c.lines = r["script"]; c.expect = [unjson_expect(e) for e in r["expect"]][: len(c.lines)]; c.hint = r["hint"][: len(c.lines)]
        # the scripts name absolute paths under the work directory of the original run; re-root them
        fails, il, outcome = run_mll(mexe, c)
        print("replay: %s" % (json.dumps([f[1] for f in fails][:2]) if fails else "holds"))
        return 1 if fails else 0
    script = r.get("script_full") or r.get("script")
    if not script:
        print("replay names a broken obligation / correspondence, no input to run"); return 1
    exe = vlib.build_harness("c08_cgio", ["c08_cgio.c"]); vlib.build_modelrun("c08")
    be = r["backend"]
    res = run_case(exe, be, script, root)
    n = len(script)
    if "expect" in r and "meta" in r:
        exp = [unjson_expect(e) for e in r["expect"]][:n]
        meta = [unjson_meta(m) for m in r["meta"]][:n]
        exp += [None] * (n - len(exp)); meta += [None] * (n - len(meta))
    else:
        exp, meta = expect_from_script(be, script, res["lines"])
    fails, div = judge(be, script, exp, meta, res)
    print("replay: outcome=%s failures=%s divergence=%s" % (res["outcome"], json.dumps([(i, d, k) for i, d, k in fails][:3]), json.dumps(div)))
    return 1 if fails else 0


# ============================================================================ mid-level tier 2: opening a linking file never changes the linked-to file
K_GC = "modify-open-adds-GridCoordinates-to-linked-zone"


def _i8(vals):
    return b"".join(struct.pack("<q", v) for v in vals).hex()


def _units(names):
    return b"".join(n.encode().ljust(32) for n in names).hex()


def aging_recipe(version, kinds):
    """cgio edits that give the rich target file the layout an older library wrote (what cgi_read_* upgrades in MODIFY mode)"""
    ops = []
    U = "/Base/ZoneU/"
    if "offsets" in kinds:          # < 4.0 and != 3.4: no ElementStartOffset; NGON_n / NFACE_n carry the counts inline
        ops.append("io.del %s" % hx((U + "Mixed/ElementStartOffset").encode()))
        if "nopoly" not in kinds:
            ngon = [1,2,3,4, 5,6,7,8, 1,2,6,5, 2,3,7,6, 3,4,8,7, 4,1,5,8]
            inline = []
            for k in range(6):
                inline += [4] + ngon[4 * k: 4 * k + 4]
            ops.append("io.set %s I8 30 %s" % (hx((U + "Ngon/ElementConnectivity").encode()), _i8(inline)))
            ops.append("io.del %s" % hx((U + "Ngon/ElementStartOffset").encode()))
            ops.append("io.set %s I8 7 %s" % (hx((U + "Nface/ElementConnectivity").encode()), _i8([6, 5, 6, 7, 8, 9, 10])))
            ops.append("io.del %s" % hx((U + "Nface/ElementStartOffset").encode()))
    if "nopoly" in kinds:           # < 3.0 knows no NGON_n / NFACE_n
        ops.append("io.del %s" % hx((U + "Ngon").encode()))
        ops.append("io.del %s" % hx((U + "Nface").encode()))
    if "renumber" in kinds:         # 3.0.x element numbering: PYRA_13 sat at 13, everything up to MIXED one higher
        ops.append("io.set %s I4 2 %s" % (hx((U + "Mixed").encode()), struct.pack("<ii", 21, 0).hex()))
        # (only element types up to PYRA_5 inside: for 3.0.x MIXED data with higher types the reader's pre-4.0 offset
        #  reconstruction re-reads the unconverted type tokens and overruns its buffer -- a reader defect outside C08,
        #  see notes/C08.md)
        ops.append("io.set %s I8 10 %s" % (hx((U + "Mixed/ElementConnectivity").encode()), _i8([10, 1, 2, 3, 5, 10, 2, 3, 4, 6])))
    if "parentdata" in kinds:       # one ParentData array instead of ParentElements + ParentElementsPosition
        ops.append("io.del %s" % hx((U + "Quads/ParentElements").encode()))
        ops.append("io.del %s" % hx((U + "Quads/ParentElementsPosition").encode()))
        ops.append("io.new %s %s %s I8 2,4 %s" % (hx((U + "Quads").encode()), hx(b"ParentData"), hx(b"DataArray_t"), _i8([1, 1, 0, 0, 1, 6, 0, 0])))
    if "celcius" in kinds:          # the old spelling of the temperature unit
        for q in (b"/Base/DimensionalUnits", b"/Base/ZoneU/DimensionalUnits"):
            ops.append("io.set %s C1 32,5 %s" % (hx(q), _units(["Kilogram", "Meter", "Second", "Celcius", "Degree"])))
    if "fbclabel" in kinds:         # pre 3.1.3: the data set of a FamilyBC_t carried the label BCDataSet_t
        ops.append("io.label %s %s" % (hx(b"/Base/Fam/FBC/FDS"), hx(b"BCDataSet_t")))
    if "nocoords" in kinds:         # a zone without GridCoordinates_t
        ops.append("io.del %s" % hx(b"/Base/ZoneS/GridCoordinates"))
    stamp = "io.set %s R4 1 %s" % (hx(b"/CGNSLibraryVersion"), struct.pack("<f", version).hex())
    return ops, stamp


K_UNITS = "modify-open-rewrites-directly-linked-units"
AGING = [(4.5, ()), (3.4, ("celcius",)), (3.3, ("offsets", "celcius")), (3.1, ("offsets", "parentdata", "fbclabel")),
         (3.0, ("offsets", "renumber")), (2.5, ("offsets", "nopoly", "parentdata", "fbclabel", "celcius")),
         (3.2, ("offsets", "parentdata", "celcius", "fbclabel"))]
# two situations in which the CURRENT library writes into the linked-to file (genuine defects, see notes/C08.md D11, D12)
AGING_DEFECTS = [(4.5, ("nocoords",), K_GC), (4.5, ("celcius", "unitslink"), K_UNITS)]


def sha256(path):
    return hashlib.sha256(open(path, "rb").read()).hexdigest() if os.path.exists(path) else None


def run_stage(mexe, root, lines):
    for k in ("ADF_LINK_PATH", "HDF5_LINK_PATH", "CGNS_LINK_PATH", "HDF5_EXT_PREFIX"):
        os.environ.pop(k, None)
    il, outcome, stack = vlib.run_impl(mexe, "\n".join(lines) + "\n", timeout=120, cwd=os.path.join(root, "cwd"), want_stack=True)
    return [BADID.sub("", l) for l in il], outcome, stack


def nonowning_case(mexe, be, root, version, kinds, seed, relname, defect_key=None):
    """build B (aged to `version`) and A (links into B), then open A in READ and in MODIFY mode, read broadly through the
    links, close; B's bytes (SHA-256) and its complete cgio dump must be the same before and after.
    -> (failures [(description, key)], info)"""
    prepare_dirs(root)
    A = (root + "/m/a.cgns").encode(); B = (root + "/m/b.cgns").encode()
    fname = b"b.cgns" if relname else B
    ops, stamp = aging_recipe(version, kinds)
    build = ["ftype %s" % be, "mkrich %s %d" % (hx(B), seed), "mklinks %s %s %d" % (hx(A), hx(fname), (0 if "nopoly" in kinds else 1) + (2 if "unitslink" in kinds else 0)),
             "io.open %s" % hx(B)] + ops + ([stamp] if version < 4.4 else []) + ["io.close"]
    if version < 4.4:
        build += ["io.open %s" % hx(A), stamp, "io.close"]
    build += ["io.dump %s" % hx(B)]
    fails = []
    il, outcome, stack = run_stage(mexe, root, build)
    if outcome != "ok" or len(il) != len(build) or any(l != "ok" for l in il[:-1]) or not il[-1].startswith("ok D:"):
        bad = next((i for i, l in enumerate(il) if not l.startswith("ok")), len(il))
        return [(dict(stage="build", op=build[min(bad, len(build) - 1)], got=il[bad] if bad < len(il) else None, outcome=outcome, stack=stack), None)], {}
    d0, s0 = il[-1], sha256(B.decode())
    digests = {}
    for mode in ("r", "m"):
        st = ["ftype %s" % be, "open 0 %s %s" % (hx(A), mode), "readall 0", "close 0", "io.dump %s" % hx(B)]
        il, outcome, stack = run_stage(mexe, root, st)
        desc = dict(stage="open %s + readall + close" % ("READ" if mode == "r" else "MODIFY"), version=version, kinds=list(kinds), backend=be)
        key = defect_key
        if outcome != "ok" or len(il) != len(st):
            fails.append((dict(desc, outcome=outcome, stack=stack, lines=il), None)); break
        if il[1] != "ok":
            fails.append((dict(desc, problem="the linking file does not open", got=il[1]), key)); break
        digests[mode] = il[2]
        if not il[2].startswith("ok A:") or not il[2].endswith(":0"):
            fails.append((dict(desc, problem="a read through the links failed", got=il[2]), None))
        if il[4] != d0:
            fails.append((dict(desc, problem="the cgio dump of the LINKED-TO file changed", before=nodedb.short(d0, 400), after=nodedb.short(il[4], 400),
                               first_difference=next((k for k in range(min(len(d0), len(il[4]))) if d0[k] != il[4][k]), None)), key))
        elif sha256(B.decode()) != s0:
            fails.append((dict(desc, problem="the bytes (SHA-256) of the LINKED-TO file changed although its cgio dump did not"), key))
    if not fails and digests.get("r") != digests.get("m"):
        fails.append((dict(problem="READ and MODIFY sessions read different things through the links", read=digests.get("r"), modify=digests.get("m"),
                           version=version, kinds=list(kinds), backend=be), None))
    script = build + ["# then, each in a fresh process: open 0 A r|m ; readall 0 ; close 0 ; io.dump B ; sha256(B)"]
    return fails, dict(script=script, digests=digests)
