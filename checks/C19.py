"""C19 -- ADF files in any supported numeric format read back the same values.

Proof side : coq/Properties_C19.v (AdfFormat.v = byte-list transcription of ADFI_convert_number_format, its leaf
             converters, ADFI_evaluate_datatype, machine_sizes, ADFI_figure_machine_format,
             ADFI_file_and_machine_compare, ADFI_fill_initial_file_header, the header bytes 100..129,
             ADF_Database_Get_Format and the chunk loops of ADFI_read/write_data_translated).
Tie        : correspondence, two levels --
   unit level : harness/c19_unit.c #includes /repo/src/adf/ADF_internals.c and calls the converters, the chunk
                loops (on a scratch file, with ADF_this_machine_format set to any of B/L x 32/64, so a
                big-endian host is exercised too), figure_machine_format, fill_initial_file_header and dumps
                machine_sizes; the extracted model runs the same script;
   API level  : harness/c19_api.c (linked with the fresh libcgns.a) creates files in the six formats through
                ADF_Database_Open, writes / reads full, block and strided, re-opens, patches the header of a
                fresh file to sizeof(long)=4, reads through cgio; the extracted model replays the same script.
Oracle (independent of the model; the property-level verdict): bit-exact round trip of every transfer against a
Python array of the element bit patterns, reported format name == requested name, raw inspection of the closed
file (the expected big/little-endian packing of the data must occur in the file), U8 data in long=4 files must be
refused, never delivered differently.
"""
import hashlib, json, os, resource, struct
import vlib

CHECKER = "make -C coq AdfFormatProofs.vo (coqc 8.16.1 kernel) ; coqc Properties_C19.v (Print Assumptions)"
TYPES = {"C1": 1, "B1": 1, "I4": 4, "U4": 4, "I8": 8, "U8": 8, "R4": 4, "R8": 8, "X4": 8, "X8": 16}
FORMATS = ["IEEE_BIG_32", "IEEE_BIG_64", "IEEE_LITTLE_32", "IEEE_LITTLE_64", "NATIVE", "LEGACY"]
HOST = "IEEE_LITTLE_64"      # checked against sys.byteorder / pointer size in run()
BUF = 100000


# ------------------------------------------------------------------ values
def boundary_elems(ty, rng):
    """bit patterns (little-endian memory bytes of this host) at the boundaries of the type"""
    w = TYPES[ty]
    out = []
    if ty in ("I4", "I8", "U4", "U8", "C1", "B1"):
        bits = 8 * w
        for v in (0, 1, 2, 127, 128, 255, 256, (1 << (bits - 1)) - 1, 1 << (bits - 1), (1 << bits) - 1, (1 << bits) - 2,
                  0x0102030405060708 & ((1 << bits) - 1), 1 << (bits // 2), (1 << (bits // 2)) - 1):
            out.append((v & ((1 << bits) - 1)).to_bytes(w, "little"))
    else:
        cw = 4 if ty in ("R4", "X4") else 8
        pats4 = [0x00000000, 0x80000000, 0x00000001, 0x807fffff, 0x00800000, 0x7f7fffff, 0xff7fffff, 0x7f800000, 0xff800000,
                 0x7fc00000, 0x7f800001, 0xffc12345, 0x3f800000, 0xc0490fdb]
        pats8 = [0x0, 0x8000000000000000, 0x1, 0x800fffffffffffff, 0x0010000000000000, 0x7fefffffffffffff,
                 0xffefffffffffffff, 0x7ff0000000000000, 0xfff0000000000000, 0x7ff8000000000000, 0x7ff0000000000001,
                 0xfff8123456789abc, 0x3ff0000000000000, 0xc00921fb54442d18]
        pats = pats4 if cw == 4 else pats8
        if ty[0] == "R":
            out = [p.to_bytes(cw, "little") for p in pats]
        else:
            out = [pats[i].to_bytes(cw, "little") + pats[(i * 5 + 3) % len(pats)].to_bytes(cw, "little")
                   for i in range(len(pats))]
    return out


def rand_elems(ty, n, rng):
    w = TYPES[ty]
    b = boundary_elems(ty, rng)
    return [rng.choice(b) if rng.random() < 0.3 else bytes(rng.randrange(256) for _ in range(w)) for _ in range(n)]


def fast_elems(ty, n, rng):
    """large arrays: random bytes generated in one go"""
    w = TYPES[ty]
    blob = rng.getrandbits(8 * w * n).to_bytes(w * n, "little")
    return [blob[i * w:(i + 1) * w] for i in range(n)]


def file_image(fmt, ty, elems, strict_complex=False):
    """expected raw bytes of the data in a file of format fmt (oracle, from the meaning of big/little endian).
    Complex elements: the library reverses the whole element (documented layout, notes/C19.md); with
    strict_complex the IEEE layout (re, im) is produced instead."""
    big = resolve(fmt).startswith("IEEE_BIG")
    if not big:
        return b"".join(elems)
    if ty[0] == "X" and strict_complex:
        h = TYPES[ty] // 2
        return b"".join(e[:h][::-1] + e[h:][::-1] for e in elems)
    return b"".join(e[::-1] for e in elems)


def resolve(fmt):
    return HOST if fmt in ("NATIVE", "LEGACY") else fmt


# ------------------------------------------------------------------ unit level
def unit_script(rng, big):
    ops = ["sizes"]
    for f in FORMATS + ["NULL", "CRAY", "IEEE_BIG", "IEEE_LITTLE", "ieee_big_64", "Ieee_Little_32", "BOGUS", "IEEE_BIG_32X",
                        "I", "N", "L", "IEEE_LITTLE_6"]:
        ops.append("figure " + f)
    for f in "BLCNQ":
        for o in "BL":
            ops.append("header %s %s" % (f, o))
    letters = "BL"
    nconv = 700 if big else 220
    for _ in range(nconv):
        r = rng.random()
        ff, tf, fos, tos = (rng.choice(letters) for _ in range(4))
        if r < 0.08:
            ff = rng.choice("NQU")
        elif r < 0.16:
            tf = rng.choice("NQU")
        elif r < 0.2:
            fos = rng.choice("QN")
        ty = rng.choice(list(TYPES))
        w = TYPES[ty]
        fsz = msz = w
        d = rng.randrange(2)
        if ty in ("I8", "U8") and rng.random() < 0.45:
            fsz = 4
        elif rng.random() < 0.06:
            # unequal sizes for other types: every such combination must be an error (or a plain copy)
            if ty not in ("I8",):
                fsz = rng.choice([w * 2, max(1, w // 2)])
        ln = rng.choice([1, 1, 1, 2, 3])
        cnt = rng.choice([1, 1, 2, 3, 5])
        dfrom = fsz if d else msz
        data = b"".join(rand_elems(ty, 1, rng)[0][:dfrom].ljust(dfrom, b"\x5a") for _ in range(ln * cnt))
        ops.append("conv %s %s %s %s %d %s %d %d %d %d %s" % (ff, fos, tf, tos, d, ty, fsz, msz, ln, cnt, data.hex()))
    return ops


def chunk_cases(rng, big):
    """(machine, file, type, count) around the 100000-byte conversion buffer"""
    cases = []
    pairs = [("LB", "BL"), ("LB", "BB"), ("LB", "LL"), ("BL", "LB"), ("BB", "LL"), ("LL", "BB"), ("BL", "LL"), ("BB", "BL"),
             ("LB", "BL")]
    tys = list(TYPES)
    k = 0
    for ty in tys:
        w = TYPES[ty]
        c = BUF // w
        counts = [c - 1, c, c + 1, 2 * c, 2 * c + 1] if big else [rng.choice([c - 1, c]), c + 1, rng.choice([2 * c, 2 * c + 1])]
        if w in (1, 4) and not big:
            counts = counts[1:]
        for cnt in counts:
            m, f = pairs[k % len(pairs)]
            k += 1
            cases.append((m, f, ty, w, w, cnt))
        for cnt in (1, 2, rng.randint(3, 40)):
            m, f = rng.choice(pairs)
            cases.append((m, f, ty, w, w, cnt))
    # long = 4 files: I8 resized inside the chunk loop (file element 4 bytes, memory element 8 bytes)
    for m, f in (("LB", "BL"), ("LB", "LL"), ("BB", "LL"), ("BB", "BL")):
        for cnt in ([1, 7, 24999, 25000, 25001, 50001] if big else [3, 25000, 25001]):
            cases.append((m, f, "I8", 4, 8, cnt))
        cases.append((m, f, "U8", 4, 8, 5))
    return cases


def sext32(e8, machine_big):
    v = int.from_bytes(e8, "big" if machine_big else "little")
    lo = v & 0xffffffff
    if lo >= 1 << 31:
        lo |= 0xffffffff00000000
    return lo.to_bytes(8, "big" if machine_big else "little")


def chunk_oracle(case, elems, wt_line, rt_line):
    """property of the loops from the meaning of the formats alone: file image and round trip"""
    m, f, ty, fsz, msz, cnt = case
    mbig, fbig = m[0] == "B", f[0] == "B"
    if ty == "U8" and fsz != msz:
        ok = (not wt_line.startswith("wt err=-1 ")) and (not rt_line.startswith("rt err=-1 "))
        return ok, "U8 with a 4-byte file long must be refused"
    if fsz == msz:
        exp_file = b"".join(e if mbig == fbig else e[::-1] for e in elems)
        exp_back = b"".join(elems)
    else:
        low = [(e[4:] if mbig else e[:4]) for e in elems]
        exp_file = b"".join(x if mbig == fbig else x[::-1] for x in low)
        exp_back = b"".join(sext32(e, mbig) for e in elems)
    if wt_line != "wt err=-1 " + exp_file.hex():
        return False, "file image differs from the %s-endian packing" % ("big" if fbig else "little")
    if rt_line != "rt err=-1 " + exp_back.hex():
        return False, "read back differs from the data written"
    return True, None


def run_chunk_case(unit, scratch, case, elems):
    m, f, ty, fsz, msz, cnt = case
    data = b"".join(elems)
    l1 = "wt %s %s %s %s %s %d %d %d %s" % (m[0], m[1], f[0], f[1], ty, fsz, msz, cnt, data.hex())
    out1, oc1 = vlib.run_impl(unit, l1 + "\n", args=[scratch])
    wt = out1[0] if out1 else "?"
    fileimg = wt.split(" ", 2)[2] if wt.startswith("wt err=-1 ") else data[:0].hex() or "-"
    if not wt.startswith("wt err=-1 "):
        fileimg = (b"\x00" * (fsz * cnt)).hex()
    l2 = "rt %s %s %s %s %s %d %d %d %s" % (m[0], m[1], f[0], f[1], ty, fsz, msz, cnt, fileimg)
    out2, oc2 = vlib.run_impl(unit, l2 + "\n", args=[scratch])
    rt = out2[0] if out2 else "?"
    return [l1, l2], [wt, rt], (oc1, oc2)


# ------------------------------------------------------------------ API level
def api_case(rng, path, fmt, ty, n, elems, long4=False, via_cgio=False, grow=0, prior=()):
    """script + oracle expectations (list of (line index, expected line or predicate name)).
    prior = formats of files created (and closed again) earlier in the same process: what a file is must not depend on
    which files the process handled before it"""
    w = TYPES[ty]
    ops, exp = [], []

    def add(op, e):
        ops.append(op); exp.append(e)
    for k, pf in enumerate(prior):
        add("open %s.pre%d NEW %s" % (path, k, pf), "open err=-1")
        add("fmt", "fmt %s err=-1" % resolve(pf))
        add("close", "close err=-1")
    add("open %s NEW %s" % (path, fmt), "open err=-1")
    add("fmt", "fmt %s err=-1" % resolve(fmt))
    if long4:
        add("close", "close err=-1")
        add("patch %s 112 3034" % path, "patch ok")
        add("open %s OLD NULL" % path, "open err=-1")
        add("fmt", "fmt %s err=-1" % resolve(fmt))
    mem = list(elems)
    refused = long4 and ty == "U8"
    if grow and not refused and n >= 4:
        # a node that is written, enlarged and written again owns several data chunks (ADF appends a chunk instead
        # of moving the data): every later transfer runs through the multi-chunk branches
        sizes = sorted(set(max(1, n * k // (grow + 1)) for k in range(1, grow + 1)))
        add("node a %s %d" % (ty, sizes[0]), "node err=-1")
        add("wall a " + b"".join(elems[:sizes[0]]).hex(), "w err=-1")
        for m in sizes[1:] + [n]:
            if m > sizes[0]:
                add("redim a %s %d" % (ty, m), "node err=-1")
                if m < n:
                    add("wall a " + b"".join(elems[:m]).hex(), "w err=-1")
    else:
        add("node a %s %d" % (ty, n), "node err=-1")
    if refused:
        add("wall a " + b"".join(mem).hex(), "REFUSED")
        add("rall a %d" % (w * n), "REFUSED")
        add("close", "close err=-1")
        return ops, exp, None
    if long4 and ty == "I8":
        mem = [sext32(e, False) for e in mem]          # only the low 32 bits are representable in this file
    add("wall a " + b"".join(elems).hex(), "w err=-1")
    add("rall a %d" % (w * n), "r err=-1 " + b"".join(mem).hex())
    if n >= 2:
        b0 = rng.randint(1, n); b1 = rng.randint(b0, n)
        new = rand_elems(ty, b1 - b0 + 1, rng)
        if long4 and ty == "I8":
            new = [sext32(e, False) for e in new]
        mem[b0 - 1:b1] = new
        add("wblk a %d %d %s" % (b0, b1, b"".join(new).hex()), "w err=-1")
        c0 = rng.randint(1, n); c1 = rng.randint(c0, n)
        add("rblk a %d %d %d" % (c0, c1, w * (c1 - c0 + 1)), "r err=-1 " + b"".join(mem[c0 - 1:c1]).hex())
        # strided write: file elements s0, s0+ss, ... <- memory elements m0, m0+ms, ...
        ss = rng.randint(1, 3); s0 = rng.randint(1, n); cnt = rng.randint(1, min(40, (n - s0) // ss + 1))
        s1 = s0 + (cnt - 1) * ss
        ms = rng.randint(1, 3); m0 = rng.randint(1, 3); m1 = m0 + (cnt - 1) * ms; mn = m1 + rng.randint(0, 2)
        src = rand_elems(ty, mn, rng)
        if long4 and ty == "I8":
            src = [sext32(e, False) for e in src]
        for k in range(cnt):
            mem[s0 - 1 + k * ss] = src[m0 - 1 + k * ms]
        add("wstr a %d %d %d %d %d %d %d %s" % (s0, s1, ss, mn, m0, m1, ms, b"".join(src).hex()), "w err=-1")
        # strided read into a buffer pre-filled with a5
        ss = rng.randint(1, 3); s0 = rng.randint(1, n); cnt = rng.randint(1, min(40, (n - s0) // ss + 1))
        s1 = s0 + (cnt - 1) * ss
        ms = rng.randint(1, 3); m0 = rng.randint(1, 3); m1 = m0 + (cnt - 1) * ms; mn = m1 + rng.randint(0, 2)
        buf = [b"\xa5" * w for _ in range(mn)]
        for k in range(cnt):
            buf[m0 - 1 + k * ms] = mem[s0 - 1 + k * ss]
        add("rstr a %d %d %d %d %d %d %d %d" % (s0, s1, ss, mn, m0, m1, ms, w * mn), "r err=-1 " + b"".join(buf).hex())
    add("rall a %d" % (w * n), "r err=-1 " + b"".join(mem).hex())
    add("close", "close err=-1")
    if via_cgio:
        add("cgopen %s r" % path, "cgopen err=-1")
        add("cgread a %s %d" % (ty, w * n), "r err=-1 " + b"".join(mem).hex())
        add("cgclose", "cgclose err=-1")
    else:
        add("open %s OLD NULL" % path, "open err=-1")
        add("fmt", "fmt %s err=-1" % resolve(fmt))
        add("rall a %d" % (w * n), "r err=-1 " + b"".join(mem).hex())
        add("close", "close err=-1")
    return ops, exp, mem


def api_oracle(ops, exp, lines):
    for i, e in enumerate(exp):
        got = lines[i] if i < len(lines) else None
        if e == "REFUSED":
            if got is None or " err=-1" in got:
                return {"op_index": i, "op": ops[i][:200], "expected": "an error (U8 in a long=4 file cannot be honoured)",
                        "observed": (got or "")[:200]}
        elif got != e:
            j = next((k for k in range(min(len(got or ""), len(e))) if got[k] != e[k]), min(len(got or ""), len(e)))
            return {"op_index": i, "op": ops[i][:200], "expected": e[max(0, j - 24):j + 40], "observed": (got or "")[max(0, j - 24):j + 40],
                    "first_difference_at_char": j}
    return None


def raw_oracle(path, fmt, ty, mem, long4):
    """the closed file must contain the big/little-endian packing of the data (struct-level meaning of the format)"""
    blob = open(path, "rb").read()
    hdr_ok = blob[100:102] == {"IEEE_BIG_32": b"BL", "IEEE_BIG_64": b"BB", "IEEE_LITTLE_32": b"LL", "IEEE_LITTLE_64": b"LB"}[resolve(fmt)]
    if long4 and ty == "I8":
        big = resolve(fmt).startswith("IEEE_BIG")
        img = b"".join(struct.pack(">i" if big else "<i", struct.unpack("<q", e)[0]) for e in mem)
    else:
        img = file_image(fmt, ty, mem)
    return hdr_ok, blob.find(img) >= 0, (ty[0] == "X" and resolve(fmt).startswith("IEEE_BIG") and
                                          blob.find(file_image(fmt, ty, mem, strict_complex=True)) < 0 and
                                          file_image(fmt, ty, mem, True) != img)


# ------------------------------------------------------------------ the check
def shrink_api(api, path, fmt, ty, elems, long4, via, seedrng_state, prior=()):
    """smaller n with the same failure? (re-generates the transfer pattern; keeps the first failing size)"""
    import random
    for n in (1, 2, 3, 5, 8):
        if n >= len(elems):
            break
        rng = random.Random(12345)
        ops, exp, mem = api_case(rng, path, fmt, ty, n, elems[:n], long4, via, 0, prior)
        for q in [path] + ["%s.pre%d" % (path, k) for k in range(len(prior))]:
            if os.path.exists(q):
                os.unlink(q)
        lines, oc = vlib.run_impl(api, "\n".join(ops) + "\n")
        bad = api_oracle(ops, exp, lines)
        if bad or oc != "ok":
            return ops, bad or {"outcome": oc}
    return None, None


def run(ck):
    big = ck.tier == "thorough"
    try:
        resource.setrlimit(resource.RLIMIT_STACK, (resource.RLIM_INFINITY, resource.RLIM_INFINITY))
    except (ValueError, OSError):
        pass
    vlib.build_impl()
    unit = vlib.build_harness("c19_unit", ["c19_unit.c"], link_lib=False)
    api = vlib.build_harness("c19_api", ["c19_api.c"])
    vlib.build_modelrun("c19")
    res = vlib.coq_check_properties("C19")
    broken = ck.proof_result(res, CHECKER)
    forb_all = vlib.coq_forbidden_scan()
    mine = ("AdfFormat.v", "AdfFormatProofs.v", "Properties_C19.v", "Extract_c19.v", "ListX.v", "Fuel.v")
    forb = [h for h in forb_all if h.split(":")[0] in mine]          # the files C19's theorems depend on
    ck.extra["forbidden_tokens"] = forb
    ck.extra["forbidden_tokens_in_other_peoples_files"] = [h for h in forb_all if h not in forb]
    ck.cov["trusted_base"] = [
        "Coq 8.16.1 kernel + vm_compute (no native_compute); all 21 exported theorems print 'Closed under the global context'",
        "extraction: ExtrOcamlBasic only; OCaml 4.13.1; ocaml/zutil.ml, ocaml/eng_c19.ml (parsing, printing, node bookkeeping of the api engine)",
        "harness/c19_unit.c (#includes /repo/src/adf/ADF_internals.c), harness/c19_api.c, this generator and oracle",
        "hand transcription of the ADF converters / chunk loops / header functions, validated by the correspondence below",
    ]
    ck.assumptions = ["little-endian 64-bit host (machine_format_of this_host = ('L','B')); other hosts are exercised only at unit level "
                      "by setting ADF_this_machine_format", "CRAY conversions not modelled (outside C19's format list)",
                      "simple data types only (C1 B1 I4 U4 I8 U8 R4 R8 X4 X8); compound type strings are not modelled",
                      "header sizes other than long in {4,8} (hostile headers) are outside the theorems (ERR_SCOPE in the model)",
                      "X4/X8 are translated as one reversed unit (layout documented, same-host round trip proved); not judged by C19"]
    ck.cov["rule"] = ("unit level: seeded calls of ADFI_convert_number_format over format letters {B,L,N,Q,U}^4 x 10 types x equal / "
                      "long=4 / mismatched sizes x both directions; ADFI_write/read_data_translated on a scratch file for all types with "
                      "element counts around the 100000-byte buffer (c-1, c, c+1, 2c, 2c+1) under several machine/file format pairs; "
                      "API level: six formats x ten types x {full, block, strided} x re-open / cgio read, long=4 patched headers; values "
                      "= type boundaries, +-0, denormals, infinities, quiet/signalling NaN patterns, random. non-trivial = a case whose "
                      "file format differs from the machine format (bytes are actually translated) or that must be refused; distinct "
                      "by SHA1 of the script")
    if forb:
        ck.violation({"broken_obligation": "forbidden tokens in the Coq development", "hits": forb}, nofail=True)
    import sys
    assert sys.byteorder == "little" and struct.calcsize("P") == 8, "oracle assumes a little-endian 64-bit host"
    corr_broken = []
    dist = {"unit_ops": {}, "chunk_cases": 0, "chunk_bytes_max": 0, "api_cases": 0, "api_formats": {}, "api_types": {},
            "api_long4": 0, "api_large": 0, "complex_cross_endian_layout_observed": 0}
    scratch = os.path.join(ck.work, "unit_scratch.bin")

    # ---- unit level: converters, header functions, tables
    ops = unit_script(ck.rng, big)
    text = "\n".join(ops) + "\n"
    ml = vlib.run_model("c19", text, args=["unit"])
    il, outcome = vlib.run_impl(unit, text, args=[scratch])
    for o in ops:
        dist["unit_ops"][o.split()[0]] = dist["unit_ops"].get(o.split()[0], 0) + 1
    for i, o in enumerate(ops):
        t = o.split()
        nontriv = t[0] == "conv" and (t[1] != t[3] or t[2] != t[4])
        ck.case(hashlib.sha1(o.encode()).hexdigest() if nontriv else None,
                sample={"level": "unit", "op": o[:160], "impl": (il[i] if i < len(il) else "")[:120]} if i in (0, 3, 40) else None)
    ck.cov["traces_validated_against_impl"] += 1
    if outcome != "ok" or ml != il:
        d = vlib.first_divergence(ml, il)
        corr_broken.append({"level": "unit", "outcome": outcome, "op": ops[d[0]][:300] if d and d[0] < len(ops) else None,
                            "model": (d[1] or "")[:300] if d else None, "impl": (d[2] or "")[:300] if d else None})
    # oracle on the conv lines that are plain equal-width translations between known formats
    for i, o in enumerate(ops):
        t = o.split()
        if t[0] != "conv" or i >= len(il):
            continue
        ff, fos, tf, tos, d, ty, fsz, msz, ln, cnt, hx = t[1], t[2], t[3], t[4], int(t[5]), t[6], int(t[7]), int(t[8]), int(t[9]), int(t[10]), t[11]
        if not all(c in "BL" for c in (ff, fos, tf, tos)) or (ff == tf and fos == tos) or fsz != msz:
            if ty == "U8" and fsz != msz and all(c in "BL" for c in (ff, fos, tf, tos)) and not (ff == tf and fos == tos):
                if il[i].startswith("conv err=-1"):
                    ck.violation({"level": "unit", "op": o, "observed": il[i][:200], "oracle": "U8 with 4-byte file long must be refused",
                                  "replay_hint": "echo '<op>' | .build/h/c19_unit /tmp/s.bin"})
            continue
        data = bytes.fromhex(hx)
        el = [data[k * fsz:(k + 1) * fsz] for k in range(ln * cnt)]
        expd = b"".join(e if ff == tf else e[::-1] for e in el)
        if il[i] != "conv err=-1 " + expd.hex():
            ck.violation({"level": "unit", "op": o, "expected": "conv err=-1 " + expd.hex(), "observed": il[i][:400],
                          "oracle": "equal-width translation = per-element byte reversal iff the byte orders differ",
                          "replay_hint": "echo '<op>' | .build/h/c19_unit /tmp/s.bin"})
            break

    # ---- unit level: chunk loops around the buffer boundary
    if not ck.violations:
        for case in chunk_cases(ck.rng, big):
            m, f, ty, fsz, msz, cnt = case
            elems = fast_elems(ty, cnt, ck.rng) if cnt > 64 else rand_elems(ty, cnt, ck.rng)
            script, ilines, ocs = run_chunk_case(unit, scratch, case, elems)
            dist["chunk_cases"] += 1
            dist["chunk_bytes_max"] = max(dist["chunk_bytes_max"], cnt * max(fsz, msz))
            ck.case(hashlib.sha1(script[0].encode()).hexdigest(),
                    sample={"level": "chunk", "machine": m, "file": f, "type": ty, "file_size": fsz, "mem_size": msz, "count": cnt})
            ok, why = chunk_oracle(case, elems, ilines[0], ilines[1])
            if not ok or ocs != ("ok", "ok"):
                # shrink the element count
                small = case
                for c2 in sorted({1, 2, 3, cnt // 4, cnt // 2, BUF // fsz, BUF // fsz + 1}):
                    if 0 < c2 < cnt:
                        e2 = elems[:c2]
                        s2, il2, oc2 = run_chunk_case(unit, scratch, (m, f, ty, fsz, msz, c2), e2)
                        ok2, why2 = chunk_oracle((m, f, ty, fsz, msz, c2), e2, il2[0], il2[1])
                        if not ok2 or oc2 != ("ok", "ok"):
                            small, script, ilines, why, ocs = (m, f, ty, fsz, msz, c2), s2, il2, why2 or why, oc2
                            break
                ck.violation({"level": "chunk", "machine_format": small[0], "file_format": small[1], "type": ty, "file_size": fsz,
                              "mem_size": msz, "count": small[5], "why": why, "outcomes": list(ocs),
                              "script": script,
                              "observed": [l[:200] for l in ilines], "oracle": "file image = per-element packing; read(write(x)) = x",
                              "replay_hint": "printf '%s\\n' <script lines> | .build/h/c19_unit /tmp/s.bin"})
                break
            mlines = vlib.run_model("c19", "\n".join(script) + "\n", args=["unit"])
            ck.cov["traces_validated_against_impl"] += 1
            if mlines != ilines:
                d = vlib.first_divergence(mlines, ilines)
                corr_broken.append({"level": "chunk", "case": list(case), "line": d[0] if d else None,
                                    "model": (d[1] or "")[:160] if d else None, "impl": (d[2] or "")[:160] if d else None})

    # ---- API level
    def one_api(fmt, ty, n, long4=False, via=False, large=False, grow=0, prior=()):
        path = os.path.join(ck.work, "f_%s_%s_%d%s.adf" % (fmt, ty, n, "_l4" if long4 else ""))
        for q in [path] + ["%s.pre%d" % (path, k) for k in range(len(prior))]:
            if os.path.exists(q):
                os.unlink(q)
        dist["api_prior_files"] = dist.get("api_prior_files", 0) + len(prior)
        elems = fast_elems(ty, n, ck.rng) if large else rand_elems(ty, n, ck.rng)
        if not large:
            b = boundary_elems(ty, ck.rng)
            elems[:min(n, len(b))] = b[:n]
        ops, exp, mem = api_case(ck.rng, path, fmt, ty, n, elems, long4, via, grow, prior)
        dist["api_multichunk"] = dist.get("api_multichunk", 0) + (1 if grow and n >= 4 else 0)
        text = "\n".join(ops) + "\n"
        lines, oc = vlib.run_impl(api, text, timeout=300)
        dist["api_cases"] += 1
        dist["api_formats"][fmt] = dist["api_formats"].get(fmt, 0) + 1
        dist["api_types"][ty] = dist["api_types"].get(ty, 0) + 1
        dist["api_long4"] += 1 if long4 else 0
        dist["api_large"] += 1 if large else 0
        nontriv = resolve(fmt) != HOST or long4
        ck.case(hashlib.sha1(text.encode()).hexdigest() if nontriv else None,
                sample={"level": "api", "format": fmt, "type": ty, "n": n, "long4": long4, "script": [o[:90] for o in ops[:6]] + ["..."]})
        bad = api_oracle(ops, exp, lines)
        raw_bad = None
        if not bad and oc == "ok" and mem is not None and len(b"".join(mem)) >= 8 and not (grow and n >= 4):
            hdr_ok, found, cplx = raw_oracle(path, fmt, ty, mem, long4)
            if cplx:
                dist["complex_cross_endian_layout_observed"] += 1
            if not hdr_ok:
                raw_bad = "bytes 100..101 of the file are not the letters of " + resolve(fmt)
            elif not found:
                raw_bad = "the %s packing of the data does not occur in the file" % resolve(fmt)
        if bad or oc != "ok" or raw_bad:
            sops, sbad = shrink_api(api, path, fmt, ty, elems, long4, via, None, prior) if (bad or oc != "ok") else (None, None)
            ck.violation({"level": "api", "format": fmt, "type": ty, "n": n if not sops else None, "long4_header": long4,
                          "script": [o if len(o) < 3000 else o[:160] + "...(%d chars)" % len(o) for o in (sops or ops)],
                          "detail": sbad or bad or raw_bad, "outcome": oc,
                          "oracle": "bit-exact round trip (full/block/strided/re-open), reported format name, raw big/little-endian packing in the file",
                          "replay_hint": "printf '%s\\n' <script lines> | .build/h/c19_api"})
            return False
        mlines = vlib.run_model("c19", text, args=["api"])
        ck.cov["traces_validated_against_impl"] += 1
        if mlines != lines:
            d = vlib.first_divergence(mlines, lines)
            corr_broken.append({"level": "api", "format": fmt, "type": ty, "n": n, "long4": long4, "op": ops[d[0]][:120] if d and d[0] < len(ops) else None,
                                "model": (d[1] or "")[:160] if d else None, "impl": (d[2] or "")[:160] if d else None})
        for q in [path] + ["%s.pre%d" % (path, k) for k in range(len(prior))]:
            if os.path.exists(q):
                os.unlink(q)
        return True

    if not ck.violations:
        ok = True
        for fmt in FORMATS:
            for ty in TYPES:
                n = ck.rng.choice([1, 2, 3, 9, 17, 40]) if TYPES[ty] > 1 else ck.rng.choice([8, 9, 33, 100])
                ok = one_api(fmt, ty, max(n, 14 if big else n), via=(ck.rng.random() < 0.4))
                if not ok:
                    break
            if not ok:
                break
        # multi-chunk nodes (written, enlarged, written again) in every format: full, block and strided transfers
        # then run through the multi-chunk branches of ADF_Read_Data / ADF_Write_Data / *_Block_Data
        if ok:
            for fmt in FORMATS:
                tys = list(TYPES) if big else [ck.rng.choice(["I4", "R8", "I8", "X8", "C1", "R4"]), ck.rng.choice(["U4", "X4", "U8", "B1"])]
                for ty in tys:
                    ok = ok and one_api(fmt, ty, ck.rng.choice([12, 30, 61]), grow=ck.rng.choice([1, 2]), via=(ck.rng.random() < 0.3))
            for fmt in ("IEEE_BIG_32", "IEEE_LITTLE_32"):
                ok = ok and one_api(fmt, "I8", 20, long4=True, grow=2)
        # a file is what it was created as whatever the process created before it: every format after one and after two
        # earlier files of other formats
        if ok:
            for fmt in FORMATS:
                others = [f for f in FORMATS if f != fmt]
                for k in ((1, 2) if not big else (1, 2, 3)):
                    prior = [ck.rng.choice(others) for _ in range(k)]
                    ty = ck.rng.choice(list(TYPES))
                    ok = ok and one_api(fmt, ty, ck.rng.choice([3, 9, 20]), prior=prior, via=(ck.rng.random() < 0.3))
        # long = 4 foreign headers on the two 32-bit formats; a lower-case / prefix spelling of the names
        if ok:
            for fmt in ("IEEE_BIG_32", "IEEE_LITTLE_32"):
                for ty in ("I8", "U8", "I4", "R8", "X4"):
                    ok = ok and one_api(fmt, ty, ck.rng.choice([3, 10, 25]), long4=True)
        # large arrays through the public API around the buffer boundary
        if ok:
            larges = [("IEEE_BIG_32", "R8"), ("IEEE_BIG_64", "I4"), ("IEEE_BIG_32", "C1"), ("IEEE_BIG_64", "X8"), ("IEEE_LITTLE_32", "I8")]
            if not big:
                larges = [larges[ck.seed % len(larges)], larges[(ck.seed + 2) % len(larges)]]
            for fmt, ty in larges:
                c = BUF // TYPES[ty]
                for n in ([c - 1, c, c + 1, 2 * c + 1] if big else [ck.rng.choice([c, c + 1]), 2 * c + 1]):
                    ok = ok and one_api(fmt, ty, n, large=True, via=(n % 2 == 0))
                    if ty == "I8" and ok:
                        ok = one_api(fmt, ty, n, long4=True, large=True)

    # ---- something broke without a failing input so far: widen the search (DESIGN.md 1.3)
    if (corr_broken or broken) and not ck.violations:
        found = False
        for i in range(400 if big else 150):
            fmt = ck.rng.choice(FORMATS[:4]); ty = ck.rng.choice(list(TYPES))
            l4 = fmt.endswith("32") and ck.rng.random() < 0.3
            n = ck.rng.choice([1, 2, 5, 30, 200]) if i % 10 else (BUF // TYPES[ty]) + ck.rng.choice([0, 1])
            if not one_api(fmt, ty, n, long4=l4, large=n > 300):
                found = True
                break
        if not found:
            for case in chunk_cases(ck.rng, True):
                m, f, ty, fsz, msz, cnt = case
                elems = fast_elems(ty, cnt, ck.rng)
                script, ilines, ocs = run_chunk_case(unit, scratch, case, elems)
                ok2, why = chunk_oracle(case, elems, ilines[0], ilines[1])
                ck.cov["evaluations"] += 1
                if not ok2:
                    ck.violation({"level": "chunk", "case": list(case), "why": why, "observed": [l[:200] for l in ilines], "found_by": "widened search"})
                    found = True
                    break
        if not found:
            ck.violation({"broken_obligations": broken, "broken_correspondence": corr_broken[:3],
                          "note": "model and implementation differ (or an obligation no longer checks) but every transfer explored "
                                  "still satisfies the property's oracle (round trip, reported format, raw packing, refusal)"}, nofail=True)
    ck.extra["input_distribution"] = dist
    ck.extra["observations"] = ["X4/X8 in IEEE_BIG_* files are stored as the byte-reversed 8/16-byte element, i.e. (imaginary, real) "
                                "big-endian (%d cases seen this run); same-host round trip holds; see notes/C19.md" % dist["complex_cross_endian_layout_observed"]]
    if os.path.exists(scratch):
        os.unlink(scratch)


def replay(ck, path):
    r = json.load(open(path))
    vlib.build_impl()
    if r.get("level") in ("unit", "chunk"):
        unit = vlib.build_harness("c19_unit", ["c19_unit.c"], link_lib=False)
        script = r.get("script") or [r.get("op")]
        if any("..." in s for s in script):
            print("replay: the script was abbreviated (large seeded data); re-run ./check C19 with VERIF_SEED=%s" % r.get("seed")); return 1
        lines, oc = vlib.run_impl(unit, "\n".join(script) + "\n", args=[os.path.join(ck.work, "replay.bin")])
        print("replay:", oc, json.dumps([l[:300] for l in lines]))
        if r.get("level") == "unit" and "expected" in r:
            fails = not lines or lines[0] != r["expected"]
        else:
            fails = oc != "ok" or lines != r.get("observed_ok", [])
            if r.get("level") == "chunk" and oc == "ok" and len(lines) == 2:
                t = script[0].split()
                case = (t[1] + t[2], t[3] + t[4], t[5], int(t[6]), int(t[7]), int(t[8]))
                data = bytes.fromhex(t[9]); msz = case[4]
                fails = not chunk_oracle(case, [data[i * msz:(i + 1) * msz] for i in range(case[5])], lines[0], lines[1])[0]
        print("replay: property C19 on this input: %s" % ("FAILS" if fails else "holds"))
        return 1 if fails else 0
    if r.get("level") == "api":
        api = vlib.build_harness("c19_api", ["c19_api.c"])
        script = r["script"]
        if any("...(" in s for s in script):
            print("replay: the script was abbreviated (large seeded data); re-run ./check C19 with VERIF_SEED=%s" % r.get("seed")); return 1
        for s in script:
            t = s.split()
            if t[0] == "open" and t[2] == "NEW" and os.path.exists(t[1]):
                os.unlink(t[1])
        lines, oc = vlib.run_impl(api, "\n".join(script) + "\n")
        print("replay:", oc, json.dumps([l[:200] for l in lines]))
        d = r.get("detail") or {}
        fails = oc != "ok"
        if isinstance(d, dict) and "op_index" in d and d["op_index"] < len(lines):
            got = lines[d["op_index"]]
            fails = fails or (d["observed"] in got)
        print("replay: property C19 on this input: %s" % ("FAILS" if fails else "holds"))
        return 1 if fails else 0
    print("replay names a broken obligation/correspondence, no input to run:", json.dumps(r)[:600])
    return 1
