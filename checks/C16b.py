"""C16b -- second layer of C16: the three REAL handle tables (MLL cgns_files[], cgio iolist[], ADF ADF_file[]).

Proof side : coq/Properties_C16b.v over coq/Handles.v (getters cgi_get_file / get_cgnsio / file index inside an ADF id) and
             coq/Refcount.v (the tables and their open / close functions, current code = Cur / MCur): for EVERY session
             C16_handle_resolves_to_own_slot_{mll,cgio,adf}, C16_open_handles_distinct_{mll,cgio_adf},
             C16_closed_handle_rejected_{mll,cgio,adf}, C16_close_touches_one_slot_{mll,cgio_adf}, and what is false:
             C16_mll_numbers_never_reissued for the current offset arithmetic (+= since /repo ecfdd66); about the OLD code only:
             C16_mll_number_reissued_old_refuted, C16_cgio_closed_slot_accepted_old_refuted (get_cgnsio before 137980e).
Tie C      : harness/c16b_h.c drives cg_open / cg_close / uses of RAW file numbers and cgio_open_file / cgio_close_file / uses
             of RAW cgio numbers on the library rebuilt from the working tree; after EVERY operation the answer and the tables
             (n_open, n_cgns_files, cgns_file_size, file_number_offset; num_open, num_iolist, slots; ADF_file[] in_use / name /
             links) must equal the extracted model's.  Sessions: up to 8 simultaneously open files, mixed back ends and modes
             (MLL), opens / closes / uses anywhere, stale and never-issued numbers, several generations (table reset), slot
             reuse, growth of all three tables.
Oracle     : (model-free) every file carries its own number; a use through a live handle must reach the file that handle was
             opened for, a use or close through a number that is not live must fail and leave the tables as they were, an open
             must not return a live number; a file number returned twice in one process / a closed cgio number accepted by
             cgio_get_file_type are reported as findings.

run(ck)        standalone (./check C16b);   run_extra(ck)   to be called from checks/C16.py after its own run.
"""
import concurrent.futures, hashlib, json, os, shutil
import vlib

CHECKER = "make -C coq HandlesProofs.vo (coqc 8.16.1 kernel) ; coqc Properties_C16b.v (Print Assumptions)"
WORKERS = 4
K_REISSUE = "handle:mll-file-number-reissued"           # repaired by /repo ecfdd66 (file_number_offset += n_cgns_files); regression key
K_CLOSEDSLOT = "handle:cgio-closed-slot-accepted"       # repaired by /repo 137980e (get_cgnsio refuses a closed slot); regression key
K_FTYPE = "open:adf-file-refused-after-hdf5-default"   # cg_open(READ) of an ADF file fails once the default file type is HDF5
SPECIAL = {10: "missing", 11: "garbage", 12: "badver", 13: "twovers", 14: "badbase", 15: "badzone", 16: "badver"}   # 16: on HDF5
LATE = {"badver", "badbase", "twovers", "badzone"}


# ----------------------------------------------------------------------------------------------- MLL sessions
def gen_mll(rng, big=False):
    """-> (setup lines, op lines, outcome class per open).  File numbers are chosen with a small mirror of the numbering
    (only to pick interesting numbers; no verdict depends on it)."""
    nfiles = rng.randint(3, 8)
    be = {i: rng.choice(["adf", "hdf5"]) for i in range(1, nfiles + 1)}
    setup = ["mk %d %s" % (i, be[i]) for i in be] + ["prep 11 garbage adf", "prep 12 badver adf", "prep 13 twovers adf", "prep 14 badbase hdf5",
                                                        "prep 15 badzone adf", "prep 16 badver hdf5"]
    ops, classes = [], []
    n_open = n_ent = off = 0
    ent = []                 # mirror of cgns_files: file id or None
    open_files, issued, left = {}, [], []      # left: numbers that refused opens stored through fn (never issued)
    target = rng.choice([3, 5, 8, 8])
    for _ in range(rng.randint(14, 60 if big else 40)):
        r = rng.random()
        free = [i for i in be if i not in open_files.values()]
        if r < 0.45 and free and len(open_files) < target:
            if rng.random() < 0.3:
                f = rng.choice(sorted(SPECIAL)); mode = rng.choice("rm")
                cls = "latefail" if SPECIAL[f] in LATE else "cgiofail"
            else:
                f = rng.choice(free); mode = rng.choice("rrmmw"); cls = "ok"
            ops.append("open %d %s %s" % (f, mode, be.get(f, "adf")))
            classes.append(cls)
            if cls != "cgiofail":
                ent.append(f if cls == "ok" else None); n_ent += 1
                if cls == "ok":
                    n_open += 1; fn = n_ent + off; open_files[fn] = f; issued.append(fn)
                else:
                    # refused AFTER the container was opened: cg_open has already stored this number through fn; it was never
                    # issued and must be refused like any other number that is not open -- now (other files open or not) ...
                    dead = n_ent + off
                    left.append(dead)
                    if n_open == 0:
                        off += n_ent; ent = []; n_ent = 0
                    ops += rng.choice([["get %d" % dead], ["get %d" % dead, "close %d" % dead, "get %d" % dead], ["close %d" % dead], []])
        elif r < 0.7 and open_files:
            fn = rng.choice(sorted(open_files))
            ops.append("close %d" % fn)
            i = fn - off - 1
            ent[i] = None; n_open -= 1; del open_files[fn]
            if n_open == 0:
                off += n_ent; ent = []; n_ent = 0
            for g in sorted(open_files):                     # every other open file must still answer for itself
                ops.append("get %d" % g)
        elif r < 0.85:
            cand = sorted(open_files) + issued[-6:] + left[-6:] + [0, off, off + n_ent + 1, 99]      # ... and later
            ops.append("get %d" % rng.choice(cand))
        else:
            stale = [x for x in issued + left if x not in open_files] + [0, 57, off + n_ent + 1]
            ops.append("close %d" % rng.choice(stale))
            if ops[-1].split()[1].isdigit() and int(ops[-1].split()[1]) in open_files:
                fn = int(ops[-1].split()[1])
                i = fn - off - 1
                ent[i] = None; n_open -= 1; del open_files[fn]
                if n_open == 0:
                    off += n_ent; ent = []; n_ent = 0
    for fn in sorted(open_files):
        ops.append("close %d" % fn)
    return setup, ops, classes


def mll_case(exe, setup, ops, classes, work, tag, with_model=True):
    d = os.path.join(work, tag)
    shutil.rmtree(d, ignore_errors=True)
    os.makedirs(d)
    il, oc = vlib.run_impl(exe, "\n".join(setup + ops) + "\n", args=[d, "mll"], timeout=180)
    shutil.rmtree(d, ignore_errors=True)
    ml = None
    if with_model:
        m_in, k = [], 0
        for o in ops:
            t = o.split()
            if t[0] == "open":
                m_in.append("open " + classes[k]); k += 1
            else:
                m_in.append("%s %s" % (t[0], t[1]))
        ml = [l.split(" | live ")[0] for l in vlib.run_model("c16b", "\n".join(m_in) + "\n", args=["mll"])]
    return {"level": "mll", "setup": setup, "ops": ops, "classes": classes, "impl": il[len(setup):], "impl_setup": il[:len(setup)],
            "outcome": oc, "model": ml}


def mll_oracle(r):
    """model-free verdicts; -> (list of (key or None, description), feature set)"""
    bad, feats = [], set()
    if r["outcome"] != "ok" or len(r["impl"]) != len(r["ops"]):
        return [(None, {"problem": "crash or missing answers", "outcome": r["outcome"], "answers": len(r["impl"]), "ops": len(r["ops"])})], feats
    live, ever, never = {}, set(), set()       # never: numbers refused opens left in the caller's variable
    prev_tab, gens, maxlive = "mll 0 0 0 0", 0, 0
    for op, l in zip(r["ops"], r["impl"]):
        ans, tab = l.split(" | ")[0].split(), l.split(" | ")[1]
        t = op.split()
        if t[0] in ("get", "close") and int(t[1]) in never and int(t[1]) not in live:
            feats.add("failed-open-number-used-with-files-open" if live else "failed-open-number-used-alone")
        if t[0] == "open":
            if ans[1] != "0" and len(ans) >= 5 and ans[4] != "-7":
                never.add(int(ans[4]))
                feats.add("refused-behind-cgio")
            if ans[1] == "0" and len(ans) >= 5 and ans[4] != ans[2]:
                bad.append((None, {"problem": "cg_open succeeded but the number it stored differs from the one reported", "op": op, "answer": l}))
            if ans[1] == "0":
                fn = int(ans[2])
                never.discard(fn)
                if fn in live:
                    bad.append((None, {"problem": "cg_open returned the number of a file that is still open", "op": op, "answer": l}))
                elif fn in ever:
                    bad.append((K_REISSUE, {"problem": "cg_open returned a file number that an earlier, meanwhile closed, file had in this "
                                            "process: the old number now designates the new file", "op": op, "answer": l, "number": fn}))
                    feats.add("reissue")
                live[fn] = int(t[1]); ever.add(fn)
                maxlive = max(maxlive, len(live))
                if int(tab.split()[3]) >= 8:
                    feats.add("table-grown")
                if len(live) == 1 and gens:
                    feats.add("reopen-after-reset")
        elif t[0] == "close":
            fn = int(t[1])
            if fn in live:
                if ans[1] != "0":
                    bad.append((None, {"problem": "cg_close of an open file failed", "op": op, "answer": l}))
                else:
                    del live[fn]
                    if not live:
                        gens += 1
            else:
                if ans[1] == "0" or tab != prev_tab:
                    bad.append((None, {"problem": "cg_close of a number that is not open succeeded or changed the table", "op": op,
                                       "answer": l, "before": prev_tab}))
                feats.add("stale-close")
        elif t[0] == "get":
            fn = int(t[1])
            if fn in live:
                if ans[1] != "0" or ans[2] != "B%d" % live[fn]:
                    bad.append((None, {"problem": "a use through an open handle failed or reached another file", "op": op, "answer": l,
                                       "expected": "B%d" % live[fn]}))
            else:
                if ans[1] == "0":
                    bad.append((None, {"problem": "a use through a number that is not open was accepted", "op": op, "answer": l}))
                feats.add("stale-use")
            if tab != prev_tab:
                bad.append((None, {"problem": "a use changed the table", "op": op, "answer": l, "before": prev_tab}))
        prev_tab = tab
    if gens >= 3:
        feats.add("three-generations")
    if maxlive >= 6:
        feats.add("six-open")
    return bad, feats


# ----------------------------------------------------------------------------------------------- cgio / ADF sessions
def gen_io(rng, big=False):
    nk = rng.randint(3, 9)
    kinds = [rng.choice(["ok", "ok", "okL", "okB", "okE", "missing", "badhdr", "garbage"]) for _ in range(nk)]
    kinds[0] = rng.choice(["ok", "okB"]); kinds[1] = rng.choice(["ok", "okL", "okL"])
    oks = [i for i, k in enumerate(kinds) if k.startswith("ok")]
    links = sorted({(a, b) for a in oks for b in oks if b != a and rng.random() < 0.2})
    world = "world %s %s" % (",".join(kinds), ",".join("%d>%d" % e for e in links) or "-")
    ops, slots = [], []           # mirror of iolist occupancy (True = live)
    target = rng.choice([3, 6, 8, 8])
    for _ in range(rng.randint(14, 60 if big else 40)):
        r = rng.random()
        nlive = sum(1 for x in slots if x)
        if r < 0.45 and nlive < target:
            n = rng.choice(oks) if rng.random() < 0.8 else rng.randrange(nk)
            ops.append("open %d %s" % (n, rng.choice("rm")))
            if kinds[n].startswith("ok"):
                if not slots:
                    slots = [False] * 5
                k = slots.index(False) if False in slots else len(slots)
                if k == len(slots):
                    slots.append(False)
                slots[k] = True
        elif r < 0.65 and nlive:
            c = rng.choice([i + 1 for i, x in enumerate(slots) if x])
            ops.append("close %d" % c)
            slots[c - 1] = False
            if not any(slots):
                slots = []
            for g in [i + 1 for i, x in enumerate(slots) if x]:
                ops.append("use %d" % g)
        elif r < 0.72 and nlive and links:
            c = rng.choice([i + 1 for i, x in enumerate(slots) if x])
            ops.append("walk %d %d" % (c, rng.choice(links)[1]))
        elif r < 0.8:
            ops.append("use %d" % rng.choice(list(range(0, len(slots) + 2)) + [17]))
        elif r < 0.9:
            ops.append("get %d" % rng.choice(list(range(0, len(slots) + 2)) + [17]))
        else:
            dead = [i + 1 for i, x in enumerate(slots) if not x] + [0, len(slots) + 1, 23]
            ops.append("close %d" % rng.choice(dead))
    for c in [i + 1 for i, x in enumerate(slots) if x]:
        ops.append("close %d" % c)
    return world, ops


def gen_io_layout(rng):
    """directed family: open and close a file while another stays open, then open a file of a DIFFERENT on-disk layout into
    the freed entry and use it; the entry must not inherit anything (e.g. old_version) from its previous occupant"""
    lay = ["ok", "okL", "okB", "okE"]
    nk = rng.randint(3, 7)
    kinds = [rng.choice(lay) for _ in range(nk)]
    if "okL" not in kinds:
        kinds[rng.randrange(1, nk)] = "okL"
    ops, live = ["open 0 %s" % rng.choice("rm")], {1: 0}
    for _ in range(rng.randint(3, 8)):
        x = rng.randrange(1, nk)
        c = min(set(range(1, 12)) - set(live))
        ops += ["open %d %s" % (x, rng.choice("rm")), "use %d" % c]
        live[c] = x
        if rng.random() < 0.85:
            ops.append("close %d" % c); del live[c]
            z = rng.choice([i for i in range(1, nk) if kinds[i] != kinds[x]] or [x])
            c2 = min(set(range(1, 12)) - set(live))
            ops += ["open %d %s" % (z, rng.choice("rm")), "use %d" % c2] + ["use %d" % g for g in sorted(live)]
            live[c2] = z
    for c in sorted(live):
        ops.append("close %d" % c)
    return "world %s -" % ",".join(kinds), ops


def gen_io_data(rng):
    """directed family: several ADF files open for modification at once, small writes to them interleaved (ADF has ONE write
    buffer and ONE read buffer for all files), read back through the same handle, after writes to the other files, and after a
    close and reopen: every file must hold what was written to IT"""
    nk = rng.randint(2, 5)
    kinds = [rng.choice(["ok", "ok", "okB", "okE"]) for _ in range(nk)]
    kinds[rng.randrange(nk)] = "ok"             # "new" recreates a file of the native layout
    ops, live, val = [], {}, 100
    for n in rng.sample(range(nk), rng.randint(2, nk)):
        c = min(set(range(1, 12)) - set(live))
        ops.append("open %d m" % n); live[c] = n
    for _ in range(rng.randint(8, 30)):
        r = rng.random()
        hs = sorted(live)
        if r < 0.5 and hs:
            val += 1
            ops.append("put %d %d %d" % (rng.choice(hs), rng.randint(1, 3), val))
        elif r < 0.8 and hs:
            ops.append("chk %d %d" % (rng.choice(hs), rng.randint(1, 3)))
        elif r < 0.9 and hs:
            c = rng.choice(hs)
            ops.append("close %d" % c); del live[c]
        else:
            closed = [n for n in range(nk) if n not in live.values()]
            if closed:
                c = min(set(range(1, 12)) - set(live))
                n = rng.choice(closed)
                if kinds[n] == "ok" and rng.random() < 0.5:
                    # a file created afresh and, before anything else is done with it, a write to ANOTHER open file
                    ops.append("new %d" % n)
                    others = [h for h in sorted(live) if h != c]
                    if others and rng.random() < 0.8:
                        val += 1
                        ops.append("put %d %d %d" % (rng.choice(others), rng.randint(1, 3), val))
                else:
                    ops.append("open %d %s" % (n, rng.choice("mmr")))
                live[c] = n
    for c in sorted(live):
        ops.append("close %d" % c)
    for n in range(nk):                          # what each file holds in the end, alone
        ops += ["open %d r" % n] + ["chk 1 %d" % k for k in (1, 2, 3)] + ["close 1"]
    return "world %s -" % ",".join(kinds), ops


NOTABLE = ("put ", "chk ")        # data operations: they touch no handle table and are not given to the model


def io_case(exe, world, ops, work, tag, with_model=True):
    d = os.path.join(work, tag)
    shutil.rmtree(d, ignore_errors=True)
    os.makedirs(d)
    script = "\n".join([world] + ops) + "\n"
    il, oc = vlib.run_impl(exe, script, args=[d, "io"], timeout=180)
    shutil.rmtree(d, ignore_errors=True)
    # "new <n>" (n a native-layout file of the world) is for the tables what "open <n> m" is
    mscript = "\n".join([world] + [("open %s m" % o.split()[1] if o.startswith("new ") else o) for o in ops if not o.startswith(NOTABLE)]) + "\n"
    ml = [l.split(" | live ")[0] for l in vlib.run_model("c16b", mscript, args=["io"])] if with_model else None
    return {"level": "cgio", "world": world, "ops": ops, "impl": il[1:], "outcome": oc, "model": ml[1:] if ml else None}


def io_oracle(r):
    bad, feats = [], set()
    if r["outcome"] != "ok" or len(r["impl"]) != len(r["ops"]):
        return [(None, {"problem": "crash or missing answers", "outcome": r["outcome"], "answers": len(r["impl"]), "ops": len(r["ops"])})], feats
    live, prev_tab, resets, maxlive, closed_once = {}, None, 0, 0, set()
    mode, content = {}, {}                   # handle -> mode; (file, key) -> value last written to it
    kinds = r["world"].split()[1].split(",")
    wlinks = set(r["world"].split()[2].split(",")) if len(r["world"].split()) > 2 else set()
    if len(set(k for k in kinds if k.startswith("ok"))) > 1:
        feats.add("mixed-layouts")
    for op, l in zip(r["ops"], r["impl"]):
        ans, tab = l.split(" | ")[0].split(), " | ".join(l.split(" | ")[1:])
        t = op.split()
        if t[0] == "new":
            t = ["open", t[1], "m"]
            for key in [x for x in content if x[0] == int(t[1])]:
                del content[key]                    # the file starts empty
        if t[0] == "open":
            if ans[1] == "ok":
                c = int(ans[2])
                if c in live:
                    bad.append((None, {"problem": "cgio_open_file returned the number of a file that is still open", "op": op, "answer": l}))
                if c in closed_once:
                    feats.add("slot-reuse")
                live[c] = int(t[1]); mode[c] = t[2]
                maxlive = max(maxlive, len(live))
                if int(tab.split()[2]) > 5:
                    feats.add("iolist-grown")
                if int(tab.split(" | ")[1].split()[1]) > 5:
                    feats.add("adf-table-grown")
                if len(live) == 1 and resets:
                    feats.add("reopen-after-reset")
            else:
                n = int(t[1])
                if n < len(kinds) and kinds[n].startswith("ok"):
                    bad.append((None, {"problem": "cgio_open_file of a valid file failed (alone in a fresh process it opens)", "op": op, "answer": l,
                                       "layout": kinds[n]}))
                if prev_tab is not None and tab.split(" | ")[0] != prev_tab.split(" | ")[0]:
                    bad.append((None, {"problem": "a failing cgio_open_file changed the handle table", "op": op, "answer": l, "before": prev_tab}))
        elif t[0] == "close":
            c = int(t[1])
            if c in live:
                if ans[1] != "0":
                    bad.append((None, {"problem": "cgio_close_file of an open file failed", "op": op, "answer": l}))
                else:
                    del live[c]; closed_once.add(c)
                    if not live:
                        resets += 1
            else:
                if ans[1] == "0" or (prev_tab is not None and tab != prev_tab):
                    bad.append((None, {"problem": "cgio_close_file of a number that is not open succeeded or changed a table", "op": op,
                                       "answer": l, "before": prev_tab}))
                feats.add("stale-close")
        elif t[0] == "use":
            c = int(t[1])
            if c in live:
                if ans[1] != "0" or ans[2] != "F%d_t" % live[c]:
                    bad.append((None, {"problem": "a use through an open handle failed or reached another file", "op": op, "answer": l,
                                       "expected": "F%d_t" % live[c]}))
            elif ans[1] == "0":
                bad.append((None, {"problem": "a use through a number that is not open was accepted", "op": op, "answer": l}))
            if prev_tab is not None and tab != prev_tab:
                bad.append((None, {"problem": "a use changed a table", "op": op, "answer": l, "before": prev_tab}))
        elif t[0] == "walk":
            c, b = int(t[1]), int(t[2])
            if c in live and ("%d>%d" % (live[c], b)) in wlinks and b < len(kinds) and kinds[b].startswith("ok"):
                feats.add("link-read")
                if ans[1] != "0" or ans[2] != "F%d_t" % b:
                    bad.append((None, {"problem": "a read through a link to another file failed or reached another file", "op": op, "answer": l,
                                       "expected": "F%d_t" % b}))
            elif c not in live and ans[1] == "0":
                bad.append((None, {"problem": "a use through a number that is not open was accepted", "op": op, "answer": l}))
        elif t[0] == "put":
            c, k, v = int(t[1]), int(t[2]), t[3]
            if c in live and mode.get(c) == "m":
                feats.add("interleaved-writes")
                if ans[1] != "0":
                    bad.append((None, {"problem": "a write through a handle open for modification failed", "op": op, "answer": l}))
                else:
                    content[(live[c], k)] = v
            elif ans[1] == "0":
                bad.append((None, {"problem": "a write through a read-only or closed handle was accepted", "op": op, "answer": l}))
            if prev_tab is not None and tab != prev_tab:
                bad.append((None, {"problem": "a data operation changed a table", "op": op, "answer": l, "before": prev_tab}))
        elif t[0] == "chk":
            c, k = int(t[1]), int(t[2])
            if c in live and (live[c], k) in content:
                if ans[1] != "0" or ans[2] != content[(live[c], k)]:
                    bad.append((None, {"problem": "a file does not hold what was written to it (read back through an open handle)", "op": op,
                                       "answer": l, "expected": content[(live[c], k)], "file": live[c]}))
            elif c in live and ans[1] == "0":
                bad.append((None, {"problem": "a node that was never written to this file was read from it", "op": op, "answer": l, "file": live[c]}))
            if prev_tab is not None and tab != prev_tab:
                bad.append((None, {"problem": "a data operation changed a table", "op": op, "answer": l, "before": prev_tab}))
        elif t[0] == "get":
            c = int(t[1])
            if c not in live and ans[1] == "0":
                bad.append((K_CLOSEDSLOT, {"problem": "cgio_get_file_type answers status 0 for a cgio number that is not open (closed slot of a "
                                           "table another file keeps alive)", "op": op, "answer": l}))
                feats.add("closed-slot-get")
            if c in live and ans[1] != "0":
                bad.append((None, {"problem": "cgio_get_file_type of an open file failed", "op": op, "answer": l}))
        prev_tab = tab
    if maxlive >= 6:
        feats.add("six-open")
    return bad, feats


# ----------------------------------------------------------------------------------------------- the check
def load_corpus():
    """corpus/C16b/*.json: witnesses of repaired defects; they run first and must pass"""
    import glob
    out = []
    for f in sorted(glob.glob(os.path.join(vlib.ROOT, "corpus", "C16b", "*.json"))):
        c = json.load(open(f)); c["file"] = os.path.basename(f)
        out.append(c)
    return out


FTYPE_SETUP = ["mk 1 adf"]
FTYPE_OPS = ["open 1 r keep", "close 1", "open 2 w hdf5", "close 2", "open 1 r keep"]
CLOSEDSLOT = ("world ok,ok,ok 0>1", ["open 0 r", "open 1 r", "close 2", "get 2", "use 2", "use 1", "get 7", "open 2 m", "use 2", "close 1", "close 2"])


# two files open for modification, a small write to each in turn, read back at once and after close + reopen
DATA2 = ("world ok,ok,okB,ok -", ["open 0 m", "new 3", "put 1 3 13", "chk 1 3", "put 2 1 41", "close 2", "close 1", "open 0 r", "chk 1 3", "close 1", "open 3 r", "chk 1 1",
                                  "close 1", "open 0 m", "open 1 m", "open 2 m", "put 1 1 11", "put 2 1 21", "put 3 1 31", "chk 1 1", "chk 2 1", "chk 3 1", "put 1 2 12",
                               "close 2", "chk 1 2", "put 3 2 32", "close 1", "close 3", "open 0 r", "chk 1 1", "chk 1 2", "close 1", "open 1 r", "chk 1 1",
                               "chk 1 2", "close 1", "open 2 r", "chk 1 1", "chk 1 2", "close 1"])


def body(ck, standalone):
    big = ck.tier == "thorough"
    vlib.build_impl()
    exe = vlib.build_harness("c16b_h", ["c16b_h.c"])
    prev_thms = list(ck.extra.get("theorems", []))
    prev_pa = ck.extra.get("print_assumptions")
    prev_cmd = ck.cov.get("checker_cmd", "")
    res = vlib.coq_check_properties("C16b")
    broken = ck.proof_result(res, (prev_cmd + " ; " if prev_cmd and not standalone else "") + CHECKER)
    if not standalone:
        ck.extra["theorems"] = prev_thms + res["theorems"]
        if prev_pa:
            pa = res["assumptions"]
            ck.extra["print_assumptions"] = {"closed": prev_pa["closed"] + pa["closed"], "with_axioms": prev_pa["with_axioms"] + pa["with_axioms"],
                                             "axioms": sorted(set(prev_pa["axioms"]) | set(pa["axioms"]))}
    forb = vlib.coq_forbidden_scan("C16b")
    if forb:
        ck.violation({"broken_obligation": "forbidden tokens in the Coq development (C16b)", "hits": forb}, nofail=True)
    if res["ok"]:
        vlib.build_modelrun("c16b")
    rule = ("C16b: MLL sessions over 3..8 data files of mixed back ends (ADF / HDF5) and modes (r / m / w) with up to 8 simultaneously open, failing "
            "opens (missing, not a database, wrong version, broken base), closes and uses of open, stale and never-issued RAW file numbers, several "
            "generations; cgio sessions over 3..9 files (some missing / unreadable / linked) with up to 8 simultaneously open, closes / uses / "
            "cgio_get_file_type of open, closed and out-of-range RAW cgio numbers; after every operation answer + all three tables vs the extracted "
            "model, and model-free identity / rejection oracles. non-trivial = table growth, slot reuse, reopen after table reset, >= 3 generations, "
            ">= 6 files open at once, a stale close or use; distinct by SHA1 of the script")
    tb = ["extraction + ocaml/eng_c16b.ml", "harness/c16b_h.c (includes src/cgns_io.c to read its static table)", "checks/C16b.py (generators, oracles)",
          "hand transcription in coq/Refcount.v + coq/Handles.v, validated state by state on every run"]
    if standalone:
        ck.cov["rule"] = rule
        ck.cov["trusted_base"] = ["Coq 8.16.1 kernel + vm_compute"] + tb
        ck.assumptions = ["single thread", "no I/O or malloc failures", "cgio level: ADF back end (the HDF5 table of ADFH is covered by checks/C16.py's "
                          "interleaving oracle only)", "the model variants Cur / MCur transcribe /repo since 909ac4d / def473d"]
    else:
        ck.cov["trusted_base"] = list(ck.cov.get("trusted_base", [])) + tb
    pool = concurrent.futures.ThreadPoolExecutor(max_workers=WORKERS)
    stats = {"mll_sessions": 0, "io_sessions": 0, "ops": 0, "states_compared": 0, "features": {}}
    findings, corr = {}, []
    nm, ni = (60, 80) if big else (10, 14)
    stats["corpus"] = {}
    for c in load_corpus():
        r = mll_case(exe, c["setup"], c["ops"], c["classes"], ck.work, "b_corp", res["ok"]) if c["level"] == "mll" else \
            io_case(exe, c["world"], c["ops"], ck.work, "b_corp", res["ok"])
        bad, _ = (mll_oracle if c["level"] == "mll" else io_oracle)(r)
        ck.case(hashlib.sha1(("corpus" + c["file"]).encode()).hexdigest(), sample={"corpus": c["file"], "key": c["key"]})
        stats["corpus"][c["file"]] = "pass"
        for key, desc in bad:
            if key and key != c["key"] and ck.known_match(key):
                ck.finding(key, {"layer": "C16b", "corpus": c["file"], "failure": desc})
            else:
                stats["corpus"][c["file"]] = "FAIL"
                ck.finding(c["key"], dict({k: c[k] for k in c if k in ("level", "setup", "ops", "classes", "world")}, layer="C16b", failure=desc,
                                          regression_of=c["file"], repaired_by=c.get("fixed_by"),
                                          oracle="regression corpus: the witness of a repaired defect fails again"))
    mcases = [gen_mll(ck.rng, big) for _ in range(nm)]
    icases = [(gen_io_layout(ck.rng) if i % 3 == 2 else gen_io(ck.rng, big)) for i in range(ni)]
    icases += [DATA2] + [gen_io_data(ck.rng) for _ in range(ni // 3)]
    futs = [pool.submit(mll_case, exe, s, o, c, ck.work, "b_m%d" % i, res["ok"]) for i, (s, o, c) in enumerate(mcases)]
    futs += [pool.submit(io_case, exe, w, o, ck.work, "b_i%d" % i, res["ok"]) for i, (w, o) in enumerate(icases)]
    for fu in futs:
        r = fu.result()
        if r["level"] == "mll":
            if any(not l.startswith("mk 0") and not l.startswith("prep 0") for l in r["impl_setup"]):
                raise vlib.Infra("c16b_h: setup failed: %s" % r["impl_setup"])
            bad, feats = mll_oracle(r)
            stats["mll_sessions"] += 1
            impl_cmp = [" | ".join([" ".join(l.split(" | ")[0].split()[:2] if l.startswith("get ") else l.split(" | ")[0].split())] + l.split(" | ")[1:]) for l in r["impl"]]
            rep = {"layer": "C16b", "level": "mll", "setup": r["setup"], "ops": r["ops"], "classes": r["classes"]}
        else:
            bad, feats = io_oracle(r)
            stats["io_sessions"] += 1
            impl_cmp = [("open " + l[4:] if l.startswith("new ") else l) for o, l in zip(r["ops"], r["impl"]) if not o.startswith(NOTABLE)]
            rep = {"layer": "C16b", "level": "cgio", "world": r["world"], "ops": r["ops"]}
        stats["ops"] += len(r["ops"])
        for f in feats:
            stats["features"][f] = stats["features"].get(f, 0) + 1
        ck.case(hashlib.sha1(json.dumps(rep, sort_keys=True).encode()).hexdigest() if feats else None,
                sample=dict(rep, ops=rep["ops"][:10] + ["..."]))
        if r["model"] is not None:
            ck.cov["traces_validated_against_impl"] += 1
            stats["states_compared"] += len(r["model"])
            if r["outcome"] != "ok" or impl_cmp != r["model"]:
                dv = vlib.first_divergence(r["model"], impl_cmp)
                corr.append(dict(rep, outcome=r["outcome"], first_divergence=dv and {"line": dv[0], "op": ([o for o in r["ops"] if not o.startswith(NOTABLE)] + [None] * (dv[0] + 1))[dv[0]],
                                                                                     "model": dv[1], "impl": dv[2]}))
        for key, desc in bad:
            k = key or ("unclassified:" + desc["problem"][:50])
            if k not in findings:
                findings[k] = (key, dict(rep, failure=desc, oracle="identity / rejection oracle on the implementation's own answers (no model involved)"))
    pool.shutdown()
    # mixed formats in one process: an existing ADF file must stay readable after an HDF5 file was written (model-free probe)
    r = mll_case(exe, FTYPE_SETUP, FTYPE_OPS, ["ok"] * 3, ck.work, "b_ftype", False)
    if r["outcome"] == "ok" and len(r["impl"]) == 5 and r["impl"][0].startswith("open 0") and not r["impl"][4].startswith("open 0"):
        findings[K_FTYPE] = (K_FTYPE, {"layer": "C16b", "level": "mll", "setup": FTYPE_SETUP, "ops": FTYPE_OPS, "classes": ["ok"] * 3,
                                       "failure": {"problem": "cg_open(CG_MODE_READ) of an existing ADF file fails after an HDF5 file was written in the same "
                                                   "process (the default file type stays HDF5 and cgio_open_file then skips the type detection)",
                                                   "answers": [l.split(" | ")[0] for l in r["impl"]]},
                                       "oracle": "the same open succeeded before the HDF5 file was written"})
    for k in sorted(findings):
        key, rep = findings[k]
        if key is None:
            ck.violation(rep)
        else:
            ck.finding(key, rep)
    if (broken or corr) and not ck.violations:
        ck.violation({"layer": "C16b", "broken_obligations": broken, "broken_correspondence": corr[:3],
                      "note": "the handle-table model and the implementation differ (or an obligation of Properties_C16b.v no longer checks) although every "
                              "use through an open handle reached its own file and every stale number was refused"}, nofail=True)
    ck.extra["C16b"] = {"input_distribution": stats, "correspondence_divergences": len(corr), "finding_keys_seen": sorted(findings),
                        "rule": rule}
    if standalone:
        ck.extra["input_distribution"] = stats


def run(ck):
    body(ck, True)


def run_extra(ck):
    """second layer, to be called at the end of checks/C16.py's run(ck)"""
    body(ck, False)


def replay(ck, path):
    r = json.load(open(path))
    vlib.build_impl()
    exe = vlib.build_harness("c16b_h", ["c16b_h.c"])
    if r.get("level") == "mll":
        rr = mll_case(exe, r["setup"], r["ops"], r["classes"], ck.work, "replay", False)
        bad, _ = mll_oracle(rr)
    elif r.get("level") == "cgio":
        rr = io_case(exe, r["world"], r["ops"], ck.work, "replay", False)
        bad, _ = io_oracle(rr)
    else:
        print("replay names a broken obligation / correspondence, no input to run:", json.dumps(r)[:1200])
        return 1
    print("\n".join(rr["impl"][-12:]))
    print("replay: %s" % (json.dumps([(k, d.get("problem")) for k, d in bad]) if bad else "holds"))
    return 1 if bad else 0
