"""C20 -- the Fortran-callable bindings behave exactly like the C functions.

Proof side : coq/Properties_C20.v -- Ftoc.v models the four static string helpers of src/cg_ftoc.c and
             src/cgio_ftoc.c over byte lists with explicit write lists (C20_to_c_bounds, C20_to_f_bounds,
             C20_to_f_truncates_silently: all strings, all lengths, all buffers) and defines the decidable
             predicate row_ok; the kernel evaluates it on coq/Gen_C20.v, the table of ALL wrappers regenerated
             from the current sources by translators/c20_ftoc.py (C20_table_checked, C20_buffers_fit,
             C20_wrapper_is_call, C20_every_wrapper_parsed).
Tie T      : the translator runs on every check (and in pregen()).
Tie C      : (1) the extracted helpers against the real static functions (harness/c20_str.c #includes the two
             .c files) on every (length, limit) combination and on seeded byte strings;
             (2) harness/c20_wrap.c calls ~110 wrappers in Fortran convention (hidden lengths, no terminators,
             canaries) and, in a second process, the C functions directly with the equivalent arguments, on ADF
             and HDF5; lines and the cgio tree dumps of the resulting files must be equal;
             (3) a generated driver (from the same table) calls EVERY compiled wrapper with over-long, blank and
             empty strings under ASan.
Oracles (independent of the model): a Python reference of the two conversions; wrapper-vs-direct-call equality;
file-tree equality; ASan/UBSan.
"""
import hashlib, json, os, re, subprocess, sys
import vlib

sys.path.insert(0, os.path.join(vlib.ROOT, "translators"))
import c20_ftoc

CHECKER = "make -C coq Ftoc.vo FtocProofs.vo Gen_C20.vo (coqc 8.16.1 kernel, vm_compute on the regenerated table) ; coqc Properties_C20.v (Print Assumptions)"
ALNUM = b"abcdefghijklmnopqrstuvwxyzABCDEFGHIJKLMNOPQRSTUVWXYZ0123456789_"


def pregen():
    c20_ftoc.write_gen(repo=vlib.REPO, impl=vlib.IMPL)
    from checks import C20f
    C20f.pregen()


def hx(b):
    return bytes(b).hex() if b else "-"


# ------------------------------------------------------------------ string helpers: reference + scripts
def ref_to_c(f, flen, maxlen, buf):
    """expected (buffer, oob, n) from the documented semantics: value without trailing blanks, cut to maxlen, NUL"""
    v = bytes(f[:max(flen, 0)]).rstrip(b" ")
    if maxlen >= 0:
        v = v[:maxlen]
    else:
        v = b""
    out = bytearray(buf)
    oob = []
    for i, c in enumerate(v + b"\0"):
        if i < len(out):
            out[i] = c
        else:
            oob.append(i)
    return bytes(out), oob, len(v)


def ref_to_f(c, flen, buf):
    s = bytes(c).split(b"\0")[0]
    out = bytearray(buf)
    oob = []
    for i in range(max(flen, 0)):
        ch = s[i] if i < len(s) else 32
        if i < len(out):
            out[i] = ch
        else:
            oob.append(i)
    return bytes(out), oob


def rand_bytes(rng, n, blanks=0.15):
    return bytes(32 if rng.random() < blanks else rng.choice(b"ABCDEFGHIJKLMNOPQRSTUVWXYZabcdefghijklmnopqrstuvwxyz0123456789_.-/:") for _ in range(n))


def gen_helper_script(rng, big):
    """every (flen, max_len) and (strlen, flen) combination in 0..LIM, plus negative / large lengths"""
    lim = 44 if big else 41
    ops, exp = [], []
    for flen in range(0, lim + 1):
        for maxlen in range(0, lim + 1):
            kinds = ["rand", "trail", "blank"] if big else [rng.choice(["rand", "trail", "blank", "full"])]
            for kind in kinds:
                if kind == "rand":
                    f = rand_bytes(rng, flen)
                elif kind == "trail":
                    k = rng.randint(0, flen)
                    f = rand_bytes(rng, k, 0.05) + b" " * (flen - k)
                elif kind == "full":
                    f = rand_bytes(rng, flen, 0.0)
                else:
                    f = b" " * flen
                f += rand_bytes(rng, rng.choice([0, 0, 3]))          # memory after the Fortran variable
                bsz = rng.choice([maxlen + 1, maxlen + 1, maxlen + 1 + rng.randint(0, 8), max(0, maxlen - rng.randint(0, 3))])
                buf = bytes([0x11] * bsz)
                for op in ("toc", "s2c"):
                    ops.append("%s %s %d %d %s" % (op, hx(f), flen, maxlen, hx(buf)))
                    b, oob, n = ref_to_c(f, flen, maxlen, buf)
                    exp.append("r %s oob=%s ret=%d" % (hx(b), ",".join(map(str, oob)) or "-", n if op == "toc" else 0))
    for slen in range(0, lim + 1):
        for flen in range(0, lim + 1):
            c = rand_bytes(rng, slen, 0.1) + b"\0" + rand_bytes(rng, rng.choice([0, 2]))
            bsz = rng.choice([flen, flen, flen + rng.randint(0, 6), max(0, flen - rng.randint(0, 3))])
            buf = bytes([0x22] * bsz)
            for op in ("tof", "s2f"):
                ops.append("%s %s %d %s" % (op, hx(c), flen, hx(buf)))
                b, oob = ref_to_f(c, flen, buf)
                exp.append("r %s oob=%s ret=%d" % (hx(b), ",".join(map(str, oob)) or "-", flen if op == "tof" else 0))
    # negative lengths / limits (an int hidden length that wrapped): nothing but the terminator may be written
    for flen, maxlen in [(-1, 5), (-5, 0), (3, -1), (0, -7), (-2, -2)]:
        f = b"abc"
        buf = bytes([0x11] * 4)
        for op in ("toc", "s2c"):
            ops.append("%s %s %d %d %s" % (op, hx(f), flen, maxlen, hx(buf)))
            b, oob, n = ref_to_c(f, flen, maxlen, buf)
            exp.append("r %s oob=%s ret=%d" % (hx(b), ",".join(map(str, oob)) or "-", n if op == "toc" else 0))
    for flen in (-1, -9):
        for op in ("tof", "s2f"):
            ops.append("%s %s %d %s" % (op, hx(b"xy\0"), flen, hx(b"\x22\x22")))
            exp.append("r 2222 oob=- ret=%d" % (flen if op == "tof" else 0))
    for n in (0, 1, 32, 2147483647, 2147483648, 4294967295, 4294967296 + 7):
        ops.append("int32 %d" % n)
        m = n % (1 << 32)
        exp.append("i %d" % (m if m < (1 << 31) else m - (1 << 32)))
    return ops, exp


# ------------------------------------------------------------------ wrapper scenarios
LENS = [0, 1, 2, 5, 16, 31, 32, 33, 34, 40, 41, 64, 100]
OLENS = [0, 1, 2, 7, 16, 31, 32, 33, 40, 64]


class NameGen:
    def __init__(self, rng):
        self.rng, self.n, self.stats = rng, 0, {"len": {}, "kind": {}}

    def name(self, maxcore=None, force=None):
        rng = self.rng
        self.n += 1
        kind = force or rng.choice(["plain", "plain", "trail", "trail", "long", "blank", "inner", "empty", "lead"])
        core = rng.choice(LENS) if rng.random() < 0.5 else rng.randint(0, 40)
        if kind == "long":
            core = rng.choice([33, 34, 40, 41, 64, 100])
        if kind in ("plain", "trail", "inner", "lead") and core == 0:
            core = rng.randint(1, 32)
        if kind in ("plain", "trail", "inner", "lead") and core > 32 and rng.random() < 0.6:
            core = rng.randint(1, 32)
        if maxcore is not None:
            core = min(core, maxcore)
        tag = ("%d" % self.n).encode()
        b = bytes(rng.choice(ALNUM) for _ in range(core))
        if core > len(tag):
            b = tag + b[len(tag):]                     # distinct within a parent
        if kind == "trail":
            b += b" " * rng.choice([1, 3, 8, 32])
        elif kind == "blank":
            b = b" " * rng.choice([1, 5, 32, 40])
        elif kind == "empty":
            b = b""
        elif kind == "inner" and len(b) > 3:
            b = b[:2] + b" " + b[3:] + b" " * rng.choice([0, 2])
        elif kind == "lead" and len(b) > 2:
            b = b" " + b[1:]
        self.stats["kind"][kind] = self.stats["kind"].get(kind, 0) + 1
        L = min(len(b), 101)
        self.stats["len"][L] = self.stats["len"].get(L, 0) + 1
        return hx(b)

    def text(self):
        rng = self.rng
        n = rng.choice([0, 1, 10, 32, 33, 80, 200, 1000, 3000])
        b = rand_bytes(rng, n, 0.2) + b" " * rng.choice([0, 0, 4, 40])
        return hx(b)

    def olen(self):
        return self.rng.choice(OLENS) if self.rng.random() < 0.6 else self.rng.randint(0, 40)


def gen_mll_script(rng, stats):
    g = NameGen(rng)
    o = g.olen
    s = ["open w", "base %s 3 3" % hx(b"Base"), "zone %s 1 s 3" % hx(b"Z1"), "zone %s 1 u 8" % hx(b"Z2"),
         "base %s 2 2" % hx(b"Base2D"), "zone2 %s 2 4" % hx(b"ZA"), "zone2 %s 2 4" % hx(b"ZB"), "close", "open m"]
    for _ in range(rng.randint(2, 4)):
        s.append("coord_write 1 1 %d %s" % (rng.choice([3, 4]), g.name()))
    good = g.name(force="trail", maxcore=20)
    s += ["coord_write 1 1 4 " + good, "coord_read 1 1 %s 3" % good, "coord_read 1 1 %s 3" % g.name()]
    for _ in range(2):
        s.append("section_write 1 2 %s 10 1 4 0" % g.name())
    s += ["section_read 1 2 1 %d" % o(), "section_read 1 2 2 %d" % o(), "section_read 1 2 9 %d" % o()]
    for _ in range(rng.randint(1, 3)):
        s.append("sol_write 1 1 %s %d" % (g.name(), rng.choice([2, 3])))
    s += ["nsols 1 1", "sol_info 1 1 1 %d" % o(), "sol_info 1 1 2 %d" % o(), "sol_write 1 1 %s 2" % hx(b"VSol"), "nsols 1 1"]
    # the last solution written is at Vertex: find its index dynamically is not possible in a flat script, so
    # field ops address S=1..2 and accept whatever status both sides agree on
    fld = g.name(force="trail", maxcore=24)
    for S in (1, 2):
        s += ["field_write 1 1 %d 4 %s 27" % (S, g.name()), "field_write 1 1 %d 4 %s 27" % (S, fld), "nfields 1 1 %d" % S,
              "field_info 1 1 %d 1 %d" % (S, o()), "field_info 1 1 %d 2 %d" % (S, o()), "field_read 1 1 %d %s 3" % (S, fld)]
    for _ in range(rng.randint(1, 3)):
        s.append("boco_write 1 1 %s %d %d" % (g.name(), rng.choice([7, 20, 21]), rng.randint(1, 9)))
    s += ["nbocos 1 1", "boco_info 1 1 1 %d" % o(), "boco_info 1 1 2 %d" % o(),
          "dataset_write 1 1 1 %s 20" % g.name(), "dataset_write 1 1 1 %s 7" % g.name(), "dataset_read 1 1 1 1 %d" % o(),
          "dataset_read 1 1 1 2 %d" % o(), "bc_area_write 1 1 1 2 %s" % g.name(), "bc_area_read 1 1 1 %d" % o()]
    s += ["grid_write 1 1 %s" % g.name(), "grid_write 1 1 %s" % g.name(), "grid_read 1 1 1 %d" % o(), "grid_read 1 1 2 %d" % o(),
          "grid_read 1 1 3 %d" % o()]
    s += ["zconn_write 1 1 %s" % g.name(), "zconn_read 1 1 1 %d" % o(), "zconn_read 1 1 2 %d" % o()]
    s += ["conn_write_short 1 1 %s %s" % (g.name(), g.name()), "conn_write_short 1 1 %s %s" % (g.name(), hx(b"Z2")),
          "conn_info 1 1 1 %d %d" % (o(), o()), "conn_info 1 1 2 %d %d" % (o(), o())]
    s += ["1to1_write 1 1 %s %s" % (g.name(), hx(b"Z1  ")), "1to1_write 1 1 %s %s" % (g.name(), g.name()),
          "1to1_read 1 1 1 %d %d" % (o(), o()), "1to1_read 1 1 2 %d %d" % (o(), o()), "n1to1_global 1",
          "1to1_read_global 1 %d" % rng.choice([2, 2, 3])]
    # a 2-D base with several interfaces: INTEGER range(4,N), donor_range(4,N), transform(2,N) packing of the global reader
    n2 = rng.choice([2, 3, 3, 4])
    for k in range(n2):
        s.append("1to1_write2 2 %d %s %s %d" % (1 + k % 2, g.name(), hx(b"ZB" if k % 2 == 0 else b"ZA"), rng.randint(0, 11)))
    s += ["n1to1_global 2", "1to1_read_global 2 %d" % (n2 + rng.choice([0, 0, 1]))]
    s += ["hole_write 1 1 %s" % g.name(), "hole_info 1 1 1 %d" % o()]
    s += ["biter_write 1 %s 3" % g.name(), "biter_read 1 %d" % o(), "ziter_write 1 1 %s" % g.name(), "ziter_read 1 1 %d" % o()]
    s += ["rigid_write 1 1 %s 2" % g.name(), "rigid_read 1 1 1 %d" % o(), "arb_write 1 1 %s 2" % g.name(), "arb_read 1 1 1 %d" % o()]
    s += ["subreg_bcname_write 1 1 %s 2 %s" % (g.name(), g.name()), "subreg_bcname_write 1 1 %s 2 %s" % (g.name(), g.text()),
          "subreg_info 1 1 1 %d" % o(), "subreg_bcname_read 1 1 1 %d" % o(), "subreg_bcname_read 1 1 2 %d" % o()]
    # node-context calls under the zone
    s += ["goto 1 Zone_t 1"]
    for _ in range(rng.randint(1, 3)):
        s.append("descriptor_write %s %s" % (g.name(), g.text()))
    s += ["ndescriptors", "descriptor_size 1", "descriptor_read 1 %d %d" % (o(), rng.choice([0, 5, 40, 300, 4000])),
          "descriptor_read 2 %d %d" % (o(), o()), "descriptor_size 7"]
    s += ["famname_write %s" % g.name(), "famname_read %d" % o(), "famname_write %s" % hx(rand_bytes(rng, rng.choice([40, 200, 659, 660, 661, 700]), 0.0)),
          "famname_read %d" % rng.choice([10, 40, 700]),
          "multifam_write %s %s" % (g.name(), g.name()), "multifam_write %s %s" % (g.name(maxcore=30), hx(rand_bytes(rng, rng.choice([50, 660, 700]), 0.0))),
          "nmultifam", "multifam_read 1 %d %d" % (o(), o()), "multifam_read 2 %d %d" % (o(), rng.choice([20, 700]))]
    ud = g.name(force="trail", maxcore=20)
    s += ["user_data_write %s" % g.name(), "user_data_write %s" % ud, "nuser_data", "user_data_read 1 %d" % o(), "user_data_read 2 %d" % o(),
          "ordinal_write %d" % rng.randint(0, 99), "ordinal_read", "get_error %d" % rng.choice([0, 10, 40, 200])]
    s += ["gorel UserDefinedData_t 1", "array_write %s 5" % g.name(), "array_write %s 7" % g.name(force="plain", maxcore=12), "array_read 1 5",
          "array_read 2 7", "gridlocation_write 2", "gridlocation_read", "dataclass_write 2", "dataclass_read", "units_write 2 2 2 2 2", "units_read"]
    s += ["goto 1 Zone_t 1", "link_write %s %s %s" % (g.name(force="plain", maxcore=20), "-", hx(b"/Base/Z2   ")),
          "link_write %s %s %s" % (g.name(), hx(b"other.cgns "), hx(b"/Base/Z9")), "delete_node %s" % ud, "delete_node %s" % g.name(), "nuser_data",
          "get_error %d" % rng.choice([5, 80, 200])]
    s += ["goto 1 Zone_t 1", "gorel FlowSolution_t 1", "rind_read", "gridlocation_read", "gorel end 0", "goto 1 Zone_t 7", "get_error 64"]
    # base level
    s += ["goto 1 end 0", "state_write %s" % g.text(), "state_size", "state_read %d" % rng.choice([0, 7, 40, 500, 4000]),
          "convergence_write 10 %s" % g.text(), "convergence_read %d" % rng.choice([0, 12, 40, 4000]),
          "integral_write %s" % g.name(), "integral_write %s" % g.name(), "integral_read 1 %d" % o(), "integral_read 2 %d" % o(),
          "dataclass_write 3", "dataclass_read", "equationset_write 3", "goto 1 FlowEquationSet_t 1",
          "model_write %s 2" % hx(b"GasModel_t"), "model_read %s" % hx(b"GasModel_t      "), "model_read %s" % hx(b"ViscosityModel_t"),
          "model_write %s 2" % g.name(), "model_read %s" % g.name()]
    s += ["close", "open m", "goto 1 Zone_t 1", "ndescriptors", "descriptor_read 1 %d %d" % (o(), o()), "nuser_data", "gorel UserDefinedData_t 2", "is_link",
          "link_read %d %d" % (rng.choice([0, 5, 40]), rng.choice([0, 4, 9, 40])), "goto 1 Zone_t 1", "gorel UserDefinedData_t 1", "is_link",
          "link_read 8 8", "boco_info 1 1 1 %d" % o(), "1to1_read_global 1 2", "close", "goto 1 Zone_t 1", "goto 1 end 0"]
    for k, v in g.stats["kind"].items():
        stats["kind"][k] = stats["kind"].get(k, 0) + v
    for k, v in g.stats["len"].items():
        stats["len"][str(k)] = stats["len"].get(str(k), 0) + v
    return s


def gen_cgio_script(rng, stats):
    g = NameGen(rng)
    o = g.olen
    s = ["io_open w %d" % rng.choice([0, 1, 7])]
    n = 0
    for _ in range(rng.randint(2, 4)):
        s.append("io_create 0 %s" % g.name()); n += 1
    s.append("io_new 0 %s %s %s %d" % (g.name(force="plain", maxcore=20), g.name(), hx(b"I4"), rng.randint(1, 20)))
    s.append("io_new 0 %s %s %s %d" % (g.name(), hx(b"Label_t   "), hx(rng.choice([b"I4", b"I4 ", b"I4xx", b"", b"  ", b"C1"])), rng.randint(1, 20)))
    s.append("io_new 1 %s %s %s 3" % (hx(b"kid  "), hx(b"Kid_t"), hx(b"I4")))
    for i in range(1, 7):
        s += ["io_get_name %d %d" % (i, o()), "io_get_label %d %d" % (i, o()), "io_get_data_type %d %d" % (i, rng.choice([0, 1, 2, 3, 8]))]
    s += ["io_set_name 0 1 %s" % g.name(), "io_set_name 0 2 %s" % g.name(), "io_set_label 1 %s" % g.name(), "io_set_label 2 %s" % g.name(),
          "io_get_name 1 %d" % o(), "io_get_label 1 %d" % o(), "io_get_label 2 %d" % o()]
    s += ["io_get_node_id 0 %s" % hx(b"kid"), "io_get_node_id 1 %s" % hx(b"kid     "), "io_get_node_id 0 %s" % g.name(),
          "io_error_message %d" % rng.choice([0, 10, 80, 100])]
    s += ["io_set_dims 1 %s %d" % (hx(b"I4  "), rng.randint(1, 30)), "io_get_dims 1", "io_write_all 1", "io_read_all 1 %s 30" % hx(b"I4"),
          "io_read_all 1 %s 30" % hx(b"I4   "), "io_set_dims 2 %s 4" % g.name(), "io_get_dims 2"]
    s += ["io_nchildren 0", "io_children_names 0 1 %d %d" % (rng.choice([1, 3, 10]), rng.choice([0, 1, 8, 32, 33, 40])),
          "io_children_names 0 2 %d %d" % (rng.choice([2, 10]), rng.choice([5, 32, 36]))]
    s += ["io_create_link 0 %s %s %s" % (g.name(force="plain", maxcore=20), "-", hx(b"/kid   ")),
          "io_create_link 0 %s %s %s" % (g.name(), hx(b"elsewhere.cgns  "), hx(rand_bytes(rng, rng.choice([5, 40, 300]), 0.0))),
          "io_create_link 0 %s %s %s" % (g.name(), hx(b" "), "-")]
    for i in range(7, 10):
        s += ["io_is_link %d" % i, "io_link_size %d" % i, "io_get_link %d %d %d" % (i, rng.choice([0, 4, 20, 40]), rng.choice([0, 3, 40, 400]))]
    s += ["io_library_version %d" % o(), "io_delete 0 3", "io_nchildren 0", "io_error_message 40", "io_close", "io_check_file %d" % rng.choice([0, 3])]
    for k, v in g.stats["kind"].items():
        stats["kind"][k] = stats["kind"].get(k, 0) + v
    return s


def run_pair(exe, script, work, tag, backend):
    """run the same script through the wrappers (f) and through direct C calls (c) on twin files"""
    res = {}
    for mode in ("f", "c"):
        d = os.path.join(work, mode)                  # same relative file names in twin directories: messages are comparable
        os.makedirs(d, exist_ok=True)
        n1, n2 = "%s_%s.cgns" % (tag, backend), "%s_%s_io.cgns" % (tag, backend)
        p1, p2 = os.path.join(d, n1), os.path.join(d, n2)
        for p in (p1, p2):
            if os.path.exists(p):
                os.unlink(p)
        lines, outcome = vlib.run_impl(exe, "\n".join(script) + "\n", args=[mode, n1, n2, backend], cwd=d, timeout=300)
        dumps = []
        for p in (p1, p2):
            if os.path.exists(p):
                dl, do = vlib.run_impl(exe, "", args=["dump", p], cwd=d)
                dumps.append([l for l in dl] + (["<dump outcome %s>" % do] if do != "ok" else []))
            else:
                dumps.append(["<no file>"])
        res[mode] = (lines, outcome, dumps)
    return res


KNOWN_DIVERGENCES = [
    # (key, predicate on (script line, wrapper line, direct line)) -- canonical keys of divergences listed as `known:` in
    # KNOWN_FINDINGS.txt.  Empty: the two divergences found while building this check (cg_1to1_read_global_f on a base
    # without interfaces, cg_goto_fc1 on a file that is not open) were repaired in /repo (f111087, 0fdcd3c); their
    # witnesses are in corpus/C20/ and a regression is an ordinary VIOLATION.
    # A third one (base with an Unstructured zone: cg_n1to1_global counts 0 but cg_1to1_read_global fails) was repaired
    # by 24ffd90; witness in corpus/C20/ as well.
]


def fail_class(detail):
    """coarse class of a failure, so that shrinking does not drift to a different failure"""
    if not detail:
        return None
    if "wrapper_run_outcome" in detail:
        return "outcome:" + detail["wrapper_run_outcome"].split("@")[0]
    if "op" in detail and detail.get("op"):
        return "line:" + detail["op"].split()[0]
    if "file" in detail:
        return "dump"
    return "other"


def known_divergence(op, w, d):
    for key, pred in KNOWN_DIVERGENCES:
        try:
            if op is not None and w is not None and d is not None and pred(op, w, d):
                return key
        except Exception:
            pass
    return None


def pair_fails(exe, script, work, tag, backend, known_out=None):
    """the property-level oracle: wrapper run == direct run (lines, outcome, file trees).  -> (fails, detail).
    A diverging line that matches a canonical known-divergence key is reported through known_out and skipped."""
    r = run_pair(exe, script, work, tag, backend)
    fl, fo, fd = r["f"]
    cl, co, cd = r["c"]
    if co != "ok":
        return None, {"reference_run_outcome": co, "last": cl[-2:]}          # the direct C run itself broke: not C20's business
    if fo != "ok":
        return True, {"wrapper_run_outcome": fo, "after": fl[-2:], "next_op": script[len(fl)] if len(fl) < len(script) else None}
    for i in range(max(len(fl), len(cl))):
        w = fl[i] if i < len(fl) else None
        d = cl[i] if i < len(cl) else None
        if w != d:
            op = script[i] if i < len(script) else None
            key = known_divergence(op, w, d)
            if key:
                if known_out is not None:
                    known_out.setdefault(key, {"backend": backend, "script": script[:i + 1], "op": op, "wrapper": w, "direct": d})
                continue
            return True, {"line": i, "op": op, "wrapper": w, "direct": d}
    for k in range(2):
        d = vlib.first_divergence(fd[k], cd[k])
        if d:
            return True, {"file": k, "dump_line": d[0], "wrapper_file": d[1], "direct_file": d[2]}
    return False, None


# ------------------------------------------------------------------ generated driver: every wrapper, long strings
def gen_smoke_source(rows, path):
    """C source calling every compiled wrapper (except the three that terminate the process) with scratch
    arguments by reference and character arguments of a given length; no file is open, so every C function
    returns its error status -- what is exercised is the argument marshalling and the string conversion."""
    skip = {"cg_error_exit_f", "cgio_error_exit_f", "cg_exit_on_error_f", "cg_configure_c_ptr", "cg_configure_c_funptr"}
    out = ['#include "cg_ftoc.c"', '#include "cgio_ftoc.c"', "#include <stdio.h>",
           "static long long scratch[16][64]; static char *S[8]; static size_t L;",
           "static void mk(int k, int len, int kind) { int i; S[k] = (char *)malloc(len ? len : 1);",
           "  for (i = 0; i < len; i++) S[k][i] = kind == 1 ? ' ' : (kind == 2 && i >= len / 2) ? ' ' : (char)('A' + (i + k) % 26); }",
           "int main(int argc, char **argv) { int want = atoi(argv[1]), len = atoi(argv[2]), kind = atoi(argv[3]), k; L = (size_t)len;",
           "  for (k = 0; k < 8; k++) mk(k, len, kind);", "  memset(scratch, 0, sizeof scratch);", "  switch (want) {"]
    names = []
    for f, r, u in rows:
        if not r or r["name"] in skip:
            continue
        args, si, pi = [], 0, 0
        for ty, pn in zip(r["ptys"], r["pnames"]):
            if ty == "TFStr":
                args.append("S[%d]" % si); si += 1
            elif ty == "THidden":
                args.append("L")
            elif ty == "TStr":
                args.append('"Zone_t"')
            elif ty in ("TInt",):
                args.append("0")
            else:
                args.append("(void *)scratch[%d]" % (pi % 16)); pi += 1
        if si > 8:
            continue
        out.append("  case %d: %s(%s); break;" % (len(names), r["sym"], ", ".join(args)))
        names.append(r["name"])
    out += ["  default: return 3; }", '  printf("done %d\\n", want);', "  return 0; }"]
    txt = "\n".join(out) + "\n"
    if not os.path.exists(path) or open(path).read() != txt:
        open(path, "w").write(txt)
    return names


# ------------------------------------------------------------------ the check
def coq_bad_rows(work):
    """ask the kernel which rows of the regenerated table fail row_ok (for the report and the search)"""
    p = os.path.join(work, "c20_bad.v")
    open(p, "w").write("From Coq Require Import List String.\nFrom CgnsV Require Import Ftoc Gen_C20.\n"
                       "Eval vm_compute in (bad_rows table).\n"
                       "Eval vm_compute in (map (fun r => match r with Wrapper w => (buffers_ok w, call_ok w, args_ok w, hidden_ok w) | _ => (false,false,false,false) end) (filter (fun r => negb (row_ok r)) table)).\n")
    with vlib.Lock("coq"):
        rc, out = vlib.sh(["timeout", "600", "coqc", "-Q", vlib.COQ, "CgnsV", "-w", vlib.COQ_WARN, p], cwd=work)
    if rc != 0:
        return None, out[-800:]
    names = re.findall(r'"([^"]+)"%string', out.split(": list string")[0])
    flags = re.findall(r"\((true|false), (true|false), (true|false), (true|false)\)", out)
    what = []
    for fl in flags:
        what.append([n for n, v in zip(("buffers", "call", "args", "hidden"), fl) if v == "false"])
    return list(zip(names, what + [[]] * (len(names) - len(what)))), None


def run(ck):
    big = ck.tier == "thorough"
    vlib.build_impl()
    info, rows = c20_ftoc.write_gen(repo=vlib.REPO, impl=vlib.IMPL)
    hs = vlib.build_harness("c20_str", ["c20_str.c"])
    hw = vlib.build_harness("c20_wrap", ["c20_wrap.c"])
    os.makedirs(os.path.join(vlib.HDIR, "gen"), exist_ok=True)
    smoke_src = os.path.join(vlib.HDIR, "gen", "c20_smoke.c")
    smoke_names = gen_smoke_source(rows, smoke_src)
    hk = vlib.build_harness("c20_smoke", [smoke_src])
    res = vlib.coq_check_properties("C20")
    broken = ck.proof_result(res, CHECKER)
    forb = [h for h in vlib.coq_forbidden_scan() if re.match(r"(Ftoc|FtocProofs|Properties_C20|Extract_c20|Gen_C20)\.v", h)]
    ck.extra["forbidden_tokens"] = forb
    if forb:
        ck.violation({"broken_obligation": "forbidden tokens in the C20 Coq files", "hits": forb}, nofail=True)
    vlib.build_modelrun("c20")
    ck.extra["translator"] = {k: info[k] for k in ("files", "parsed", "unparsed", "not_compiled", "gen_sha1")}
    ck.extra["translator"]["rows"] = len(rows)
    bad, err = coq_bad_rows(ck.work)
    ck.extra["rows_failing_row_ok"] = bad if bad is not None else "could not be evaluated: %s" % err
    known_static = {"cg_bcdataset_info_f"}
    ck.extra["static_findings"] = [{"key": "wrapper:%s:%s" % (n, "+".join(w) or "?"), "listed_in": "Ftoc.known_rows"} for n, w in (bad or [])
                                   if n in known_static]
    new_bad = [(n, w) for n, w in (bad or []) if n not in known_static]
    ck.cov["trusted_base"] = [
        "Coq 8.16.1 kernel + vm_compute (no native_compute)",
        "translators/c20_ftoc.py (cc -E of the two files with the build's flags, tokenizer, statement walker) -- cross-checked by "
        "the correspondence runs and by the generated all-wrapper driver built from the same rows",
        "the specification-side tables of coq/Ftoc.v: aliases, void_targets, allowed_pre, out_max, known_rows, compat",
        "extraction: ExtrOcamlBasic only; OCaml 4.13.1; ocaml/zutil.ml, ocaml/eng_c20.ml",
        "harness/c20_str.c and harness/c20_wrap.c (the reference conversions eqv/fref, the cgio tree dump), this generator, ASan/UBSan",
        "gcc's size_t hidden-length convention (fortran_macros.h, __GNUC__ > 7) stands in for the Fortran compiler",
    ]
    ck.assumptions = ["64-bit build, cgint_f = int, hidden lengths are size_t appended in parameter order",
                      "0 <= hidden length < 2^31 (the theorems' hypothesis; to_int32 models the wrap beyond)",
                      "the C string handed to string_2_F_string is NUL-terminated", "malloc never fails",
                      "the Fortran module cgns_f.F90 and the cgp_* wrappers (CG_BUILD_PARALLEL=0) are not compiled here and are not covered"]
    ck.cov["rule"] = ("helpers: every (flen, max_len) and (strlen, flen) pair in 0..41 (thorough 0..44, three fill patterns) plus negative and "
                      "wrapped lengths, model vs static C function vs Python reference; wrappers: seeded scenarios (MLL + cgio) in Fortran "
                      "convention vs direct C calls on twin files, ADF and HDF5, string kinds plain/trailing blanks/over-long/blank-only/empty/"
                      "inner blank/leading blank, output lengths 0..64; all-wrapper driver: every compiled wrapper x string lengths "
                      "{0,1,31,32,33,40,100,5000} x {non-blank, blank-only, half blank}. non-trivial = a helper case that truncates or "
                      "pads (value length != limit), a scenario line whose string is over-long or blank-only or whose output length is "
                      "< 32; distinct by SHA1 of the line")
    corr_broken = []
    dist = {"helper_ops": 0, "scenarios": 0, "scenario_lines": 0, "name_kinds": {}, "name_lengths": {}, "smoke_calls": 0}

    # ---- (1) string helpers: model vs implementation vs reference
    ops, exp = gen_helper_script(ck.rng, big)
    text = "\n".join(ops) + "\n"
    ml = vlib.run_model("c20", text)
    il, outcome = vlib.run_impl(hs, text, timeout=600)
    dist["helper_ops"] = len(ops)
    for i, op in enumerate(ops):
        t = op.split()
        nontriv = None
        if t[0] in ("toc", "s2c") and int(t[2]) != int(t[3]):
            nontriv = hashlib.sha1(op.encode()).hexdigest()
        elif t[0] in ("tof", "s2f") and (len(t[1]) // 2 - 1) != int(t[2]):
            nontriv = hashlib.sha1(op.encode()).hexdigest()
        ck.case(nontriv, sample={"level": "helper", "op": op, "impl": il[i] if i < len(il) else None} if i in (7, len(ops) // 2) else None)
    ck.cov["traces_validated_against_impl"] += len(ops)
    if outcome != "ok" or il != exp:
        d = vlib.first_divergence(il, exp)
        ck.violation({"level": "helper", "oracle": "python reference of the documented conversion (trailing blanks removed, cut to the limit, NUL / blank padding, nothing else touched)",
                      "outcome": outcome, "op": ops[d[0]] if d and d[0] < len(ops) else None,
                      "observed": d[1] if d else None, "expected": d[2] if d else None,
                      "replay_script": [ops[d[0]]] if d and d[0] < len(ops) else ops[:1], "engine": "c20_str"})
    elif ml != il:
        d = vlib.first_divergence(ml, il)
        corr_broken.append({"level": "helper", "op": ops[d[0]] if d[0] < len(ops) else None, "model": d[1], "impl": d[2]})

    # ---- (2) wrappers vs direct calls
    nsc = 6 if big else 2
    known_seen = {}
    stats = {"kind": {}, "len": {}}
    found_fail = False
    # minimized past failures first
    cdir = os.path.join(vlib.ROOT, "corpus", "C20")
    corpus = []
    if os.path.isdir(cdir):
        for fn_ in sorted(os.listdir(cdir)):
            if fn_.endswith(".script"):
                corpus.append((fn_, [l.strip() for l in open(os.path.join(cdir, fn_)) if l.strip() and not l.startswith("#")]))
    for fn_, script in corpus:
        for backend in ("adf", "hdf5"):
            fails, detail = pair_fails(hw, script, ck.work, "corpus", backend, known_out=known_seen)
            dist["scenarios"] += 1
            dist["scenario_lines"] += len(script)
            ck.cov["traces_validated_against_impl"] += 1
            for l in script:
                ck.case(hashlib.sha1((backend + l).encode()).hexdigest(), sample=None)
            if fails and not found_fail:
                ck.violation({"level": "wrapper", "backend": backend, "kind": "corpus:" + fn_, "script": script, "detail": detail,
                              "oracle": "wrapper call in Fortran convention == direct C call with the equivalent arguments (status, outputs, file tree); ASan/UBSan"})
                found_fail = True
    dist["corpus_scripts"] = len(corpus)
    for j in range(nsc if not found_fail else 0):
        for backend in ("adf", "hdf5"):
            for kind, gen in (("mll", gen_mll_script), ("cgio", gen_cgio_script)):
                script = gen(ck.rng, stats)
                fails, detail = pair_fails(hw, script, ck.work, "s%d_%s" % (j, kind), backend, known_out=known_seen)
                dist["scenarios"] += 1
                dist["scenario_lines"] += len(script)
                for l in script:
                    t = l.split()
                    nt = None
                    for a in t[1:]:
                        if re.fullmatch(r"([0-9a-f]{2})+", a) and len(a) > 6:
                            b = bytes.fromhex(a)
                            if len(b.rstrip(b" ")) > 32 or not b.strip(b" "):
                                nt = 1
                    if t[0].endswith(("_read", "_info", "get_name", "get_label")) and t[-1].isdigit() and int(t[-1]) < 32:
                        nt = 1
                    ck.case(hashlib.sha1((backend + l).encode()).hexdigest() if nt else None,
                            sample={"level": "wrapper", "backend": backend, "line": l} if (nt and len(ck.cov["samples"]) < 5) else None)
                ck.cov["traces_validated_against_impl"] += 1
                if fails is None:
                    ck.extra.setdefault("reference_run_problems", []).append({"backend": backend, "kind": kind, "detail": detail})
                    continue
                if fails:
                    cls = fail_class(detail)
                    def f(sub, backend=backend, cls=cls):
                        fl_, d_ = pair_fails(hw, sub, ck.work, "shrink", backend, known_out={})
                        return fl_ is True and fail_class(d_) == cls
                    small = vlib.ddmin(script, f, max_tests=120)
                    _, d2 = pair_fails(hw, small, ck.work, "shrink", backend, known_out={})
                    ck.violation({"level": "wrapper", "backend": backend, "kind": kind, "script": small, "detail": d2 or detail,
                                  "oracle": "wrapper call in Fortran convention == direct C call with the equivalent arguments (status, outputs, file tree); ASan/UBSan",
                                  "replay_hint": ".build/h/c20_wrap f|c <file> <file2> " + backend})
                    found_fail = True
                    break
            if found_fail:
                break
        if found_fail:
            break
    dist["name_kinds"], dist["name_lengths"] = stats["kind"], stats["len"]
    for key, wit in sorted(known_seen.items()):
        # a concrete input on which wrapper != C function: KNOWN-FINDING if the key is listed, else VIOLATION
        def f(sub, backend=wit["backend"], key=key):
            ko = {}
            pair_fails(hw, sub, ck.work, "shrinkk", backend, known_out=ko)
            return key in ko
        small = vlib.ddmin(wit["script"], f, max_tests=80)
        ck.finding(key, {"level": "wrapper", "backend": wit["backend"], "script": small, "detail": {k: wit[k] for k in ("op", "wrapper", "direct")},
                         "oracle": "wrapper call in Fortran convention == direct C call with the equivalent arguments"})

    # ---- (3) every compiled wrapper with over-long / blank / empty strings (argument marshalling under ASan)
    lens = [0, 1, 31, 32, 33, 40, 100, 5000] if big else [0, 32, 33, 100, 5000]
    kinds = [0, 1, 2] if big else [0, 2]
    smoke_fail = None
    with_str = [i for i, n in enumerate(smoke_names) if any(r and r["name"] == n and r["strparams"] for _, r, _ in rows)]
    without = [i for i in range(len(smoke_names)) if i not in set(with_str)]
    plan = [(i, L, k) for i in with_str for L in lens for k in kinds] + [(i, 8, 0) for i in without]
    for i, L, k in plan:
        lines, outcome = vlib.run_impl(hk, "", args=[str(i), str(L), str(k)], cwd=ck.work, timeout=60)
        dist["smoke_calls"] += 1
        ck.cov["evaluations"] += 1
        if outcome != "ok":
            smoke_fail = {"level": "smoke", "wrapper": smoke_names[i], "string_length": L, "string_kind": ["non-blank", "blank", "half-blank"][k],
                          "outcome": outcome, "oracle": "ASan/UBSan: no memory error while marshalling Fortran-convention arguments",
                          "replay_hint": ".build/h/c20_smoke %d %d %d" % (i, L, k)}
            break
    if smoke_fail and not ck.violations:
        ck.violation(smoke_fail)
    ck.extra["smoke_wrappers"] = len(smoke_names)

    # ---- verdict logic: something broke without a failing input so far -> widen, then report
    if (corr_broken or broken or new_bad) and not ck.violations:
        found = False
        stats2 = {"kind": {}, "len": {}}
        for j in range(8 if not big else 16):
            for backend in ("adf", "hdf5"):
                for kind, gen in (("mll", gen_mll_script), ("cgio", gen_cgio_script)):
                    script = gen(ck.rng, stats2)
                    fails, detail = pair_fails(hw, script, ck.work, "w%d_%s" % (j, kind), backend, known_out={})
                    ck.cov["evaluations"] += len(script)
                    if fails:
                        cls = fail_class(detail)
                        def f(sub, backend=backend, cls=cls):
                            fl_, d_ = pair_fails(hw, sub, ck.work, "shrink", backend, known_out={})
                            return fl_ is True and fail_class(d_) == cls
                        small = vlib.ddmin(script, f, max_tests=120)
                        _, d2 = pair_fails(hw, small, ck.work, "shrink", backend, known_out={})
                        ck.violation({"level": "wrapper", "backend": backend, "kind": kind, "script": small, "detail": d2 or detail,
                                      "found_by": "widened search", "broken_obligations": broken, "rows_failing_row_ok": new_bad})
                        found = True
                        break
                if found:
                    break
            if found:
                break
        if not found:
            ck.violation({"broken_obligations": broken, "rows_failing_row_ok": new_bad, "broken_correspondence": corr_broken[:2],
                          "note": "an obligation over the regenerated wrapper table no longer checks (or model and implementation differ) but "
                                  "every scenario explored still satisfies wrapper == direct call, and no sanitizer report was produced"},
                         nofail=True)
    ck.extra["input_distribution"] = dist
    # second layer: the Fortran side itself (module cgns_f.F90 built with gfortran-12, Fortran driver programs, interface
    # table vs the C definitions) -- checks/C20f.py, notes/C20f.md
    from checks import C20f
    C20f.run_extra(ck)


def replay(ck, path):
    r = json.load(open(path))
    if r.get("level") in ("fortran", "link", "fortran-build", "fortran-compile"):
        from checks import C20f
        return C20f.replay(ck, path)
    vlib.build_impl()
    if r.get("level") == "wrapper" and "script" in r:
        hw = vlib.build_harness("c20_wrap", ["c20_wrap.c"])
        ko = {}
        fails, d = pair_fails(hw, r["script"], ck.work, "replay", r["backend"], known_out=ko)
        if ko and not fails:
            fails, d = True, {k: {x: v[x] for x in ("op", "wrapper", "direct")} for k, v in ko.items()}
    elif r.get("level") == "helper":
        hs = vlib.build_harness("c20_str", ["c20_str.c"])
        il, outcome = vlib.run_impl(hs, "\n".join(r["replay_script"]) + "\n")
        fails, d = (outcome != "ok" or il[:1] != [r.get("expected")]), {"observed": il[:1], "expected": r.get("expected"), "outcome": outcome}
    elif r.get("level") == "smoke":
        info, rows = c20_ftoc.write_gen(repo=vlib.REPO, impl=vlib.IMPL)
        os.makedirs(os.path.join(vlib.HDIR, "gen"), exist_ok=True)
        src = os.path.join(vlib.HDIR, "gen", "c20_smoke.c")
        names = gen_smoke_source(rows, src)
        hk = vlib.build_harness("c20_smoke", [src])
        i = names.index(r["wrapper"])
        k = ["non-blank", "blank", "half-blank"].index(r["string_kind"])
        lines, outcome = vlib.run_impl(hk, "", args=[str(i), str(r["string_length"]), str(k)], cwd=ck.work)
        fails, d = outcome != "ok", {"outcome": outcome}
    else:
        print("replay names a broken obligation/correspondence, no input to run:", json.dumps(r)[:800]); return 1
    print("replay: property C20 on this input: %s %s" % ("FAILS" if fails else "holds", json.dumps(d)))
    return 1 if fails else 0
