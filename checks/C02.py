"""C02 -- the node database always answers from the latest written state.

Spec      : coq/TreeDB.v, the ideal node database (a table of records; no blocks, caches, chunk tables).
Proofs    : coq/TreeDBProofs.v / Properties_C02.v -- laws of the ideal tree every query result is judged against
            (read-after-write and frame for all three write forms, delete / move / rename leave the rest of the
            tree alone, a close/reopen is the identity, files are independent).
Tie       : the property IS a refinement statement, so the correspondence run is also the property's verdict: the
            same random histories run on the real cgio layer (ADF and HDF5, library rebuilt from /repo, ASan/UBSan)
            and on the extracted TreeDB; every query answer is compared, immediately and after close + reopen.
"""
import hashlib, json, os
import vlib
from checks import nodedb

CHECKER = "make -C coq Properties_C02.vo (coqc 8.16.1 kernel); coqc Properties_C02.v (Print Assumptions)"


def profile(i):
    """(files, nops, big, wide) per case index: single file, several files together, large payloads, wide parents
    (more than 50 distinct node headers between two visits)"""
    k = i % 8
    if k in (0, 1, 2):
        return (1,), 70, False, False
    if k == 3:
        return (1, 2), 90, False, False
    if k == 4:
        return (1,), 50, True, False
    if k == 5:
        return (1,), 140, False, True
    if k == 6:
        return (1, 2, 3), 100, False, False
    return (1,), 110, True, False


def run(ck, pid="C02"):
    thorough = ck.tier == "thorough"
    vlib.build_impl()
    exe = vlib.build_harness("cgio_h", ["cgio_h.c"])
    vlib.build_modelrun("c02")
    res = vlib.coq_check_properties(pid)
    broken = ck.proof_result(res, CHECKER)
    forb = vlib.coq_forbidden_scan(pid)
    ck.extra["forbidden_tokens"] = forb
    if forb:
        ck.violation({"broken_obligation": "forbidden tokens", "hits": forb}, nofail=True)
    ck.cov["trusted_base"] = [
        "Coq 8.16.1 kernel + vm_compute", "extraction (ExtrOcamlBasic only), OCaml 4.13.1, ocaml/zutil.ml + eng_c02.ml",
        "harness/cgio_h.c (uid -> cgio id bookkeeping, re-resolution of ids by path after reopen), checks/nodedb.py (generator, comparator)",
        "TreeDB.v as the meaning of 'ideal in-memory tree' (child order after a rename is a per-back-end policy parameter)"]
    ck.assumptions = ["names within the documented common subset (1..32 printable, no '/', no leading blank, not '.')",
                      "bytes of a node never written since it was dimensioned are unspecified (wildcard)",
                      "ADF free-space management, data-chunk tables and all of libhdf5 are tied by this differential run only"]
    ck.cov["rule"] = ("seeded histories of create/delete/move/rename/relabel/re-dimension/full+strided+block write and all queries "
                      "over 1-3 files open together, payloads on both sides of 4096 / 246 / 100000 bytes, arrays re-dimensioned after "
                      "first being written, wide parents; each run on ADF, HDF5 and the extracted TreeDB, then reopened read-only and "
                      "read back completely. non-trivial = contains a delete, a reopen and a payload above 4096 bytes; distinct by SHA1")
    n = 260 if thorough else 70
    dist = {"ops": {}, "files": {}, "histories": 0, "lines": 0}
    fails = []
    # fixed witnesses of the defects whose triggers nodedb keeps out of the random histories while they are listed
    for key, wl in sorted(nodedb.WITNESSES.items()):
        r = nodedb.run_three(wl, ck.work, "wit", exe)
        f = {be: nodedb.refinement_failure(r[be]) for be in ("adf", "hdf5")}
        ck.cov["traces_validated_against_impl"] += 2
        if f["adf"] or f["hdf5"]:
            ck.finding(key, {"script": wl, "failure": {k: v for k, v in f.items() if v}, "oracle": "TreeDB (ideal node database), extracted from Coq"})
    nwide = 12 if thorough else 4
    for i in range(n + nwide):
        files, nops, big, wide = profile(i)
        if thorough and i % 10 == 9:
            nops *= 3
        if i >= n and (i - n) % 2 == 1:
            files, h = (1,), nodedb.gen_wrong_parent(ck.rng)     # delete / rename / move with a parent that is not the parent
            dist["wrong_parent_histories"] = dist.get("wrong_parent_histories", 0) + 1
        elif i >= n:
            files, h = (1,), nodedb.gen_wide_rename(ck.rng)      # renames in a parent whose child table spans disk blocks
            dist["wide_rename_histories"] = dist.get("wide_rename_histories", 0) + 1
        else:
            h = nodedb.gen_history(ck.rng, nops, files=files, big=big, wide=wide)
        r = nodedb.run_three(h, ck.work, "h%d" % i, exe)
        dist["histories"] += 1; dist["lines"] += len(h)
        dist["files"][str(len(files))] = dist["files"].get(str(len(files)), 0) + 1
        for l in h:
            o = l.split(" ")[0]; dist["ops"][o] = dist["ops"].get(o, 0) + 1
        nontriv = any(l.startswith("delete") for l in h) and sum(l.startswith("reopen") for l in h) > len(files) and \
            any(l.startswith("wall") and len(l) > 8300 for l in h)
        ck.case(hashlib.sha1("\n".join(h).encode()).hexdigest() if nontriv else None,
                sample={"files": len(files), "ops": [nodedb.short(x, 90) for x in h[:8]] + ["..."]})
        for be in ("adf", "hdf5"):
            ck.cov["traces_validated_against_impl"] += 1
            if nodedb.is_libhdf5_name_replace(r[be]):
                ck.finding(nodedb.LIBHDF5_KEY, {"backend": be, "outcome": r[be]["outcome"], "stack": r[be]["stack"]})
                continue
            f = nodedb.refinement_failure(r[be])
            if f:
                fails.append((be, h, f))
        if len(fails) >= 2:
            break
    for be, h, f in fails[:2]:
        def still(lines, be=be):
            rr = nodedb.run_three(lines, ck.work, "shrink", exe)
            return (not nodedb.is_libhdf5_name_replace(rr[be])) and nodedb.refinement_failure(rr[be]) is not None
        small = vlib.ddmin(h, still, max_tests=150)
        rr = nodedb.run_three(small, ck.work, "final", exe)
        ck.violation({"backend": be, "script": [nodedb.short(x, 400) for x in small], "full_script_sha1": hashlib.sha1("\n".join(small).encode()).hexdigest(),
                      "script_full": small if sum(map(len, small)) < 200000 else None,
                      "failure": nodedb.refinement_failure(rr[be]) or f, "oracle": "TreeDB (ideal node database), extracted from Coq"})
    if broken and not ck.violations:
        ck.violation({"broken_obligations": broken, "note": "a law of the ideal tree no longer checks; no history explored diverges"}, nofail=True)
    ck.extra["input_distribution"] = dist
    move_child_tie(ck, exe, broken)
    # second layer: theorems about the concrete ADF mechanisms (block buffers, priority stack, sub-node tables) tied by
    # replaying real traces obtained through the CGNS_VERIF hooks (checks/C02b.py, notes/C02b.md)
    if pid == "C02":
        from checks import C02b
        ck.layer = "C02b"
        C02b.run_extra(ck)
        # third layer: data chunks and chunk tables of ADF (AdfChunks.v): the byte store refines a plain array for every
        # history of sized writes, dimension changes, full / block / strided transfers (checks/C02c.py, notes/C02c.md)
        from checks import C02c
        ck.layer = "C02c"
        C02c.run_extra(ck)
        # fourth layer: the ADF free-space manager (AdfAlloc.v): every real ADFI_file_malloc / ADFI_file_free replayed
        # through the extracted model, free lists decoded from the file, file-walk oracle (checks/C02d.py, notes/C02d.md)
        from checks import C02d
        ck.layer = "C02d"
        C02d.run_extra(ck)
        ck.layer = None


MOVE_MARKERS = [      # the steps of ADF_Move_Child that coq/AdfMove.v transcribes, in this order
    "ADFI_check_4_child_name(file_index,&parent,child_name,&found,&sub_node_entry_location,&sub_node_entry,error_return);",
    "if((found==0)||(sub_node_entry.child_location.block!=child.block)||(sub_node_entry.child_location.offset!=child.offset)){*error_return=CHILD_NOT_OF_GIVEN_PARENT;",
    "ADFI_check_4_child_name(file_index,&new_parent,child_name,&found,&sub_node_entry_location,&sub_node_entry,error_return);",
    "if(found==1){*error_return=DUPLICATE_CHILD_NAME;",
    "ADFI_add_2_sub_node_table(file_index,&new_parent,&child,error_return);",
    "ADFI_delete_from_sub_node_table(file_index,&parent,&child,error_return);",
]


def move_child_tie(ck, exe, broken):
    """AdfMove.v (C02_move_child_atomic / _ok_spec / _old_refuted in Properties_C02b.v) is a hand transcription of
    ADF_Move_Child: (1) its steps are looked for, in order, in the function's text in /repo; (2) the kernel-checked witness of
    the old code (a wrong parent that has a child of the node's name) and a valid move run on both back ends against TreeDB"""
    import re
    src = open(os.path.join(vlib.REPO, "src", "adf", "ADF_interface.c"), errors="replace").read()
    m = re.search(r"^void\s+ADF_Move_Child\(.*?^\} /\* end of ADF_Move_Child \*/", src, re.M | re.S)
    body = re.sub(r"/\*.*?\*/", "", m.group(0), flags=re.S) if m else ""
    body = re.sub(r"\s+", "", body)
    pos, missing = 0, []
    for mk in MOVE_MARKERS:
        k = body.find(mk, pos)
        if k < 0:
            missing.append(mk)
        else:
            pos = k + len(mk)
    # only CHECK_ADF_ABORT may stand between the steps' effects: no other table writer
    writers = [w for w in re.findall(r"ADFI_(?:add_2|delete_from|write)\w*", body)]
    shape_ok = bool(m) and not missing and writers == ["ADFI_add_2_sub_node_table", "ADFI_delete_from_sub_node_table", "ADFI_write_modification_date"]
    hx = nodedb.hx
    wit = ["file 1 F1.cgns BE w", "create 1 0 1 %s" % hx(b"A"), "create 1 0 2 %s" % hx(b"B"), "create 1 1 3 %s" % hx(b"x"),
           "create 1 2 4 %s" % hx(b"x"), "label 1 4 %s" % hx(b"Other_t"),
           "move 1 2 3 0",                                   # the witness of C02_move_child_old_refuted
           "names 1 0 1 4", "names 1 1 1 3", "names 1 2 1 3", "lookup 1 0 %s" % hx(b"/A/x"), "lookup 1 0 %s" % hx(b"/B/x"),
           "move 1 1 3 2",                                   # duplicate name under the new parent
           "names 1 1 1 3", "names 1 2 1 3",
           "move 1 1 3 0",                                   # the valid call
           "names 1 0 1 4", "names 1 1 1 3", "lookup 1 0 %s" % hx(b"/x"),
           "reopen 1 r", "names 1 0 1 4", "names 1 1 1 3", "names 1 2 1 3", "lookup 1 0 %s" % hx(b"/x"), "closef 1"]
    r = nodedb.run_three(wit, ck.work, "movewit", exe)
    fails = {be: nodedb.refinement_failure(r[be]) for be in ("adf", "hdf5")}
    ck.cov["traces_validated_against_impl"] += 2
    ck.case("move-child-witness", sample={"script": [nodedb.short(x, 60) for x in wit[:8]] + ["..."]})
    ck.extra["move_child_tie"] = {"function_found": bool(m), "steps_missing": missing, "table_writers_in_order": writers,
                                  "shape_ok": shape_ok, "witness_failures": {k: v for k, v in fails.items() if v}}
    for be, f in fails.items():
        if f:
            ck.violation({"backend": be, "script": wit, "script_full": wit, "failure": f,
                          "oracle": "TreeDB (ideal node database), extracted from Coq; witness of C02_move_child_old_refuted"})
    if not shape_ok and not any(fails.values()) and not ck.violations:
        ck.violation({"broken_obligation": "ADF_Move_Child no longer has the steps coq/AdfMove.v transcribes",
                      "steps_missing": missing, "table_writers_in_order": writers,
                      "theorems_no_longer_about_the_code": ["C02_move_child_atomic", "C02_move_child_ok_spec"],
                      "note": "the witness history and the wrong-parent histories of this run show no failing input"}, nofail=True)


def replay(ck, path):
    r = json.load(open(path))
    if r.get("layer") == "C02c":
        from checks import C02c
        return C02c.replay(ck, path)
    if r.get("layer") == "C02d":
        from checks import C02d
        return C02d.replay(ck, path)
    if r.get("layer") == "C02b" or r.get("mode") in ("unit", "api") or "broken_correspondence" in r:
        from checks import C02b
        return C02b.replay(ck, path)
    vlib.build_impl(); exe = vlib.build_harness("cgio_h", ["cgio_h.c"]); vlib.build_modelrun("c02")
    script = r.get("script_full") or r.get("script")
    if not script:
        print("replay names a broken obligation, no input to run"); return 1
    rr = nodedb.run_three(script, ck.work, "replay", exe)
    f = nodedb.refinement_failure(rr[r["backend"]])
    print("replay: %s" % (json.dumps(f) if f else "holds"))
    return 1 if f else 0
