"""C02d -- fourth layer of C02: the ADF on-disk FREE-SPACE MANAGER (ADFI_file_malloc / ADFI_file_free, end_of_file, the
free-chunk table and its three linked lists, 'z' dead space) -- the part of ADF that decides where every node header,
sub-node table, data chunk and data-chunk table lives in the file.

Model    : coq/AdfAlloc.v.  The allocator AS COMPILED: the free-list search of ADFI_file_malloc is inside "#if 0", so
           malloc = growth at end_of_file + the block-boundary rule (which frees the rest of the block), free = class
           decision + push at the head of a list (+ last-pointer rule) or 'z' fill; nothing is ever taken off a list.
           (The disabled search is transcribed as malloc_search; not tied, see notes/C02d.md.)
Proofs   : coq/Properties_C02d.v (all histories, induction): no overlap, free lists well formed, conservation of bytes,
           malloc total + block rule, free space exactly accounted (push-only lists), *_refuted characterisations.
Tie      : with the CGNS_VERIF hook of /repo 18501cc every real ADFI_file_malloc / ADFI_file_free call made by seeded
           cgio histories (harness/c02d_alloc.c) is replayed through the extracted model (ocaml/eng_c02d.ml): returned
           positions, the block-rule free made on the way, and -- after every script line that touched the allocator --
           end_of_file and the three lists DECODED FROM THE FILE BYTES by the harness must equal the model's; after each
           reopen what the LIBRARY reads (ADFI_read_file_header / ADFI_read_free_chunk_table) must equal them too.  The
           hypothesis of the theorems (a free hands back a live allocation with exactly its size) is evaluated at every
           real free.
Oracle   : model independent, in this file: snapshots of the file are walked in Python from the root (node headers,
           sub-node tables, data-chunk tables, data chunks, boundary tags) and along the three free lists: everything must
           be pairwise disjoint and below end_of_file, free chunks 'x' filled; every node's data must read back through the
           API as a plain Python dictionary says; the model's live set must be exactly what is reachable, its dead
           ranges 'z'.
Without the hook (library older than 18501cc) only the oracle runs (said so in the evidence).

run_extra(ck) is to be called from checks/C02.py; run(ck) / replay(ck, path) let `./check C02d` work on its own."""
import hashlib, json, os, struct, sys
import vlib
from checks import nodedb

CHECKER = "make -C coq Properties_C02d.vo (coqc 8.16.1 kernel); coqc Properties_C02d.v (Print Assumptions)"
BLK, HDR = 4096, 512

KEY_OVERLAP = "adf-alloc-structures-overlap"
KEY_STRUCT = "adf-alloc-structure-damaged"
KEY_READBACK = "adf-alloc-data-not-read-back"
KEY_FREED = "adf-alloc-reachable-structure-was-freed"
KEY_NOTLIVE = "adf-free-of-a-range-that-is-not-an-allocation"
OPTIONAL = ("shrunk-chunk", "short-chunk-on-large-list")     # witnesses of a caller defect: reported when present, not demanded

_Base = vlib.Check


class _Check(_Base):
    """standalone runs use the C02 lines of KNOWN_FINDINGS.txt as well (the layer belongs to C02)"""
    def __init__(self, pid, tier, seed):
        _Base.__init__(self, pid, tier, seed)
        if pid == "C02d":
            k2, f2 = vlib.load_known("C02")
            self.known += k2; self.fixed += f2


if len(sys.argv) > 1 and sys.argv[1] == "C02d":
    vlib.Check = _Check


def build_harness():
    """configure-style test: does the library carry the ADFI_VT_MALLOC / ADFI_VT_FREE op codes?"""
    try:
        return vlib.build_harness("c02d_alloc_hook", ["c02d_alloc.c"], extra=["-DC02D_HAVE_HOOK"]), True
    except vlib.Infra:
        return vlib.build_harness("c02d_alloc", ["c02d_alloc.c"]), False


# ----------------------------------------------------------------------------- the oracle: walking a snapshot
def _ptr(b, a):
    blk, off = struct.unpack_from("<QI", b, a)
    return None if (blk == 0 and off == BLK) else blk * BLK + off


def _hex(b, a, n):
    try:
        return int(b[a:a + n].decode("ascii"), 16)
    except (ValueError, UnicodeDecodeError):
        return None


def walk(b):
    """-> dict(eof, regions=[(start, bytes, kind)], free=[(start, bytes, list)], problems=[...]) decoded from the bytes"""
    prob, regs, free = [], [], []
    if len(b) < HDR:
        return {"eof": -1, "regions": [], "free": [], "problems": ["file shorter than its fixed part"], "free_problems": [], "gaps": []}
    eof = _ptr(b, 146)
    seen = set()

    def chunk(a, stag, etag, kind, want=None):
        """a variable-length chunk: tag, end pointer, ..., end tag; returns its size or None"""
        if a is None or a + 16 > len(b):
            prob.append("%s at %s: outside the file" % (kind, a)); return None
        if b[a:a + 4] != stag:
            prob.append("%s at %d: start tag %r" % (kind, a, bytes(b[a:a + 4]))); return None
        e = _ptr(b, a + 4)
        if e is None or e < a + 16 or e + 4 > len(b) or b[e:e + 4] != etag:
            prob.append("%s at %d: end pointer %s / end tag" % (kind, a, e)); return None
        n = e + 4 - a
        if want is not None and n != want:
            prob.append("%s at %d: %d bytes, %d expected" % (kind, a, n, want))
        regs.append((a, n, kind))
        return n

    def node(a, depth):
        if a in seen or depth > 200:
            prob.append("node %d reached twice" % a); return
        seen.add(a)
        if a is None or a + 246 > len(b) or b[a:a + 4] != b"NoDe" or b[a + 242:a + 246] != b"TaiL":
            prob.append("node header at %s: tags" % a); return
        if a != 266:
            regs.append((a, 246, "node"))
        num, cap, snt = _hex(b, a + 68, 8), _hex(b, a + 76, 8), _ptr(b, a + 84)
        nch, dc = _hex(b, a + 226, 4), _ptr(b, a + 230)
        if None in (num, cap, nch) or num > cap:
            prob.append("node header at %d: counts" % a); return
        if cap > 0:
            if chunk(snt, b"SNTb", b"snTE", "sub-node-table", 20 + 44 * cap) is not None:
                for i in range(num):
                    node(_ptr(b, snt + 16 + 44 * i + 32), depth + 1)
        if nch == 1:
            chunk(dc, b"DaTa", b"dEnD", "data-chunk")
        elif nch > 1:
            if chunk(dc, b"DCtb", b"dcTE", "data-chunk-table", 20 + 24 * nch) is not None:
                for i in range(nch):
                    s, e = _ptr(b, dc + 16 + 24 * i), _ptr(b, dc + 16 + 24 * i + 12)
                    n = chunk(s, b"DaTa", b"dEnD", "data-chunk")
                    if n is not None and e != s + n - 4:
                        prob.append("data-chunk-table at %d entry %d: end %s, the chunk's own end tag is at %d" % (dc, i, e, s + n - 4))
    node(266, 0)
    # the three free lists.  Their FORMAT (tags, fill, last pointer) changes no answer -- nothing reads a free chunk back --
    # so a malformed list is a divergence from the model, not a verdict; the BYTES a list claims do matter (below)
    fprob = []
    if b[186:190] != b"fCbt" or b[262:266] != b"Fcte":
        fprob.append("free-chunk table tags")
    for i, name in enumerate(("small", "medium", "large")):
        p, last, prev, steps = _ptr(b, 190 + 24 * i), _ptr(b, 202 + 24 * i), None, 0
        while p is not None and steps < 100000:
            steps += 1
            if p + 28 > len(b) or b[p:p + 4] != b"FreE":
                fprob.append("free chunk at %d (%s list): start tag" % (p, name)); break
            e, nx = _ptr(b, p + 4), _ptr(b, p + 16)
            if e is None or e < p + 28 or e - p > (1 << 40):
                fprob.append("free chunk at %d (%s list): end pointer" % (p, name)); break
            if b[e:e + 4] != b"EndC":
                fprob.append("free chunk at %d (%s list): end tag" % (p, name))
            elif b[p + 28:e].strip(b"x"):
                fprob.append("free chunk at %d (%s list): not 'x' filled" % (p, name))
            free.append((p, e + 4 - p, name))
            prev, p = p, nx
        if last != prev:
            fprob.append("%s list: last pointer %s, last chunk %s" % (name, last, prev))
    # pairwise disjointness and the end of file; what lies between the structures
    allr = sorted([(s, n, k) for s, n, k in regs] + [(s, n, "free-" + k) for s, n, k in free])
    hi, hik = HDR, "fixed part (file header, free-chunk table, root node)"
    gaps = []
    for s, n, k in allr:
        if s < hi:
            prob.append("OVERLAP %s at %d..%d begins inside %s ending at %d" % (k, s, s + n - 1, hik, hi - 1))
        elif s > hi:
            gaps.append((hi, s - hi))
        if s + n > hi:
            hi, hik = s + n, "%s at %d" % (k, s)
    if eof is None or hi > eof + 1:
        prob.append("OVERLAP %s ends at %d, beyond end_of_file %s" % (hik, hi - 1, eof))
    elif hi < eof + 1:
        gaps.append((hi, eof + 1 - hi))
    return {"eof": eof, "regions": regs, "free": free, "problems": prob, "free_problems": fprob, "gaps": gaps}


def compare_walk_model(w, snap, b):
    """the model's view at the snapshot (SNAP line of the engine) against the walk; -> (oracle problems, divergences, leaks)"""
    t = snap.split(" ")
    if t[2] == "-1":
        return [], [], []
    parse = lambda s: [] if s == "-" else [tuple(map(int, x.split(":"))) for x in s.split(",")]
    eof, live, fre, dead, lost = int(t[2]), parse(t[4]), parse(t[6]), parse(t[8]), parse(t[10])
    orc, div = [], []
    reach = sorted((s, n) for s, n, k in w["regions"])
    lv = dict(live)
    if eof != w["eof"]:
        div.append("end_of_file model=%d file=%s" % (eof, w["eof"]))
    # every reachable structure is a live allocation (or the beginning of one that was rewritten shorter in place)
    bad = [r for r in reach if not (r[0] in lv and r[1] <= lv[r[0]])]
    if bad:
        hit = [r for r in bad if any(p < r[0] + r[1] and r[0] < p + n for p, n in fre + dead + lost)]
        (orc if hit else div).append("reachable structures %s are not live allocations of the model%s" % (
            (hit or bad)[:4], " (they lie in freed space)" if hit else ""))
    if sorted(fre) != sorted((s, n) for s, n, k in w["free"]):
        div.append("free lists model=%s file=%s" % (sorted(fre)[:6], sorted((s, n) for s, n, k in w["free"])[:6]))
    for p, n in dead:
        if b[p:p + n].strip(b"z") or len(b) < p + n:
            div.append("dead range %d:%d of the model is not 'z' filled in the file" % (p, n))
    # every byte between the structures is explained: abandoned ('z'), lost behind a short free, the unused end of a
    # live chunk that was rewritten shorter, or an allocation nothing points to any more (counted as leaked)
    rd = dict(reach)
    tails = [(p + n, lv[p] - n) for p, n in reach if p in lv and n < lv[p]]
    leaked = [r for r in live if r[0] not in rd]
    cover = sorted(dead + lost + tails + leaked)
    for g, m in w["gaps"]:
        x = g
        for p, n in cover:
            if p <= x < p + n:
                x = p + n
        if x < g + m:
            div.append("bytes %d..%d are neither reachable, free, abandoned nor lost in the model" % (x, g + m - 1)); break
    return orc, div, leaked


# ----------------------------------------------------------------------------- expected answers of a script (Python dictionary)
def ideal_answers(lines):
    """for each script line: None, or the exact result line a correct database gives.  Only what this oracle is sure of:
    rall of a node whose whole data was written since it was last dimensioned."""
    alive, exp, ro = {}, [], {}
    for l in lines:
        t = l.split(" ")
        e = None
        f = t[1] if len(t) > 1 else None
        A = alive.setdefault(f, {0: dict(parent=-1, size=None, data=None)}) if f is not None else None
        try:
            if t[0] == "file":
                alive[f] = {0: dict(parent=-1, size=None, data=None)}; ro[f] = t[4] == "r"
            elif t[0] == "reopen":
                ro[f] = t[2] == "r"
            elif ro.get(f) and t[0] != "rall":
                pass                                    # a file open read-only refuses every mutator
            elif t[0] in ("create", "link"):
                p, u = int(t[2]), int(t[3])
                if p in A and u not in A and u > 0:
                    A[u] = dict(parent=p, size=None, data=None, link=t[0] == "link")
            elif t[0] == "delete":
                p, u = int(t[2]), int(t[3])
                if u in A and p in A and u != 0 and A[u]["parent"] == p:
                    dead = [u]
                    while dead:
                        x = dead.pop(); A.pop(x, None)
                        dead += [k for k, v in A.items() if v["parent"] == x]
            elif t[0] == "move":
                p, u, np_ = int(t[2]), int(t[3]), int(t[4])
                if u in A and np_ in A and A[u]["parent"] == p:
                    A[u]["parent"] = np_
            elif t[0] == "dims":
                u = int(t[2])
                if u in A and not A[u].get("link"):
                    n = nodedb.TYPES.get(t[3], 0)
                    for d in t[4].split(","):
                        n *= int(d)
                    A[u]["size"], A[u]["data"] = n, None
            elif t[0] == "wall":
                u = int(t[2])
                if u in A and A[u]["size"] and len(t[3]) == 2 * A[u]["size"]:
                    A[u]["data"] = t[3]
            elif t[0] in ("wblock", "wsel"):
                u = int(t[2])
                if u in A:
                    A[u]["data"] = None
            elif t[0] == "rall":
                u = int(t[2])
                if u in A and A[u]["data"]:
                    e = "ok d:" + A[u]["data"]
        except (ValueError, IndexError, KeyError):
            pass
        exp.append(e)
    return exp


# ----------------------------------------------------------------------------- generators
class Aim:
    """generator aid only: where the next allocation would go (so that sizes can be aimed at block boundaries and at
    the size classes of the rest-of-block chunk); verdicts never come from it"""
    def __init__(self):
        self.eof = HDR - 1
    def rem(self):
        return BLK - 1 - self.eof % BLK
    def malloc(self, n):
        o = self.eof % BLK
        if o == BLK - 1 or (o + n >= BLK and n <= BLK):
            self.eof = (self.eof // BLK + 1) * BLK + n - 1
        else:
            self.eof += n


def gen_directed(rng, nops, f=1, path="F1.cgns"):
    """one file; create / delete / re-create, data sizes aimed at the class boundaries (246|247, 1024|1025, 4096|4097..4099),
    at allocations that end exactly at / one before / one after a block boundary, at rest-of-block chunks of every class,
    sub-node tables that grow 8 -> 12 -> 18 -> 27 -> 40, arrays regrown with and without keeping their chunks, reopen"""
    L = ["file %d %s BE w" % (f, path)]
    aim = Aim()
    nodes = {0: dict(parent=-1, kids=0, cap=0, ty=None, rank=0, chunks=[], nb=0, written=False)}
    nxt, snaps = [1], [0]

    def create(p):
        u = nxt[0]; nxt[0] += 1
        L.append("create %d %d %d %s" % (f, p, u, ("n%d" % u).encode().hex()))
        nodes[u] = dict(parent=p, kids=0, cap=0, ty=None, rank=0, chunks=[], nb=0, written=False)
        aim.malloc(246)
        P = nodes[p]
        if P["cap"] <= P["kids"]:
            P["cap"] = 8 if P["cap"] == 0 else int(P["cap"] * 1.5)
            aim.malloc(20 + 44 * P["cap"])
        P["kids"] += 1
        return u

    def subtree(u):
        out = [u]
        for k, v in list(nodes.items()):
            if v["parent"] == u:
                out += subtree(k)
        return out

    def write(u, nb, keep):
        """dimension u to nb bytes and write it; keep = same type and rank (ADF keeps the chunks and appends one)"""
        N = nodes[u]
        if keep and N["ty"]:
            ty, rank = N["ty"], N["rank"]
        else:
            ty = "B1" if N["ty"] == "C1" else "C1"; rank = 1
            if N["ty"] and rng.random() < 0.3:
                ty, rank = N["ty"], 3 - N["rank"]                       # same type, other rank: data dropped as well
            N["chunks"] = []
        N.update(ty=ty, rank=rank, nb=nb, written=True)
        L.append("dims %d %d %s %s" % (f, u, ty, "%d" % nb if rank == 1 else "1,%d" % nb))
        L.append("wall %d %d %s" % (f, u, rng.randbytes(nb).hex()))
        have = sum(N["chunks"])
        if not N["chunks"]:
            aim.malloc(nb + 20); N["chunks"] = [nb]
        elif nb > have:
            aim.malloc(nb - have + 20)
            aim.malloc(68 if len(N["chunks"]) == 1 else 8 + 12 * (2 * (len(N["chunks"]) + 1) + 1))
            N["chunks"].append(nb - have)

    def pick_total():
        """total bytes of the next allocation, chosen relative to what is left of the current block"""
        r = aim.rem()
        menu = [247, 246, 248, 1024, 1025, 1023, 4096, 4097, 4098, 4099, 4100, 4095, rng.randint(21, 600), rng.randint(21, 600),
                rng.randint(600, 5000), rng.randint(4000, 13000)]
        if r >= 22:
            menu += [r, r, r + 1, r - 1, r + 1]                          # ends exactly at / crosses by one / one short of the boundary
            for g in (246, 247, 1024, 1025, 245, 1026, rng.randint(1, 300)):   # leave a rest of g bytes for the NEXT allocation to abandon
                if r - g >= 21:
                    menu += [r - g]
        return max(21, rng.choice(menu))

    for _ in range(3):
        create(0)
    for i in range(nops):
        nonroot = [u for u in nodes if u != 0]
        x = rng.random()
        if x < 0.24 or len(nonroot) < 3:
            wide = [u for u in nodes if nodes[u]["kids"] >= 6]
            p = rng.choice(wide) if wide and rng.random() < 0.6 else rng.choice(list(nodes))
            if len(subtree(p)) < 60:
                create(p)
        elif x < 0.55:
            u = rng.choice(nonroot)
            write(u, pick_total() - 20, keep=False)
        elif x < 0.68:
            cand = [u for u in nonroot if nodes[u]["chunks"]]
            if cand:
                u = rng.choice(cand); N = nodes[u]; have = sum(N["chunks"])
                nb = rng.choice([have + 1, have + pick_total() - 20, have + rng.randint(1, 300), max(1, have - rng.randint(0, have - 1)), have])
                if len(N["chunks"]) < 6:
                    write(u, nb, keep=True)
        elif x < 0.82:
            u = rng.choice(nonroot)
            if len(subtree(u)) <= 12:
                L.append("delete %d %d %d" % (f, nodes[u]["parent"], u))
                nodes[nodes[u]["parent"]]["kids"] -= 1
                for k in subtree(u):
                    del nodes[k]
        elif x < 0.86:
            u = rng.choice(nonroot)
            cands = [v for v in nodes if v not in subtree(u) and v != nodes[u]["parent"]]
            if cands:
                v = rng.choice(cands)
                L.append("move %d %d %d %d" % (f, nodes[u]["parent"], u, v))
                nodes[nodes[u]["parent"]]["kids"] -= 1; nodes[u]["parent"] = v
                P = nodes[v]
                if P["cap"] <= P["kids"]:
                    P["cap"] = 8 if P["cap"] == 0 else int(P["cap"] * 1.5); aim.malloc(20 + 44 * P["cap"])
                P["kids"] += 1
        elif x < 0.90:
            L.append("reopen %d m" % f); L.append("view %d" % f)
        elif x < 0.95:
            w = [u for u in nonroot if nodes[u]["written"]]
            if w:
                L.append("rall %d %d" % (f, rng.choice(w)))
        else:
            L.append("snap %d %d" % (f, snaps[0])); snaps[0] += 1
    L.append("snap %d %d" % (f, snaps[0])); snaps[0] += 1
    L.append("reopen %d r" % f); L.append("view %d" % f)
    for u in nodes:
        if u != 0 and nodes[u]["written"]:
            L.append("rall %d %d" % (f, u))
    L.append("closef %d" % f)
    L.append("snap %d %d" % (f, snaps[0]))
    return L


def with_snaps(hist):
    """a nodedb history with snapshots after deletes / reopens and at the end (ADF only, any number of files)"""
    out, k = [], {}
    for l in hist:
        out.append(l)
        t = l.split(" ")
        if t[0] in ("delete", "reopen", "closef"):
            k[t[1]] = k.get(t[1], 0) + 1
            if k[t[1]] <= 12 or t[0] == "closef":
                out.append("snap %s %d" % (t[1], k[t[1]]))
            if t[0] == "reopen":
                out.append("view %s" % t[1])
    return out


def corpus():
    """fixed histories, run first (what they show does not depend on the seed)"""
    H = lambda n, c: c * n
    c = []
    # a 4098-byte chunk that starts on a block boundary goes to the MEDIUM list (its end TAG starts in the same block):
    # the witness of C02_alloc_medium_class_bound_refuted, on the library
    c.append(("medium-holds-4098", ["file 1 F1.cgns BE w", "create 1 0 1 41", "create 1 0 2 42", "dims 1 1 C1 2700", "wall 1 1 " + H(2700, "61"),
              "dims 1 2 C1 4078", "wall 1 2 " + H(4078, "62"), "snap 1 0", "delete 1 0 2", "snap 1 1", "view 1", "reopen 1 m", "view 1",
              "create 1 0 3 43", "dims 1 1 B1 5", "wall 1 1 " + H(5, "63"), "rall 1 1", "snap 1 2", "closef 1", "snap 1 3"],
              [" 8193 - - 4096:8190 4096 - - ok"]))
    # the witness of C02_alloc_conservation_needs_exact_frees_refuted: a 2279-byte data chunk rewritten in place for 2140 bytes
    # of data (same type and rank: ADF keeps the chunk, ADF_Write_All_Data moves its end tag inwards), then freed by its tags
    c.append(("shrunk-chunk", ["file 1 F1.cgns BE w", "create 1 0 1 41", "dims 1 1 C1 2259", "wall 1 1 " + H(2259, "61"), "dims 1 1 C1 2140",
              "wall 1 1 " + H(2140, "62"), "rall 1 1", "snap 1 0", "dims 1 1 B1 5", "wall 1 1 " + H(5, "63"), "snap 1 1", "reopen 1 m", "view 1",
              "rall 1 1", "closef 1", "snap 1 2"], ["NOTE short-free 1130:2160 allocated=2279", " X 3290:119"]))
    # the witness of C02_alloc_large_class_bound_refuted: a 5000-byte chunk at 3000 shrunk to 2020 bytes, freed: large list
    c.append(("short-chunk-on-large-list", ["file 1 F1.cgns BE w", "create 1 0 1 41", "create 1 0 2 42", "dims 1 1 C1 1604", "wall 1 1 " + H(1604, "61"),
              "dims 1 2 C1 4980", "wall 1 2 " + H(4980, "62"), "dims 1 2 C1 2000", "wall 1 2 " + H(2000, "63"), "rall 1 2", "dims 1 2 B1 3",
              "wall 1 2 " + H(3, "64"), "snap 1 0", "rall 1 1", "rall 1 2", "closef 1", "snap 1 1"], [" - - - - 3000:5016 3000 ok"]))
    # the witness of C02_alloc_freed_space_is_not_reused: 3000 bytes freed, 3000 bytes asked for again: they go to the end of file
    c.append(("no-reuse", ["file 1 F1.cgns BE w", "create 1 0 1 41", "dims 1 1 C1 2980", "wall 1 1 " + H(2980, "61"), "dims 1 1 B1 2980",
              "wall 1 1 " + H(2980, "62"), "rall 1 1", "snap 1 0", "closef 1", "snap 1 1"], ["A m 0 3000 1 0 -1", "A m 0 3000 2 0 -1", " 11191 - - 7096:8188,4096:7092,1130:4092 1130 - - ok"]))
    # rest-of-block chunks of g bytes: 246 -> 'z', 247 -> small, 1024 -> small, 1025 -> medium (A ends at 4095 - g, then
    # an allocation of g + 1 bytes has to move to the next block)
    for g in (245, 246, 247, 1024, 1025):
        k = 2700 - g
        c.append(("rest-of-block-%d" % g, ["file 1 F1.cgns BE w", "create 1 0 1 41", "create 1 0 2 42", "dims 1 1 C1 %d" % k, "wall 1 1 " + H(k, "61"),
                  "dims 1 2 C1 %d" % (g + 1 - 20), "wall 1 2 " + H(g + 1 - 20, "62"), "snap 1 0", "rall 1 1", "rall 1 2", "reopen 1 m", "view 1",
                  "dims 1 2 B1 7", "wall 1 2 " + H(7, "64"), "delete 1 0 1", "snap 1 1", "rall 1 2", "closef 1", "snap 1 2"], []))
    # a parent whose sub-node table grows 8 -> 12 -> 18 -> 27 -> 40 with deletions in between (tables of 372 / 548 / 812 /
    # 1208 / 1780 bytes: small, small, small, medium, medium), then the whole subtree deleted
    t = ["file 1 F1.cgns BE w", "create 1 0 1 50"]
    for i in range(2, 30):
        t.append("create 1 1 %d %s" % (i, ("k%d" % i).encode().hex()))
        if i in (10, 15, 22):
            t += ["delete 1 1 %d" % (i - 3), "snap 1 %d" % i]
    t += ["reopen 1 m", "view 1"] + ["create 1 1 %d %s" % (i, ("k%d" % i).encode().hex()) for i in range(30, 45)]
    t += ["snap 1 50", "delete 1 0 1", "snap 1 51", "create 1 0 60 51", "closef 1", "snap 1 52"]
    c.append(("table-growth", t, []))
    return c


# ----------------------------------------------------------------------------- running one history
def split_out(out):
    api = [l for l in out if not (l.startswith("A ") or l.startswith("hook "))]
    tr = [l for l in out if l.startswith("A ")]
    return api, tr


def run_hist(exe, hook, hist, work, tag, engine_args=(), timeout=240):
    """-> dict(script, out, outcome, stack, api, trace, model, oracle=[...], diffs=[...], viols=[...], leaks, summary, nsnaps)"""
    s = nodedb.instantiate(hist, "adf", work, tag)
    out, outcome, stack = vlib.run_impl(exe, "\n".join(s) + "\n", timeout=timeout, want_stack=True)
    api, tr = split_out(out)
    r = dict(script=s, out=out, outcome=outcome, stack=stack, api=api, trace=tr, oracle=[], diffs=[], viols=[], leaks=0, summary={}, nsnaps=0,
             walked_regions=0, notes=[], snaplines=[])
    model = vlib.run_model("c02d", "\n".join(tr) + "\n", args=list(engine_args), timeout=600) if (hook and tr) else []
    # engine lines pair with trace lines
    ti, pend, snapline = -1, [], {}
    for m in model:
        if m.startswith("VIOL "):
            pend.append(m); continue
        if m.startswith("NOTE "):
            r["notes"].append(m); continue
        if m.startswith("SUMMARY"):
            r["summary"] = {k: int(v) for k, v in (x.split("=") for x in m.split()[1:])}; continue
        ti += 1
        where = tr[ti] if ti < len(tr) else "?"
        if not r["diffs"]:                  # once model and library disagree the monitor's state is not the library's any more
            for p in pend:
                r["viols"].append((p, where))
        pend = []
        if m.startswith("SNAP "):
            r["snaplines"].append(m)
            snapline[(where.split(" ")[2], where.split(" ")[3])] = m
        elif not m.startswith("ok"):
            r["diffs"].append(m[:300] + " @ " + where[:120])
    if not r["diffs"]:
        for p in pend:
            r["viols"].append((p, "end"))
    if hook and tr and outcome == "ok" and ti + 1 != len(tr):
        r["diffs"].append("engine answered %d of %d trace lines" % (ti + 1, len(tr)))
    # the oracle 1: answers
    exp = ideal_answers([l for l in s if not l.startswith(("snap ", "view "))])
    for i, e in enumerate(exp):
        if e is not None and i < len(api) and api[i] != e:
            r["oracle"].append((KEY_READBACK, "script line %d: expected %s, got %s" % (i, nodedb.short(e, 60), nodedb.short(api[i], 60))))
            break
    if outcome != "ok":
        r["oracle"].append(("adf-crash:" + outcome.split("@")[-1], outcome))
    # the oracle 2: the snapshots
    for l in tr:
        t = l.split(" ")
        if t[1] != "S":
            continue
        p = bytes.fromhex(t[5]).decode() + ".snap" + t[3]
        if not os.path.exists(p):
            continue
        b = open(p, "rb").read(); os.unlink(p)
        w = walk(b)
        r["nsnaps"] += 1; r["walked_regions"] += len(w["regions"]) + len(w["free"])
        for q in w["problems"]:
            r["oracle"].append((KEY_OVERLAP if q.startswith("OVERLAP") else KEY_STRUCT, "snapshot %s: %s" % (t[3], q)))
        for q in w["free_problems"]:
            r["diffs"].append("snapshot %s: %s" % (t[3], q))
        sm = snapline.get((t[2], t[3]))
        if sm:
            orc, div, leaked = compare_walk_model(w, sm, b)
            for q in orc:
                r["oracle"].append((KEY_FREED, "snapshot %s: %s" % (t[3], q)))
            for q in div:
                r["diffs"].append("snapshot %s: %s" % (t[3], q))
            r["leaks"] = max(r["leaks"], len(leaked))
            if leaked:
                r["leak_sample"] = leaked[:3]
    for l in s:
        t = l.split(" ")
        if t[0] == "file":
            for fn in os.listdir(os.path.dirname(t[2])):
                if fn.startswith(os.path.basename(t[2]) + ".snap"):
                    os.unlink(os.path.join(os.path.dirname(t[2]), fn))
    nodedb.cleanup(s)
    return r


def viol_key(v):
    if v.startswith("VIOL free-not-live"):
        return KEY_NOTLIVE
    if v.startswith("VIOL range") or v.startswith("VIOL size"):
        return "adf-alloc-arguments-outside-model-range"
    if v.startswith("VIOL eoc"):
        return "adf-free-end-of-chunk-pointer-not-normalised"
    return "c02d-model-self-check"


def pack(script):
    full = list(script)
    return {"script": [nodedb.short(x, 300) for x in full], "script_full": full if sum(map(len, full)) < 400000 else None,
            "script_sha1": hashlib.sha1("\n".join(full).encode()).hexdigest()}


def failing_keys(r):
    return {k for k, _ in r["oracle"]} | {viol_key(v) for v, _ in r["viols"] if viol_key(v) == KEY_NOTLIVE}


# ----------------------------------------------------------------------------- the disabled search, through a variant build
def build_search_variant(work):
    """ADF_internals.c with the two "#if 0" of ADFI_file_malloc removed, compiled INTO the harness (its definitions win over
    the archive member).  Returns the executable or None (the text is not there any more / does not compile)."""
    try:
        src = open(os.path.join(vlib.REPO, "src", "adf", "ADF_internals.c"), errors="replace").read()
        a = src.index("void\tADFI_file_malloc("); b = src.index("} /* end of ADFI_file_malloc */", a)
    except (OSError, ValueError):
        return None
    out, depth, dropped = [], 0, 0
    for line in src[a:b].split("\n"):
        if line.strip() == "#if 0":
            depth += 1; dropped += 1; continue
        if line.strip() == "#endif" and depth > 0:
            depth -= 1; continue
        out.append(line)
    if dropped != 2 or "ADFI_read_free_chunk(" not in src[a:b]:
        return None
    path = os.path.join(work, "adfi_search_variant.c")
    open(path, "w").write(src[:a] + "\n".join(out) + src[b:])
    try:
        return vlib.build_harness("c02d_alloc_search", ["c02d_alloc.c", path], extra=["-DC02D_HAVE_HOOK"])
    except vlib.Infra:
        return None


def search_leg(ck, ex, work, thorough):
    """[malloc_search] = the text inside "#if 0" of ADFI_file_malloc, replayed against a harness in which that text is
    compiled.  The code is not part of the library: whatever this leg shows is recorded, never a verdict."""
    exe = build_search_variant(work)
    if not exe:
        ex["disabled_search_variant"] = "not run: the #if 0 text of ADFI_file_malloc was not found as expected, or the variant does not compile"
        return
    st = {"histories": 0, "mallocs": 0, "mallocs_served_from_a_free_list": 0, "model_vs_variant_divergences": 0, "oracle_failures": 0,
          "hypothesis_breaches": 0, "first": None,
          "note": "the variant is NOT the library: recorded only.  0 divergences = AdfAlloc.malloc_search transcribes the disabled text; "
                  "0 oracle failures = on these histories the disabled search would not have made structures overlap"}
    hs = [h for n, h, e in corpus() if n in ("no-reuse", "table-growth", "rest-of-block-1025")]
    hs += [gen_directed(ck.rng, 130) for _ in range(24 if thorough else 4)]
    for i, h in enumerate(hs):
        r = run_hist(exe, True, h, work, "s%d" % i, engine_args=["search"])
        st["histories"] += 1; st["mallocs"] += r["summary"].get("mallocs", 0)
        st["mallocs_served_from_a_free_list"] += r["summary"].get("malloc_reused_free_chunk", 0)
        st["model_vs_variant_divergences"] += bool(r["diffs"]); st["oracle_failures"] += bool(r["oracle"]); st["hypothesis_breaches"] += bool(r["viols"])
        if (r["diffs"] or r["oracle"] or r["viols"]) and not st["first"]:
            st["first"] = {"diffs": r["diffs"][:2], "oracle": r["oracle"][:2], "viols": r["viols"][:1], "script": [nodedb.short(x, 80) for x in h[:40]]}
    ex["disabled_search_variant"] = st


# ----------------------------------------------------------------------------- the check
def run_extra(ck, pid="C02d"):
    thorough = ck.tier == "thorough"
    work = os.path.join(ck.work, "c02d") if ck.pid != "C02d" else ck.work
    os.makedirs(work, exist_ok=True)
    vlib.build_impl()
    exe, hook = build_harness()
    prev = {k: ck.extra.get(k) for k in ("print_assumptions", "theorems", "coq_wall_s")}
    res = vlib.coq_check_properties(pid)
    broken = ck.proof_result(res, CHECKER if ck.pid == "C02d" else ck.cov.get("checker_cmd", "") + "; " + CHECKER)
    if prev["theorems"] and ck.pid != "C02d":
        pa, pb = prev["print_assumptions"] or {}, res["assumptions"]
        ck.extra["print_assumptions"] = {"closed": pa.get("closed", 0) + pb["closed"], "with_axioms": pa.get("with_axioms", 0) + pb["with_axioms"],
                                         "axioms": sorted(set(pa.get("axioms", [])) | set(pb["axioms"]))}
        ck.extra["theorems"] = list(prev["theorems"]) + res["theorems"]
        ck.extra["coq_wall_s"] = round((prev["coq_wall_s"] or 0) + res.get("wall_s", 0), 1)
    forb = vlib.coq_forbidden_scan(pid)
    if forb:
        ck.violation({"broken_obligation": "forbidden tokens", "hits": forb}, nofail=True)
    vlib.build_modelrun("c02d")
    ex = ck.extra.setdefault("c02d", {})
    ex["hook_in_library"] = hook
    ex["tie"] = ("allocator trace replay + file-decoded free lists + library view after reopen (hook present)" if hook else
                 "REDUCED: the library under test has no ADFI_VT_MALLOC / ADFI_VT_FREE trace (older than /repo 18501cc): only the "
                 "model-independent oracle runs (file walk, read back); no position / free-list comparison with the model")
    ck.cov["trusted_base"] = list(ck.cov.get("trusted_base") or []) + [
        "C02d: Coq 8.16.1 kernel + vm_compute; extraction (ExtrOcamlBasic only); ocaml/eng_c02d.ml + zutil.ml (trace parser, comparators)",
        "C02d: harness/c02d_alloc.c (trace printer; decoder of end_of_file, free-chunk table and free chunks from the file bytes overlaid with the pending write block)",
        "C02d: the add-only CGNS_VERIF wrappers of /repo 18501cc (notes/C02d-hook.diff) report ADFI_file_malloc / ADFI_file_free faithfully",
        "C02d: checks/C02d.py walk() (independent decoder of node headers, sub-node tables, data-chunk tables, data chunks, free lists) and ideal_answers()",
        "C02d: AdfAlloc.v as a transcription of ADFI_file_malloc / ADFI_file_free (validated by the replay: every returned position and the lists after every call)"]
    ck.assumptions = list(ck.assumptions or []) + [
        "C02d theorems assume ok_hist (every free hands back a live allocation with exactly its size; sizes > 0): evaluated at every real free / malloc",
        "C02d: model arithmetic is Z: the C code as long as sizes and end_of_file stay below 2^62 (in_c_range, monitored) and sub-node tables below 2^32/44 entries",
        "C02d: files written by this library version (binary 8+4 byte disk pointers); block buffers / priority stack abstracted away (C02b layer)"]

    findings, diffs, leaks = {}, [], []
    shrink = {"histories": 0, "short_frees": 0, "witness": None,
              "what": "OBSERVATION outside the property (file space, not answers): ADF_Write_All_Data rewrites the tags of a node's single data "
                      "chunk for the new, smaller byte count; ADFI_file_free later frees the chunk by its tags, so the bytes behind them are "
                      "neither reachable, free nor 'z' (ghost class `lost` of the model; C02_alloc_conservation_needs_exact_frees_refuted). "
                      "Proposed one-word repair, not applied: notes/C02d-fixes/01-write-all-keeps-single-chunk-size.diff"}
    stats = {"histories": 0, "script_lines": 0, "trace_events": 0, "snapshots_walked": 0, "regions_walked": 0, "answers_checked": 0,
             "kinds": {"corpus": 0, "directed": 0, "nodedb": 0}}
    msum = {}
    from concurrent.futures import ThreadPoolExecutor
    pool = ThreadPoolExecutor(max_workers=4)
    jobs = []
    expects = {}
    for name, h, exp in corpus():
        expects[name] = exp
        jobs.append(("corpus", name, h, pool.submit(run_hist, exe, hook, h, work, "c_" + name)))
    for i in range(120 if thorough else 14):
        h = gen_directed(ck.rng, (300 if i % 5 == 4 else 130) if thorough else 90)
        jobs.append(("directed", "d%d" % i, h, pool.submit(run_hist, exe, hook, h, work, "d%d" % i)))
    for i in range(60 if thorough else 6):
        files = [(1,), (1, 2), (1,), (1, 2, 3), (1,)][i % 5]
        h = with_snaps(nodedb.gen_history(ck.rng, 110 if thorough else 70, files=files, big=(i % 5 == 2), wide=(i % 5 == 4)))
        jobs.append(("nodedb", "n%d" % i, h, pool.submit(run_hist, exe, hook, h, work, "n%d" % i)))
    for kind, name, h, fut in jobs:
        r = fut.result()
        stats["histories"] += 1; stats["kinds"][kind] += 1; stats["script_lines"] += len(h); stats["trace_events"] += len(r["trace"])
        stats["snapshots_walked"] += r["nsnaps"]; stats["regions_walked"] += r["walked_regions"]
        stats["answers_checked"] += sum(1 for e in ideal_answers([l for l in r["script"] if not l.startswith(("snap ", "view "))]) if e)
        for k, v in r["summary"].items():
            msum[k] = msum.get(k, 0) + v
        ck.cov["traces_validated_against_impl"] += 1
        S = r["summary"]
        nontriv = (S.get("malloc_block_rule", 0) > 0 and S.get("frees", 0) > 2 and S.get("reopens", 0) > 0) if hook else \
            (any(l.startswith("delete") for l in h) and any(l.startswith("reopen") for l in h))
        ck.case(hashlib.sha1("\n".join(h).encode()).hexdigest() if nontriv else None,
                sample={"kind": kind, "name": name, "ops": [nodedb.short(x, 70) for x in h[:6]] + ["..."], "allocator_calls": len(r["trace"])}
                if stats["kinds"][kind] <= 2 else None)
        if r["leaks"]:
            leaks.append((name, r["leaks"], r.get("leak_sample")))
        for key, what in r["oracle"]:
            findings.setdefault(key, (h, what, kind, name))
        for v, where in r["viols"]:
            findings.setdefault(viol_key(v), (h, v[:300] + " @ " + where[:100], kind, name))
        if hook and kind == "corpus":
            seen = "\n".join(r["trace"]) + "\n" + "\n".join(r["notes"]) + "\n" + "\n".join(r["snaplines"])
            miss = [e for e in expects.get(name, []) if e not in seen]
            if name not in OPTIONAL:
                r["diffs"] += ["witness history %s: %r not reproduced by the library" % (name, e) for e in miss]
            ex.setdefault("witnesses_on_library", {})[name] = "reproduced" if not (miss or r["diffs"]) else (
                "not reproduced: the library no longer hands back shrunk chunks (notes/C02d-fixes/01 applied?)" if name in OPTIONAL and not r["diffs"]
                else (r["diffs"] or miss)[:2])
        if r["notes"]:                      # a side observation (file space, not answers): recorded, never a verdict
            shrink["histories"] += 1; shrink["short_frees"] += len(r["notes"])
            if name == "shrunk-chunk":
                shrink["witness"] = {"corpus_history": name, "script": [nodedb.short(x, 80) for x in h], "trace": r["notes"][0],
                                     "model_lost_ranges": [m.split(" X ")[1] for m in r["snaplines"] if " X " in m][-1:]}
        if r["diffs"]:
            diffs.append((kind, name, h, r["diffs"][:3]))
    pool.shutdown()
    shrink["bytes_lost"] = msum.get("bytes_lost_behind_short_frees", 0)
    ex["side_observation_short_frees"] = shrink
    ex["input_distribution"] = stats
    ex["model_counters"] = msum if hook else "(no hook: no trace)"
    ex["allocations_live_in_the_model_but_unreachable_in_the_file"] = {
        "histories": len(leaks), "sample": leaks[:3],
        "note": "space that is neither reachable, nor on a free list, nor abandoned: not a violation of C02 (no answer depends on it); recorded only"}

    # ---- verdicts: a failing oracle is shrunk and reported; a divergence without one is no-failing-input-found
    for nf, (key, (h, what, kind, name)) in enumerate(findings.items()):
        def still(lines, key=key):
            if not lines or not lines[0].startswith("file "):
                return False
            return key in failing_keys(run_hist(exe, hook, lines, work, "shrink"))
        small = vlib.ddmin(h, still, max_tests=120 if thorough else 40) if (nf < 2 and kind != "corpus" and not ck.known_match(key) and still(h)) else h
        ck.finding(key, dict(pack(small), what=what, history=name, hook=hook,
                             oracle="file walk (disjointness, tags, fills) / Python dictionary of written data / liveness of every freed range"))
    real = [k for k in findings if not ck.known_match(k)]
    if diffs and not real:
        kind, name, h, detail = diffs[0]
        found = None
        for j in range(30 if thorough else 10):       # widened search for a failing input of the property
            hh = gen_directed(ck.rng, 200)
            rr = run_hist(exe, hook, hh, work, "w%d" % j)
            if failing_keys(rr):
                found = (hh, rr); break
        if found:
            hh, rr = found
            key = sorted(failing_keys(rr))[0]
            ck.finding(key, dict(pack(hh), what=[w for k, w in rr["oracle"]][:3], history="widened search", hook=hook))
        else:
            def still_div(lines):
                return bool(lines) and lines[0].startswith("file ") and bool(run_hist(exe, hook, lines, work, "shrinkd")["diffs"])
            if kind != "corpus":
                h = vlib.ddmin(h, still_div, max_tests=60 if thorough else 30)
                detail = run_hist(exe, hook, h, work, "shrinkd")["diffs"][:3] or detail
            ck.violation({"broken_correspondence": "extracted AdfAlloc vs ADFI_file_malloc / ADFI_file_free (%s history %s)" % (kind, name),
                          "first_divergences": detail, "script": [nodedb.short(x, 300) for x in h],
                          "script_full": h if sum(map(len, h)) < 400000 else None,
                          "note": "the model no longer describes the allocator; no history explored shows overlapping structures or a wrong answer"},
                         nofail=True)
    if broken and not ck.violations:
        ck.violation({"broken_obligations": broken, "note": "a C02d theorem no longer checks; no history explored diverges"}, nofail=True)
    if hook:
        search_leg(ck, ex, work, thorough)
    ex["model_vs_implementation_divergences"] = len(diffs)
    ex["first_divergences"] = [(k, n, d) for k, n, h, d in diffs[:3]]
    ex["finding_keys_seen"] = sorted(findings)


def run(ck):
    ck.cov["rule"] = ("seeded cgio histories on ADF files: (corpus) the class corners -- a 4098-byte chunk on the medium list, rest-of-block chunks of "
                      "245/246/247/1024/1025 bytes, a sub-node table grown 8->12->18->27->40->60; (directed) create / delete / re-create with "
                      "allocation sizes aimed at block ends (exact, one more, one less) and at the class boundaries, arrays regrown with and "
                      "without keeping their chunks, moves, reopen; (nodedb) the C02 generator on 1-3 files. non-trivial = the block rule "
                      "fired, more than two frees and a reopen happened; distinct by SHA1")
    run_extra(ck, "C02d")


def replay(ck, path):
    r = json.load(open(path))
    vlib.build_impl(); exe, hook = build_harness(); vlib.build_modelrun("c02d")
    script = r.get("script_full") or r.get("script")
    if not script:
        print("replay names a broken obligation / correspondence, no input to run"); return 1
    rr = run_hist(exe, hook, script, ck.work, "replay")
    keys = failing_keys(rr)
    print("replay: outcome %s; oracle (file walk, read back): %s; hypotheses breached: %s; model/implementation divergences: %d %s" % (
        rr["outcome"], json.dumps([w for k, w in rr["oracle"]][:3]) if rr["oracle"] else "holds", sorted({viol_key(v) for v, _ in rr["viols"]}),
        len(rr["diffs"]), rr["diffs"][:2]))
    return 1 if (keys or rr["outcome"] != "ok") else 0
