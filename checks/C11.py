"""C11 -- all ways of addressing a node agree.

Proof side : coq/Properties_C11.v.  coq/Goto.v interprets cgi_next_posit from a TABLE (one row per arm, every use of
             a struct field a separate column) and transcribes cgi_update_posit / cgi_set_posit / vcg_goto / vcg_gorel /
             cg_gopath / cg_golist / cg_where by hand.  The kernel evaluates the decidable predicates table_ok /
             addr_table_ok / shapes_ok on coq/Gen_C11.v, regenerated from the current sources by
             translators/c11_goto.py on every run (C11_table_ok, C11_tail_ok, C11_addr_table_ok, C11_shapes), and the
             generic theorems (C11_step_sound, C11_no_ub, C11_nav_agree, C11_spellings_agree, C11_relative_agree,
             C11_failure_clears, C11_context_acts_here) hold for ANY table satisfying the predicate.
Tie T      : the translator runs on every check (and in pregen()).
Tie C      : random trees built through the mid-level API (about 60 node kinds), markers placed at every node, then
             random targets x all spellings (cg_goto by label+index, by name, mixed; cg_gopath absolute with doubled /
             trailing slashes; cg_gorel and relative cg_gopath with `.` / `..` detours from another position; cg_golist;
             replay of cg_where), in write, read and modify mode, after deletions, on ADF and HDF5: status, cg_where
             output and the node the position designates are compared with the extracted model run on the same script.
Oracles (independent of the model): (1) a marker Descriptor_t written at the position by a node-context call is
             located by a low-level cgio walk of the file; its parent's path must be the intended target (read mode:
             the markers read back through cg_ndescriptors / cg_descriptor_read must be the target's);
             (2) cg_where after every spelling equals the label/index path of the target in the generator's own tree;
             (3) after a failed navigation cg_where and the next node-context call fail (or, for the enumerated
             early rejections, the position is exactly what it was); (4) ASan/UBSan.
"""
import json, os, re, sys
import vlib

sys.path.insert(0, os.path.join(vlib.ROOT, "translators"))
import c11_goto

CHECKER = ("make -C coq Goto.vo GotoProofs.vo GotoPathProofs.vo Gen_C11.vo (coqc 8.16.1 kernel; vm_compute of table_ok / addr_table_ok / "
           "shapes_ok on the regenerated tables) ; coqc Properties_C11.v (Print Assumptions)")
ORACLE = ("marker Descriptor_t written at the position is found by an independent cgio walk under the intended node; "
          "cg_where equals the target's label/index path; failed navigation => cg_where and node-context calls fail "
          "(or position exactly unchanged for the enumerated early rejections); ASan/UBSan")


def pregen():
    c11_goto.write_gen(repo=vlib.REPO)


# ----------------------------------------------------------------------------------------------- the generator's own tree
class Node:
    def __init__(self, nid, label, name, parent, sel=None):
        self.id, self.label, self.name, self.parent, self.sel = nid, label, name, parent, sel
        self.kids = []
        self.markers = set()

    def path_names(self):
        n, out = self, []
        while n.parent is not None:
            out.append(n.name); n = n.parent
        return list(reversed(out))

    def path(self):
        return "/" + "/".join(self.path_names())

    def depth(self):
        return len(self.path_names())


MAX_LEVELS_BELOW_BASE = 19      # CG_MAX_GOTO_DEPTH = 20 entries of the position stack, the base is one of them


class Tables:
    """what the generator needs from the translator's model: (parent label, child label) -> alternatives"""
    def __init__(self, model):
        self.arms, self.block_ty = {}, {}
        self.structs = model["structs"]
        for b in model["blocks"]:
            if b[0] != "B":
                continue
            _, labels, pty, arms = b
            for pl in labels:
                self.block_ty[pl] = pty
                for a in arms:
                    if a[0] != "A":
                        continue
                    for cl in a[1]:
                        self.arms[(pl, cl)] = a[2]
        self.ctx = {}
        for r in model["arows"]:
            self.ctx.setdefault(r["fn"], set()).update(r["labels"])

    def alt(self, plabel, clabel, sel):
        alts = self.arms.get((plabel, clabel))
        if not alts:
            return None
        for x in alts:
            if x[0] == "S" and sel is not None and x[5] == sel:
                return x
        return alts[0]

    def field(self, plabel, clabel, sel):
        x = self.alt(plabel, clabel, sel)
        if x is None:
            return None
        return x[6] if x[0] == "M" else x[3]

    def pushed_label(self, plabel, clabel, sel):
        x = self.alt(plabel, clabel, sel)
        pl = x[-1] if x else None
        return pl or clabel

    def ftype(self, sty, f):
        for g, k, t in self.structs.get(sty, []):
            if g == f and k == "ptr":
                return t
        return None

    def type_of(self, node):
        if node.label in self.block_ty:
            return self.block_ty[node.label]
        if node.label == "Descriptor_t":
            return "cgns_descr"
        p = node.parent
        f = self.field(p.label, node.label, node.sel) if p is not None else None
        t = self.ftype(self.type_of(p), f) if f else None
        return t or "unknown"


class Tree:
    def __init__(self, tab):
        self.tab = tab
        self.root = Node(0, "<file>", "ROOT", None)
        self.next = 1
        self.nodes = {0: self.root}

    def add(self, parent, label, name, sel=None):
        n = Node(self.next, label, name, parent, sel)
        self.next += 1
        parent.kids.append(n)
        self.nodes[n.id] = n
        return n

    def remove(self, n):
        n.parent.kids.remove(n)
        def drop(x):
            self.nodes.pop(x.id, None)
            for k in x.kids:
                drop(k)
        drop(n)

    def navigable(self):
        """nodes the goto table can reach (every ancestor step has an arm)"""
        out = []
        def go(n, lvl):
            for k in n.kids:
                if n is self.root or (n.label, k.label) in self.tab.arms:
                    if k.label != "Descriptor_t" and lvl <= MAX_LEVELS_BELOW_BASE:
                        out.append(k); go(k, lvl + 1)
        go(self.root, 0)
        return out

    def index_of(self, n):
        """(pushed label, index) of the step that reaches n from its parent"""
        p = n.parent
        if p is self.root:
            return "CGNSBase_t", 1 + [k for k in p.kids].index(n)
        x = self.tab.alt(p.label, n.label, n.sel)
        lab = self.tab.pushed_label(p.label, n.label, n.sel)
        if x[0] == "S":
            return lab, x[5]
        f = self.tab.field(p.label, n.label, n.sel)
        sibs = [k for k in p.kids if k.label != "Descriptor_t" and (p.label, k.label) in self.tab.arms and
                self.tab.field(p.label, k.label, k.sel) == f]
        return lab, 1 + sibs.index(n)

    def steps(self, n):
        """[(label, index, name)] from the base (exclusive) down to n, and the base number"""
        chain = []
        while n.parent is not self.root:
            lab, idx = self.index_of(n)
            chain.append((lab, idx, n.name)); n = n.parent
        return self.index_of(n)[1], n, list(reversed(chain))

    def mirror_lines(self):
        """the mirror for the model engine"""
        out = ["node 0 - - cgns_file <file> ROOT"]
        def go(n):
            for k in n.kids:
                if n is self.root:
                    f = "base"
                elif k.label == "Descriptor_t":
                    f = "descr"
                else:
                    f = self.tab.field(n.label, k.label, k.sel)
                    if f is None:
                        continue
                out.append("node %d %d %s %s %s %s" % (k.id, n.id, f, self.tab.type_of(k), k.label, k.name))
                go(k)
        go(self.root)
        out.append("commit 1")
        return out


# ----------------------------------------------------------------------------------------------- scenario generation
MODELS = ["GasModel_t", "ViscosityModel_t", "ThermalConductivityModel_t", "TurbulenceClosure_t", "TurbulenceModel_t",
          "ThermalRelaxationModel_t", "ChemicalKineticsModel_t", "EMElectricFieldModel_t", "EMMagneticFieldModel_t",
          "EMConductivityModel_t"]
PMODELS = ["ParticleCollisionModel_t", "ParticleBreakupModel_t", "ParticleForceModel_t", "ParticleWallInteractionModel_t",
           "ParticlePhaseChangeModel_t"]


SWEPT = {}          # label -> number of delete sweeps over sibling groups of that kind in this run

class Gen:
    def __init__(self, rng, tab, big):
        self.rng, self.tab, self.big = rng, tab, big
        self.tree = Tree(tab)
        self.script = []          # (command line, expectation dict or None)
        self.reopened = False
        self.last_named = []
        self.nname = 0
        self.nmark = 0
        self.stats = {"spellings": {}, "failures": {}, "kinds": set(), "deletes": 0, "targets": 0}

    # -- helpers
    def name(self, stem):
        self.nname += 1
        r = self.rng.random()
        if r < 0.08:
            s = ("%s%d_" % (stem, self.nname)).ljust(32, "x")          # a 32-character name
        elif r < 0.14:
            s = "%s.%d" % (stem, self.nname)                            # a dot inside a name
        elif r < 0.18:
            s = "..%s%d" % (stem, self.nname)                           # begins with dots
        else:
            s = "%s%d" % (stem, self.nname)
        return s[:32]

    def emit(self, line, **exp):
        self.script.append((line, exp or None))

    def idx_spelling(self, n):
        B, base, steps = self.tree.steps(n)
        return B, [(l, i) for l, i, _ in steps]

    def goto_idx(self, n):
        B, pairs = self.idx_spelling(n)
        return "goto %d %s" % (B, " ".join("%s %d" % p for p in pairs))

    def create(self, line, parent, kids):
        """emit a build command; kids = [(parent node, label, name, sel)] created by it, in order"""
        self.emit(line, kind="create")
        made = []
        for p, label, name, sel in kids:
            ex = [k for k in p.kids if k.name == name]
            if ex:
                made.append(ex[0]); continue
            made.append(self.tree.add(p, label, name, sel))
            self.stats["kinds"].add(label)
        return made

    def at(self, n, line, kids):
        """node-context writer at node n"""
        self.emit(self.goto_idx(n), kind="nav_build")
        return self.create(line, n, kids)

    # -- tree
    def ctx_children(self, n, depth=0):
        """node-context children valid under most kinds: user data (nested), arrays"""
        rng = self.rng
        if n.label in self.tab.ctx.get("cgi_user_data_address", ()) and (n.label, "UserDefinedData_t") in self.tab.arms \
                and n.depth() < 9:
            if rng.random() < 0.12:
                # names that differ from the list terminators "end" / "END" in case or by an extension: ordinary names
                tn = rng.choice(["End", "eNd", "ENd", "enD", "Endx", "EN", "END_", "endwall", "End1"])
                if tn not in {k.name for k in n.kids}:
                    self.at(n, "user %s" % tn, [(n, "UserDefinedData_t", tn, None)])
            for _ in range(rng.choice([0, 0, 1, 2] if depth else [0, 1, 1, 2])):
                nm = self.name("ud")
                u, = self.at(n, "user %s" % nm, [(n, "UserDefinedData_t", nm, None)])
                if depth < 2 and rng.random() < 0.5:
                    self.ctx_children(u, depth + 1)
        if n.label in ("UserDefinedData_t", "IntegralData_t", "BCData_t", "ConvergenceHistory_t") \
                and n.label in self.tab.ctx.get("cgi_array_address", ()) and (n.label, "DataArray_t") in self.tab.arms:
            for _ in range(rng.choice([0, 1, 2])):
                nm = self.name("arr")
                a, = self.at(n, "array %s" % nm, [(n, "DataArray_t", nm, None)])
                if rng.random() < 0.3:
                    self.ctx_children(a, 3)

    def common_ctx(self, n, B):
        """children that bases and zones share"""
        rng = self.rng
        conv = "GlobalConvergenceHistory" if n.label == "CGNSBase_t" else "ZoneConvergenceHistory"
        for _ in range(rng.choice([0, 1, 2])):
            nm = self.name("int")
            i, = self.at(n, "integral %s" % nm, [(n, "IntegralData_t", nm, None)])
            self.ctx_children(i, 1)
        if rng.random() < 0.6:
            s, = self.at(n, "state", [(n, "ReferenceState_t", "ReferenceState", None)])
            self.ctx_children(s, 1)
        if rng.random() < 0.5:
            c, = self.at(n, "converg", [(n, "ConvergenceHistory_t", conv, None)])
            self.ctx_children(c, 1)
        if rng.random() < 0.6:
            e, = self.at(n, "eqset", [(n, "FlowEquationSet_t", "FlowEquationSet", None)])
            if rng.random() < 0.7:
                g, = self.at(e, "governing", [(e, "GoverningEquations_t", "GoverningEquations", None)])
                self.ctx_children(g, 2)
            for m in rng.sample(MODELS, rng.randint(0, 4 if not self.big else 10)):
                mm, = self.at(e, "model %s" % m, [(e, m, m[:-2], None)])
                self.ctx_children(mm, 2)
            self.ctx_children(e, 1)
        if rng.random() < 0.4:
            r, = self.at(n, "rotating", [(n, "RotatingCoordinates_t", "RotatingCoordinates", None)])
            self.implicit_arrays(r, ["RotationCenter", "RotationRateVector"])      # written by cg_rotating_write itself
            self.ctx_children(r, 2)
        self.ctx_children(n, 0)

    def build(self):
        rng, T = self.rng, self.tree
        nb = rng.choice([1, 1, 2, 2])
        # two bases: half of the time the FIRST base's name has the second's name as a proper prefix ("Base7_f", "Base7"),
        # so that a path parser comparing a prefix of the name resolves /Base7/... to the wrong base
        second = self.name("Base")[:28]
        names = [second + "_f", second] if (nb == 2 and rng.random() < 0.5) else [self.name("Base") for _ in range(nb)]
        for bi in range(nb):
            bn = names[bi]
            base, = self.create("base %s" % bn, T.root, [(T.root, "CGNSBase_t", bn, None)])
            B = bi + 1
            zones = []
            for zi in range(rng.randint(1, 3)):
                zn = self.name("Zone")
                zt = rng.choice("su")
                z, = self.create("zone %d %s %s" % (B, zn, zt), base, [(base, "Zone_t", zn, None)])
                zones.append((z, zt, zi + 1))
            fams = []
            for fi in range(rng.choice([0, 1, 2])):
                fn_ = self.name("Fam")
                f, = self.create("family %d %s" % (B, fn_), base, [(base, "Family_t", fn_, None)])
                fams.append((f, fi + 1))
            has_biter = rng.random() < 0.5
            if has_biter:
                nm = self.name("BIter")
                bi_, = self.create("biter %d %s" % (B, nm), base, [(base, "BaseIterativeData_t", nm, None)])
                self.at(bi_, "timevalues", [(bi_, "DataArray_t", "TimeValues", None)])      # required for the file to be readable
                self.ctx_children(bi_, 1)
            pz = []
            for pi in range(rng.choice([0, 1, 1, 2])):
                pn = self.name("PZone")
                p, = self.create("pzone %d %s" % (B, pn), base, [(base, "ParticleZone_t", pn, None)])
                pz.append((p, pi + 1))
            if rng.random() < 0.4:
                g, = self.create("gravity %d" % B, base, [(base, "Gravity_t", "Gravity", None)])
                self.implicit_arrays(g, ["GravityVector"])
                self.ctx_children(g, 2)
            self.common_ctx(base, B)
            self.has_biter = has_biter
            for z, zt, Z in zones:
                self.build_zone(base, B, z, zt, Z, [zz for zz, _, _ in zones])
            for f, F in fams:
                self.build_family(B, f, F)
            for p, P in pz:
                self.build_pzone(B, p, P)

    def build_zone(self, base, B, z, zt, Z, zones):
        rng = self.rng
        gc = None
        for _ in range(rng.choice([0, 1, 2])):
            cn = rng.choice(["CoordinateX", "CoordinateY", "CoordinateZ", self.name("Coord")])
            if gc is not None and any(k.name == cn for k in gc.kids):
                continue
            made = self.create("coord %d %d %s" % (B, Z, cn), z, [(z, "GridCoordinates_t", "GridCoordinates", None)])
            gc = made[0]
            self.create("coord %d %d %s" % (B, Z, cn), gc, [(gc, "DataArray_t", cn, None)])
            self.script.pop(-2)                      # one command created both nodes
        for _ in range(rng.choice([0, 0, 1])):
            gn = self.name("Grid")
            g, = self.create("grid %d %d %s" % (B, Z, gn), z, [(z, "GridCoordinates_t", gn, None)])
            self.ctx_children(g, 2)
        if gc is not None:
            self.ctx_children(gc, 2)
        if zt == "u":
            for _ in range(rng.choice([0, 1, 2])):
                sn = self.name("Sec")
                s, = self.create("section %d %d %s" % (B, Z, sn), z, [(z, "Elements_t", sn, None)])
                self.ctx_children(s, 2)
        nsol = 0
        for _ in range(rng.choice([0, 1, 2])):
            sn = self.name("Sol")
            s, = self.create("sol %d %d %s" % (B, Z, sn), z, [(z, "FlowSolution_t", sn, None)])
            nsol += 1
            for _ in range(rng.choice([0, 1, 2])):
                fn_ = self.name("Fld")
                f, = self.create("field %d %d %d %s" % (B, Z, nsol, fn_), s, [(s, "DataArray_t", fn_, None)])
                if rng.random() < 0.3:
                    self.ctx_children(f, 3)
            self.ctx_children(s, 2)
        zbc, nbc = None, 0
        for _ in range(rng.choice([0, 1, 2])):
            bn = self.name("BC")
            made = self.create("boco %d %d %s %s" % (B, Z, bn, zt), z, [(z, "ZoneBC_t", "ZoneBC", None)])
            zbc = made[0]
            bc, pr = self.create("boco %d %d %s %s" % (B, Z, bn, zt), zbc, [(zbc, "BC_t", bn, None)]), None
            self.script.pop(-2)
            bc = bc[0]
            self.tree.add(bc, "IndexArray_t", "PointRange", None)
            self.stats["kinds"].add("IndexArray_t")
            nbc += 1
            nds = 0
            for _ in range(rng.choice([0, 1, 2, 3])):
                dn = self.name("DS")
                ds, = self.create("dataset %d %d %d %s" % (B, Z, nbc, dn), bc, [(bc, "BCDataSet_t", dn, None)])
                nds += 1
                for sel, nm in rng.sample([(2, "DirichletData"), (3, "NeumannData")], rng.randint(0, 2)):
                    bd, = self.create("bcdata %d %d %d %d %d" % (B, Z, nbc, nds, sel), ds, [(ds, "BCData_t", nm, sel)])
                    self.ctx_children(bd, 2)
                self.ctx_children(ds, 2)
            bp = None
            if rng.random() < 0.4:
                made = self.create("bcwall %d %d %d" % (B, Z, nbc), bc, [(bc, "BCProperty_t", "BCProperty", None)])
                bp = made[0]
                w, = self.create("bcwall %d %d %d" % (B, Z, nbc), bp, [(bp, "WallFunction_t", "WallFunction", None)])
                self.script.pop(-2)
                self.ctx_children(w, 2)
            if rng.random() < 0.4:
                made = self.create("bcarea %d %d %d" % (B, Z, nbc), bc, [(bc, "BCProperty_t", "BCProperty", None)])
                bp = made[0]
                a, = self.create("bcarea %d %d %d" % (B, Z, nbc), bp, [(bp, "Area_t", "Area", None)])
                self.implicit_arrays(a, ["SurfaceArea", "RegionName"])
                self.script.pop(-2)
                self.ctx_children(a, 2)
            if bp is not None:
                self.ctx_children(bp, 2)
            self.ctx_children(bc, 2)
        if zbc is not None:
            self.ctx_children(zbc, 2)
        zgc = None
        def need_zgc():
            nonlocal zgc
            if zgc is None:
                zgc = self.tree.add(z, "ZoneGridConnectivity_t", "ZoneGridConnectivity", None)
                self.stats["kinds"].add("ZoneGridConnectivity_t")
            return zgc
        nconn = 0
        for _ in range(rng.choice([0, 1, 2])):
            cn = self.name("Conn")
            zg = need_zgc()
            c, = self.create("conn %d %d %s %s %s" % (B, Z, cn, rng.choice(zones).name, zt), zg, [(zg, "GridConnectivity_t", cn, None)])
            nconn += 1
            cp = None
            if rng.random() < 0.5:
                made = self.create("cperio %d %d %d" % (B, Z, nconn), c, [(c, "GridConnectivityProperty_t", "GridConnectivityProperty", None)])
                cp = made[0]
                pe, = self.create("cperio %d %d %d" % (B, Z, nconn), cp, [(cp, "Periodic_t", "Periodic", None)])
                self.implicit_arrays(pe, ["RotationCenter", "RotationAngle", "Translation"])
                self.script.pop(-2)
                self.ctx_children(pe, 2)
            if rng.random() < 0.4:
                made = self.create("caverage %d %d %d" % (B, Z, nconn), c, [(c, "GridConnectivityProperty_t", "GridConnectivityProperty", None)])
                cp = made[0]
                av, = self.create("caverage %d %d %d" % (B, Z, nconn), cp, [(cp, "AverageInterface_t", "AverageInterface", None)])
                self.script.pop(-2)
                self.ctx_children(av, 2)
            if cp is not None:
                self.ctx_children(cp, 2)
            self.ctx_children(c, 2)
        if zt == "s":
            for _ in range(rng.choice([0, 1])):
                on = self.name("One")
                zg = need_zgc()
                o, = self.create("one21 %d %d %s %s" % (B, Z, on, rng.choice(zones).name), zg, [(zg, "GridConnectivity1to1_t", on, None)])
                self.ctx_children(o, 2)
        for _ in range(rng.choice([0, 1])):
            hn = self.name("Hole")
            zg = need_zgc()
            h, = self.create("hole %d %d %s" % (B, Z, hn), zg, [(zg, "OversetHoles_t", hn, None)])
            self.ctx_children(h, 2)
        if zgc is not None:
            self.ctx_children(zgc, 2)
        for cmd, label, stem in (("discrete", "DiscreteData_t", "Disc"), ("rigid", "RigidGridMotion_t", "Rigid"),
                                 ("arb", "ArbitraryGridMotion_t", "Arb"), ("subreg", "ZoneSubRegion_t", "Sub")):
            for _ in range(rng.choice([0, 1, 1, 2] if self.big else [0, 0, 1])):
                nm = self.name(stem)
                d, = self.create("%s %d %d %s" % (cmd, B, Z, nm), z, [(z, label, nm, None)])
                if cmd == "rigid":
                    self.at(d, "origin", [(d, "DataArray_t", "OriginLocation", None)])    # required for the file to be readable
                self.ctx_children(d, 2)
        if self.has_biter and rng.random() < 0.6:        # a ZoneIterativeData_t without BaseIterativeData_t is dropped on read
            nm = self.name("ZIter")
            zi, = self.create("ziter %d %d %s" % (B, Z, nm), z, [(z, "ZoneIterativeData_t", nm, None)])
            self.ctx_children(zi, 2)
        self.common_ctx(z, B)

    def build_family(self, B, f, F):
        rng = self.rng
        for _ in range(rng.choice([0, 1])):
            nm = self.name("FBC")
            fb, = self.create("fambc %d %d %s" % (B, F, nm), f, [(f, "FamilyBC_t", nm, None)])
            for _ in range(rng.choice([0, 1, 2])):
                dn = self.name("FDS")
                made = self.at(fb, "famdataset %s" % dn, [(fb, "FamilyBCDataSet_t", dn, None)])
                ds = made[0]
                self.tree.add(ds, "BCData_t", "DirichletData", 2)
                self.ctx_children(ds, 2)
        for _ in range(rng.choice([0, 1])):
            nm = self.name("Geo")
            g, = self.create("geo %d %d %s" % (B, F, nm), f, [(f, "GeometryReference_t", nm, None)])
            self.ctx_children(g, 2)
        if rng.random() < 0.4 and ("Family_t", "Family_t") in self.tab.arms:
            nm = self.name("SubFam")
            sf, = self.at(f, "nodefamily %s" % nm, [(f, "Family_t", nm, None)])
            self.ctx_children(sf, 2)
        if rng.random() < 0.3:
            r, = self.at(f, "rotating", [(f, "RotatingCoordinates_t", "RotatingCoordinates", None)])
            self.implicit_arrays(r, ["RotationCenter", "RotationRateVector"])
        self.ctx_children(f, 1)

    def build_pzone(self, B, p, P):
        rng = self.rng
        pc = None
        for _ in range(rng.choice([0, 1, 2])):
            cn = rng.choice(["CoordinateX", "CoordinateY", "CoordinateZ"])
            if pc is not None and any(k.name == cn for k in pc.kids):
                continue
            made = self.create("pcoord %d %d %s" % (B, P, cn), p, [(p, "ParticleCoordinates_t", "ParticleCoordinates", None)])
            pc = made[0]
            self.create("pcoord %d %d %s" % (B, P, cn), pc, [(pc, "DataArray_t", cn, None)])
            self.script.pop(-2)
        if pc is not None:
            self.ctx_children(pc, 2)
        ns = 0
        for _ in range(rng.choice([0, 1, 2])):
            sn = self.name("PSol")
            s, = self.create("psol %d %d %s" % (B, P, sn), p, [(p, "ParticleSolution_t", sn, None)])
            ns += 1
            for _ in range(rng.choice([0, 1])):
                fn_ = self.name("PFld")
                self.create("pfield %d %d %d %s" % (B, P, ns, fn_), s, [(s, "DataArray_t", fn_, None)])
            self.ctx_children(s, 2)
        if self.has_biter and rng.random() < 0.6:
            nm = self.name("PIter")
            pi, = self.create("piter %d %d %s" % (B, P, nm), p, [(p, "ParticleIterativeData_t", nm, None)])
            self.ctx_children(pi, 2)
        if rng.random() < 0.6:
            e, = self.at(p, "peqset", [(p, "ParticleEquationSet_t", "ParticleEquationSet", None)])
            if rng.random() < 0.7:
                g, = self.at(e, "pgoverning", [(e, "ParticleGoverningEquations_t", "ParticleGoverningEquations", None)])
                self.ctx_children(g, 2)
            for m in rng.sample(PMODELS, rng.randint(0, 3 if not self.big else 5)):
                mm, = self.at(e, "pmodel %s" % m, [(e, m, m[:-2], None)])
                self.ctx_children(mm, 2)
            self.ctx_children(e, 2)
        for _ in range(rng.choice([0, 1])):
            nm = self.name("pint")
            self.at(p, "integral %s" % nm, [(p, "IntegralData_t", nm, None)])
        if rng.random() < 0.4:
            self.at(p, "state", [(p, "ReferenceState_t", "ReferenceState", None)])
        self.ctx_children(p, 1)

    # -- observations
    def expect_where(self, n):
        B, base, steps = self.tree.steps(n)
        return "w 0 %d %d%s" % (B, len(steps), "".join(" %s:%d" % (l, i) for l, i, _ in steps))

    def can_mark(self, n):
        return n.label in self.tab.ctx.get("cgi_descr_address", ())

    def observe(self, n, mode, why):
        """after a navigation that should have reached n"""
        self.emit("where", kind="where", expect=self.expect_where(n), target=n.id, why=why)
        self.emit("at", kind="at", model_only=True, target=n.id)
        if mode in ("w", "m") and self.can_mark(n) and self.rng.random() < (1.0 if why == "initial" else 0.6):
            self.nmark += 1
            m = "M%d_%d" % (n.id, self.nmark)
            self.emit("mark %s" % m, kind="mark", expect="m 0 %s" % n.path(), target=n.id, why=why)
            self.tree.add(n, "Descriptor_t", m)
            n.markers.add(m)
        elif mode in ("r", "m") and self.can_mark(n):
            self.emit("readmark", kind="readmark", expect="r 0 %s" % (",".join(sorted(n.markers)) or "-"), target=n.id, why=why)

    def observe_cleared(self, why):
        self.emit("where", kind="where", expect="w 1", why=why)
        self.emit("at", kind="at", model_only=True, target=None)
        self.nmark += 1
        self.emit("mark X%d" % self.nmark, kind="mark_fail", why=why)
        self.emit("readmark", kind="readmark_fail", why=why)

    # -- spellings
    def slashes(self):
        return "/" * self.rng.choice([1, 1, 1, 2, 3])

    def path_of(self, names):
        s = ""
        for nm in names:
            s += self.slashes() + nm
        if self.rng.random() < 0.2:
            s += self.slashes()
        return s

    def mixed_pairs(self, steps, kind):
        out = []
        self.last_named = []
        for l, i, nm in steps:
            by_name = kind == "name" or (kind == "mixed" and self.rng.random() < 0.5)
            if by_name and nm not in ("end", "END"):
                out.append("%s 0" % nm); self.last_named.append(nm)
            else:
                out.append("%s %d" % (l, i))
        return " ".join(out)

    def known_key(self, n, named):
        """canonical key of a LISTED defect (known: line of KNOWN_FINDINGS.txt) that a by-name spelling of n's path runs
        into.  None at present: the four defects found while building this check were repaired in /repo (675ddb4, 8893bef,
        33d2c7d, defadad); their witnesses are in corpus/C11/ and a regression is an ordinary VIOLATION."""
        return None

    def navigate(self, n, mode):
        """reach node n by a random spelling, then observe"""
        rng = self.rng
        B, base, steps = self.tree.steps(n)
        kinds = ["goto_idx", "goto_name", "goto_mixed", "gopath_abs", "golist_idx", "golist_name", "where_replay",
                 "gorel", "gopath_rel", "golist_mixed"]
        k = rng.choice(kinds)
        self.stats["spellings"][k] = self.stats["spellings"].get(k, 0) + 1
        self.stats["targets"] += 1
        probe = rng.random() < 0.4
        if probe:
            # reference: the label+index spelling from the base (resets every piece of navigation state), then the
            # context-dependent readers; the same readers are called again after the spelling under test
            self.npair = getattr(self, "npair", 0) + 1
            self.emit("goto %d %s" % (B, self.mixed_pairs(steps, "idx")), kind="nav", ok=True, why="probe_ref")
            self.emit("probe", kind="probe_ref", pair=self.npair, impl_only=True)
            self.stats["probe_pairs"] = self.stats.get("probe_pairs", 0) + 1
        if k in ("goto_idx", "goto_name", "goto_mixed"):
            line = "goto %d %s" % (B, self.mixed_pairs(steps, k[5:]))
            self.emit(line, kind="nav", ok=True, why=k, known_key=self.known_key(n, self.last_named))
        elif k == "gopath_abs":
            self.emit("gopath %s" % self.path_of(n.path_names()), kind="nav", ok=True, why=k, known_key=self.known_key(n, n.path_names()))
        elif k.startswith("golist"):
            line = "golist %d %d %s" % (B, len(steps), self.mixed_pairs(steps, k[7:]))
            self.emit(line, kind="nav", ok=True, why=k, known_key=self.known_key(n, self.last_named))
        elif k == "where_replay":
            self.emit("goto %d %s" % (B, self.mixed_pairs(steps, "idx")), kind="nav", ok=True, why=k)
            self.emit("wherereplay", kind="nav", ok=True, why=k)
        else:
            # from another position in the same base: `..` up to the common ancestor, `.`, then down
            others = [x for x in self.tree.navigable() if self.tree.steps(x)[1] is base]
            x = rng.choice(others)
            _, _, xsteps = self.tree.steps(x)
            self.emit("goto %d %s" % (B, self.mixed_pairs(xsteps, "idx")), kind="nav", ok=True, why=k + ":start")
            c = 0
            xn, nn = x.path_names(), n.path_names()
            while c < len(xn) and c < len(nn) and xn[c] == nn[c]:
                c += 1
            c = max(c, 1)                                   # the base itself is the lowest common ancestor
            if rng.random() < 0.3 and c > 1:
                c -= 1                                      # a detour: one level higher than necessary
            ups = len(xn) - c
            down = steps[c - 1:]
            if k == "gorel":
                items = ["%s 0" % rng.choice([".", ".."]) if False else ".. 0"] * ups
                if rng.random() < 0.5:
                    items.insert(rng.randint(0, len(items)), ". 0")
                tail = self.mixed_pairs(down, rng.choice(["idx", "name", "mixed"]))
                if len(items) + len(down) <= 20:
                    self.emit("gorel %s %s" % (" ".join(items), tail), kind="nav", ok=True, why=k, known_key=self.known_key(n, self.last_named))
                else:
                    self.emit("goto %d %s" % (B, self.mixed_pairs(steps, "idx")), kind="nav", ok=True, why="goto_idx")
            else:
                segs = [".."] * ups
                if rng.random() < 0.5:
                    segs.insert(rng.randint(0, len(segs)), ".")
                segs += [nm for _, _, nm in down]
                if not segs:
                    segs = ["."]
                p = segs[0]
                for s in segs[1:]:
                    p += self.slashes() + s
                if len(segs) <= 20:
                    self.emit("gopath %s" % p, kind="nav", ok=True, why=k, known_key=self.known_key(n, [nm for _, _, nm in down]))
                else:
                    self.emit("goto %d %s" % (B, self.mixed_pairs(steps, "idx")), kind="nav", ok=True, why="goto_idx")
        if probe:
            self.emit("probe", kind="probe", pair=self.npair, impl_only=True, why=k)
        self.observe(n, mode, k)

    def fail_nav(self, mode):
        """a navigation that must fail; afterwards the position is cleared (or exactly unchanged: early rejections)"""
        rng = self.rng
        nav = self.tree.navigable()
        n = rng.choice(nav)
        B, base, steps = self.tree.steps(n)
        pre = self.mixed_pairs(steps, "idx")
        kinds = ["bad_label", "index_zero_label", "index_count_plus_1", "missing_name", "gopath_missing", "gopath_too_deep",
                 "goto_too_deep", "long_name", "long_path_segment", "up_beyond_base", "bad_base", "gopath_bad_base",
                 "golist_depth_20", "gopath_empty", "gorel_missing", "negative_index", "gopath_rel_missing",
                 "wrong_label_right_index"]
        if getattr(self, "too_deep", None) is not None:
            kinds += ["node_too_deep"] * 3
        k = rng.choice(kinds)
        self.stats["failures"][k] = self.stats["failures"].get(k, 0) + 1
        unchanged = False
        start = None
        if k in ("golist_depth_20", "gopath_empty", "gorel_missing", "gopath_rel_missing", "up_beyond_base"):
            start = n
            self.emit("goto %d %s" % (B, pre), kind="nav", ok=True, why=k + ":start")
        # a child array of n and its count
        arms = [(cl, alts) for (pl, cl), alts in sorted(self.tab.arms.items()) if pl == n.label]
        if k == "bad_label":
            bad = rng.choice(["Zone_t" if n.label != "CGNSBase_t" else "BC_t", "CGNSBase_t", "NoSuchLabel_t", "Descriptor_t"])
            self.emit("goto %d %s %s 1" % (B, pre, bad), kind="nav", ok=False, why=k)
        elif k == "index_zero_label":
            cl = rng.choice(arms)[0] if arms else "UserDefinedData_t"
            self.emit("goto %d %s %s 0" % (B, pre, cl), kind="nav", ok=False, why=k)
        elif k in ("index_count_plus_1", "negative_index", "wrong_label_right_index"):
            multi = [(cl, alts) for cl, alts in arms if alts[0][0] == "M"]
            if not multi:
                multi = [("UserDefinedData_t", None)]
            cl, alts = rng.choice(multi)
            f = self.tab.field(n.label, cl, None)
            cnt = len([x for x in n.kids if x.label != "Descriptor_t" and (n.label, x.label) in self.tab.arms and
                       self.tab.field(n.label, x.label, x.sel) == f]) if alts else 0
            if k == "index_count_plus_1":
                self.emit("goto %d %s %s %d" % (B, pre, cl, cnt + 1), kind="nav", ok=False, why=k)
            elif k == "negative_index":
                self.emit("golist %d %d %s %s %d" % (B, len(steps) + 1, pre, cl, -rng.randint(1, 3)), kind="nav", ok=False, why=k)
            else:
                # an index valid for ANOTHER array of the node, asked of an array that is shorter
                other = max([len([x for x in n.kids if self.tab.field(n.label, x.label, x.sel) == self.tab.field(n.label, c2, None)])
                             for c2, a2 in multi] + [0])
                if other > cnt:
                    self.emit("goto %d %s %s %d" % (B, pre, cl, other), kind="nav", ok=False, why=k)
                else:
                    self.emit("goto %d %s %s %d" % (B, pre, cl, cnt + 2), kind="nav", ok=False, why=k)
        elif k == "missing_name":
            self.emit("goto %d %s NoSuchNode%d 0" % (B, pre, rng.randint(0, 99)), kind="nav", ok=False, why=k)
        elif k == "gopath_missing":
            self.emit("gopath %s/NoSuchNode" % self.path_of(n.path_names()).rstrip("/"), kind="nav", ok=False, why=k)
        elif k == "gopath_too_deep":
            self.emit("gopath /%s%s" % (base.name, "/." * 21), kind="nav", ok=False, why=k)
        elif k == "node_too_deep" and getattr(self, "too_deep", None) is not None:
            d = self.too_deep
            B2, base2, st2 = self.tree.steps(d)
            how = rng.choice(["idx", "name", "path", "list"])
            if how == "path":
                self.emit("gopath %s" % self.path_of(d.path_names()), kind="nav", ok=False, why=k)
            elif how == "list":
                self.emit("golist %d %d %s" % (B2, len(st2), self.mixed_pairs(st2, "idx")), kind="nav", ok=False, why=k)
            else:
                self.emit("goto %d %s" % (B2, self.mixed_pairs(st2, how)), kind="nav", ok=False, why=k)
        elif k == "goto_too_deep":
            self.emit("goto %d %s" % (B, " ".join([". 0"] * 19 + ["UserDefinedData_t 1"] * 3)), kind="nav", ok=None, why=k)
        elif k == "long_name":
            self.emit("goto %d %s %s 0" % (B, pre, "L" * rng.choice([33, 40, 100])), kind="nav", ok=False, why=k)
        elif k == "long_path_segment":
            self.emit("gopath %s/%s" % (self.path_of(n.path_names()).rstrip("/"), "L" * rng.choice([33, 64])), kind="nav", ok=False, why=k)
        elif k == "up_beyond_base":
            self.emit("gorel %s" % " ".join([".. 0"] * (len(steps) + 1)), kind="nav", ok=False, why=k)
        elif k == "bad_base":
            self.emit("goto %d %s" % (len(self.tree.root.kids) + rng.choice([1, 5]), pre), kind="nav", ok=False, why=k)
        elif k == "gopath_bad_base":
            self.emit("gopath /NoSuchBase/%s" % "/".join(n.path_names()[1:]), kind="nav", ok=False, why=k)
        elif k == "golist_depth_20":
            self.emit("golist %d %d %s" % (B, rng.choice([20, 21, 40]), pre), kind="nav", ok=False, why=k)
            unchanged = True
        elif k == "gopath_empty":
            self.emit("gopath <empty>", kind="nav", ok=False, why=k)
            unchanged = True
        elif k == "gorel_missing":
            self.emit("gorel NoSuchNode 0", kind="nav", ok=False, why=k)
        elif k == "gopath_rel_missing":
            self.emit("gopath ./NoSuchNode", kind="nav", ok=False, why=k)
        if k == "goto_too_deep":
            # 22 pairs: the library reads 20 of them; whatever it does the status must be an error or the position sound
            self.emit("where", kind="where_any", why=k)
            return
        if unchanged:
            self.observe(start, mode, k + ":unchanged")
        else:
            self.observe_cleared(k)

    def reopen(self):
        self.reopened = True
        self._reopen()

    def _reopen(self):
        """cgi_read_base populates zones and particle zones in strcmp order of their names (every other array keeps
        the order of the file's child table = creation order)"""
        for b in self.tree.root.kids:
            zs = sorted([k for k in b.kids if k.label == "Zone_t"], key=lambda k: k.name.encode())
            ps = sorted([k for k in b.kids if k.label == "ParticleZone_t"], key=lambda k: k.name.encode())
            b.kids = zs + ps + [k for k in b.kids if k.label not in ("Zone_t", "ParticleZone_t")]

    def deletable(self):
        cands = [x for x in self.tree.navigable()
                 if x.label in ("UserDefinedData_t", "IntegralData_t", "DiscreteData_t", "FlowSolution_t", "Family_t",
                                "RigidGridMotion_t", "ArbitraryGridMotion_t", "ZoneSubRegion_t", "GridConnectivity_t",
                                "OversetHoles_t", "BC_t", "BCDataSet_t", "Elements_t")
                 or (x.label == "DataArray_t" and x.parent.label == "UserDefinedData_t")]
        return [x for x in cands if x.parent is not self.tree.root]

    def implicit_arrays(self, node, names):
        """DataArray_t children the writer of `node` creates by itself: they are nodes of the tree (countable, navigable)"""
        if (node.label, "DataArray_t") in self.tab.arms:
            for nm in names:
                self.tree.add(node, "DataArray_t", nm, None)
            self.stats["kinds"].add("DataArray_t")

    def deep_chain(self):
        """UserDefinedData_t nested below the first base down to level 20: levels 1..19 are positions, level 20 is a node
        that exists in the file and in memory but lies beyond the position stack: every spelling must refuse it"""
        bases = [k for k in self.tree.root.kids if k.label == "CGNSBase_t"]
        if not bases or ("CGNSBase_t", "UserDefinedData_t") not in self.tab.arms:
            return
        n = bases[0]
        top = int(os.environ.get("C11_CHAIN", "20"))
        for lvl in range(1, top + 1):
            nm = "L%02d" % lvl
            n, = self.at(n, "user %s" % nm, [(n, "UserDefinedData_t", nm, None)])
            self.too_deep = n if lvl == 20 else None
        self.stats["deep_chain"] = 1

    def delete_sweep(self, limit):
        """for up to `limit` (parent, kind) groups with two or more deletable siblings: delete one that is NOT the last
        of its kind, then address every remaining sibling (delete_some does that) -- each arm of cg_delete_node compacts
        its own child table"""
        groups = {}
        for x in self.deletable():
            groups.setdefault((id(x.parent), x.label), []).append(x)
        multi = [g for g in groups.values() if len(g) >= 2]
        self.rng.shuffle(multi)
        # across the histories of one run every kind of sibling group gets its turn: kinds swept least often first
        multi.sort(key=lambda g: SWEPT.get(g[0].label, 0))
        seen = set()
        for g in multi:
            if len(seen) >= limit:
                break
            if g[0].label in seen and self.rng.random() < 0.7:
                continue
            seen.add(g[0].label)
            # the group may have lost members through an earlier deletion of an ancestor
            g = [x for x in g if x in self.deletable()]
            if len(g) >= 2:
                self.delete_some(self.rng.choice(g[:-1]))
                SWEPT[g[0].label] = SWEPT.get(g[0].label, 0) + 1
                self.stats["delete_sweep"] = self.stats.get("delete_sweep", 0) + 1

    def delete_some(self, x=None):
        """cg_delete_node of a random deletable child (modify mode); the position stays at the parent"""
        rng = self.rng
        if x is None:
            cands = self.deletable()
            if not cands:
                return
            x = rng.choice(cands)
        p = x.parent
        B, base, steps = self.tree.steps(p)
        line = "goto %d %s" % (B, self.mixed_pairs(steps, rng.choice(["idx", "name"])))
        if self.known_key(p, self.last_named):
            line = "goto %d %s" % (B, self.mixed_pairs(steps, "idx"))
        self.emit(line, kind="nav", ok=True, why="delete:start")
        self.emit("delete %s" % x.name, kind="delete", expect="d 0")
        self.tree.remove(x)
        self.stats["deletes"] += 1
        self.emit("@mirror", kind="mirror")
        # the position (the parent) is still valid: observe it, then continue relative to it
        self.emit("where", kind="where", expect=self.expect_where(p), target=p.id, why="after_delete")
        self.emit("at", kind="at", model_only=True, target=p.id)
        sibs = [k for k in p.kids if k.label != "Descriptor_t" and (p.label, k.label) in self.tab.arms]
        if sibs:
            s = rng.choice(sibs)
            lab, idx = self.tree.index_of(s)
            byname = rng.random() < 0.5
            self.emit("gorel %s" % (("%s 0" % s.name) if byname else ("%s %d" % (lab, idx))), kind="nav", ok=True, why="after_delete:gorel",
                      known_key=self.known_key(s, [s.name]) if byname else None)
            self.observe(s, "m", "after_delete")
        # every remaining sibling of the deleted node's kind must still be addressable by every spelling (the mirror's
        # child table was compacted: a wrong bound or a missed shift shows on the siblings BEHIND the deleted one)
        same = [k for k in p.kids if k.label == x.label and k.label != "Descriptor_t" and (p.label, k.label) in self.tab.arms]
        for s2 in same[-4:]:
            self.navigate(s2, "m")


def gen_scenario(rng, tab, big, fname):
    g = Gen(rng, tab, big)
    g.emit("open w %s" % fname, kind="create")
    g.build()
    if os.environ.get("C11_CHAIN"):
        # a 20-level chain makes the extracted model's evaluation time grow exponentially with the depth (the engine
        # re-derives every ancestor at every step): kept as an opt-in experiment (C11_CHAIN=<levels>), not part of the tiers
        g.deep_chain()
    g.emit("@mirror", kind="mirror")
    nav = g.tree.navigable()
    # a marker at every node, through label+index navigation
    order = list(nav)
    rng.shuffle(order)
    for n in order:
        g.emit(g.goto_idx(n), kind="nav", ok=True, why="initial")
        g.observe(n, "w", "initial")
    g.emit("@mirror", kind="mirror")
    nt = (60 if big else 22)
    for i in range(nt):
        if rng.random() < 0.3:
            g.fail_nav("w")
        else:
            g.navigate(rng.choice(nav), "w")
        if rng.random() < 0.25:
            g.emit("@mirror", kind="mirror")
    g.emit("close", kind="create")
    g.emit("open r %s" % fname, kind="create")
    g.reopen()
    g.emit("@mirror", kind="mirror")
    for i in range(nt):
        if rng.random() < 0.3:
            g.fail_nav("r")
        else:
            g.navigate(rng.choice(nav), "r")
    g.emit("close", kind="create")
    g.emit("open m %s" % fname, kind="create")
    g.reopen()
    g.emit("@mirror", kind="mirror")
    for i in range(nt):
        r = rng.random()
        if r < 0.2:
            g.fail_nav("m")
        elif r < 0.4:
            g.delete_some()
        else:
            nav = g.tree.navigable()
            g.navigate(rng.choice(nav), "m")
        if rng.random() < 0.25:
            g.emit("@mirror", kind="mirror")
    g.delete_sweep(5 if big else 3)
    g.emit("@mirror", kind="mirror")
    g.emit("close", kind="create")
    return g


# ----------------------------------------------------------------------------------------------- running and judging
def judge(script, il, outcome, ml_by_cmd, known=None):
    """oracle (independent of the model) + correspondence.  script: [(line, exp)] without placeholders for the impl.
    -> (failures, divergences); each a dict naming the command index"""
    fails, divs = [], []
    skip = False
    refs = {}
    for i, (line, exp) in enumerate(script):
        got = il[i] if i < len(il) else None
        mod = ml_by_cmd.get(i)
        kind = exp["kind"] if exp else None
        if got is None:
            if outcome != "ok":
                fails.append({"at": i, "cmd": line, "what": "run ended: " + outcome})
            else:
                fails.append({"at": i, "cmd": line, "what": "no output"})
            break
        if kind in ("create", "nav_build"):
            if not re.fullmatch(r"[cn] 0", got):
                fails.append({"at": i, "cmd": line, "what": "build step failed", "got": got, "generator_problem": True})
                break
        elif kind == "nav":
            st = int(got.split()[1]) if got.startswith("n ") else None
            skip = False
            if exp["ok"] is True and st != 0 and exp.get("known_key"):
                # a listed defect: the observations that follow this navigation are void
                if known is not None:
                    known.setdefault(exp["known_key"], {"at": i, "cmd": line, "got": got})
                skip = True
                continue
            if exp["ok"] is True and st != 0:
                fails.append({"at": i, "cmd": line, "what": "a valid spelling of an existing node was refused", "got": got, "why": exp["why"]})
            if exp["ok"] is False and st == 0:
                fails.append({"at": i, "cmd": line, "what": "an invalid navigation reported success", "got": got, "why": exp["why"]})
            if mod is not None and mod != got and not (exp["ok"] is False and st not in (0, None) and mod.startswith("n ") and mod != "n 0"):
                divs.append({"at": i, "cmd": line, "model": mod, "impl": got})
            elif mod is not None and mod != got:
                divs.append({"at": i, "cmd": line, "model": mod, "impl": got, "status_code_only": True})
        elif skip and kind in ("where", "mark", "readmark", "where_any", "probe"):
            continue
        elif kind == "probe_ref":
            refs[exp["pair"]] = got
        elif kind == "probe":
            if exp["pair"] in refs and refs[exp["pair"]] != got:
                fails.append({"at": i, "cmd": line, "what": "node-context readers answer differently at the same node depending on how "
                              "the position was reached (label+index from the base vs this spelling)",
                              "got": got, "expected": refs[exp["pair"]], "why": exp.get("why")})
        elif kind == "where":
            if got != exp["expect"]:
                fails.append({"at": i, "cmd": line, "what": "cg_where differs from the target's label/index path" if exp["expect"] != "w 1"
                              else "the position is still set after a failed navigation", "got": got, "expected": exp["expect"], "why": exp.get("why")})
            if mod is not None and mod != got:
                divs.append({"at": i, "cmd": line, "model": mod, "impl": got})
        elif kind == "where_any":
            if mod is not None and mod != got:
                divs.append({"at": i, "cmd": line, "model": mod, "impl": got})
        elif kind == "mark":
            if got != exp["expect"]:
                fails.append({"at": i, "cmd": line, "what": "the marker written at the position is not under the intended node",
                              "got": got, "expected": exp["expect"], "why": exp.get("why")})
        elif kind == "readmark":
            if got != exp["expect"]:
                fails.append({"at": i, "cmd": line, "what": "the descriptors read at the position are not the intended node's",
                              "got": got, "expected": exp["expect"], "why": exp.get("why")})
        elif kind == "mark_fail":
            if got.startswith("m 0"):
                fails.append({"at": i, "cmd": line, "what": "a node-context write succeeded after a failed navigation", "got": got, "why": exp.get("why")})
        elif kind == "readmark_fail":
            if got.startswith("r 0"):
                fails.append({"at": i, "cmd": line, "what": "a node-context read succeeded after a failed navigation", "got": got, "why": exp.get("why")})
        elif kind == "delete":
            if got != exp["expect"]:
                fails.append({"at": i, "cmd": line, "what": "cg_delete_node failed", "got": got, "generator_problem": True})
                break
    if outcome != "ok" and not any("run ended" in f["what"] for f in fails):
        fails.append({"at": len(il), "cmd": script[len(il)][0] if len(il) < len(script) else None, "what": "run ended: " + outcome})
    return fails, divs


def split_streams(g, backend, id2node_path):
    """impl script (no placeholders, no model-only commands) and model script; map impl command index -> model line index"""
    impl, impl_exp, model = ["ft %s" % backend], [("ft %s" % backend, {"kind": "create"})], []
    want = []           # (model line index, impl index or None, exp)
    mi = 0
    for line, exp in g.script:
        kind = exp["kind"] if exp else None
        if kind == "mirror":
            model.extend(exp["lines"])
            continue
        if exp and exp.get("model_only"):
            model.append(line); want.append((mi, None, exp)); mi += 1
            continue
        impl.append(line); impl_exp.append((line, exp))
        w = line.split()[0]
        if w in ("goto", "gorel", "golist", "gopath", "wherereplay", "where"):
            model.append(line); want.append((mi, len(impl) - 1, exp)); mi += 1
        elif w == "close":
            pass
    return impl, impl_exp, model, want


def run_one(exe, g, backend, work, other=None):
    """other = back end of a second file the harness keeps open and reads before every command (None: one file only)"""
    impl, impl_exp, model, want = split_streams(g, backend, None)
    env = {"C11_OTHER": "%s:%s" % (os.path.join(work, "c11_other_%s.cgns" % other), other)} if other else None
    il, outcome = vlib.run_impl(exe, "\n".join(impl) + "\n", cwd=work, timeout=900, env=env)
    ml = vlib.run_model("c11", "\n".join(model) + "\n")
    by = {}
    at_problems = []
    for (mi, ii, exp) in want:
        if mi >= len(ml):
            break
        if ii is not None:
            by[ii] = ml[mi]
        else:
            # `at`: the struct the model's position designates must be the target (None = cleared)
            t = exp.get("target")
            exp_line = "at %d" % t if t is not None else "at none"
            if ml[mi] != exp_line:
                at_problems.append({"model_at": ml[mi], "expected": exp_line})
    known = {}
    fails, divs = judge(impl_exp, il, outcome, by, known)
    for a in at_problems[:3]:
        divs.append({"cmd": "at", "model": a["model_at"], "impl": a["expected"], "note": "model position vs generator's target"})
    return fails, divs, impl, il, outcome, known


# generation must snapshot the mirror at each "@mirror": wrap Gen.emit
_orig_emit = Gen.emit
def _emit(self, line, **exp):
    if line == "@mirror":
        exp["lines"] = self.tree.mirror_lines()
    _orig_emit(self, line, **exp)
Gen.emit = _emit


def engine_tables():
    out = vlib.run_model("c11", "tables\n")
    res = {"table_ok": None, "bad_arm": [], "bad_label": [], "bad_arow": [], "unreachable": [], "changed_shape": []}
    for l in out:
        w = l.split()
        if w[0] == "table_ok":
            res["table_ok"] = w[1] == "true"
        elif w[0] in res:
            res[w[0]].append(" ".join(w[1:]))
    return res


def run(ck):
    big = ck.tier == "thorough"
    vlib.build_impl()
    info, model = c11_goto.write_gen(repo=vlib.REPO)
    exe = vlib.build_harness("c11_nav", ["c11_nav.c"])
    res = vlib.coq_check_properties("C11")
    broken = ck.proof_result(res, CHECKER)
    forb = vlib.coq_forbidden_scan("C11")
    ck.extra["forbidden_tokens"] = forb
    if forb:
        ck.violation({"broken_obligation": "forbidden tokens in the C11 Coq files", "hits": forb}, nofail=True)
    ck.extra["translator"] = {k: info[k] for k in ("files", "goto", "dispatch", "structs", "parsed", "unparsed", "unparsed_list",
                                                   "shape_functions", "shape_missing", "consts", "gen_sha1")}
    tab = Tables(model)
    tables = None
    try:
        vlib.build_modelrun("c11")
        tables = engine_tables()
    except vlib.Infra as e:
        if not broken:
            raise
        ck.extra["engine_unavailable"] = str(e)[-400:]
    ck.extra["table_diagnostics"] = tables
    ck.cov["trusted_base"] = [
        "Coq 8.16.1 kernel + vm_compute (no native_compute)",
        "translators/c11_goto.py (tokenizer + template matcher over cgi_next_posit, the label dispatchers, the struct "
        "declarations of cgns_header.h) -- every arm it cannot match becomes an Unparsed row; every parsed arm reachable "
        "from the generated trees is exercised by the correspondence run",
        "the mirror abstraction of coq/Goto.v: C pointers into the in-memory tree = addresses (field, index); the hypotheses "
        "mirror_ok (a count declared next to an array holds its length: the invariant the library's readers/writers maintain), "
        "names_ok, labels_ok, file_sync (file and memory agree: property C04's business)",
        "the hand transcription of cgi_update_posit, cgi_set_posit, vcg_goto, vcg_gorel, cg_gopath, cg_golist, cg_where "
        "(validated by the correspondence run and pinned by C11_shapes)",
        "extraction: ExtrOcamlBasic only; OCaml 4.13.1; ocaml/eng_c11.ml (builds the mirror from the generator's tree)",
        "harness/c11_nav.c (incl. the cgio walk that locates markers), this generator's own tree, ASan/UBSan",
    ]
    ck.assumptions = ["64-bit build; one open file per scenario (fn = 1); no links; names without blanks and '/'",
                      "the in-memory arrays list children in creation order also after close/reopen (no overwrite-by-name in the scenarios)",
                      "use of a STALE position whose struct was freed or shifted by a deletion is not covered (memory safety, seen only by ASan)",
                      "cg_goto / cg_gorel stop at a pair whose label is \"end\"/\"END\": a node of that name cannot be addressed by name through them",
                      "the *_f08 variants and the Fortran wrappers differ only in argument decoding (C20) and are not called here",
                      "malloc never fails"]
    ck.cov["rule"] = ("seeded random trees built through the mid-level API and node-context writers (bases, zones S/U, families + "
                      "FamilyBC + FamilyBCDataSet + GeometryReference + nested families, grid coordinates, sections, solutions + fields, "
                      "BCs + PointRange + datasets + BCData D/N + BCProperty/WallFunction/Area, connectivities + property/periodic/average, "
                      "1to1, holes, discrete, rigid/arbitrary motion, iterative data, sub-regions, integral data, reference state, convergence, "
                      "equation sets + governing + 10 model kinds, rotating, gravity, particle zones + coordinates/solutions/fields/iterative/"
                      "equation set/governing/5 model kinds, user-defined data nested to depth 3, data arrays); a marker at EVERY node, then "
                      "random targets x 10 spellings x 3 open modes, ~30% failing navigations of 18 kinds, deletions in modify mode; ADF and "
                      "HDF5.  non-trivial = a navigation followed by an observation (cg_where + marker / descriptor read); distinct by "
                      "(backend, mode, spelling or failure kind, target label, depth)")
    nsc = 6 if big else 3
    dist = {"scenarios": 0, "commands": 0, "nodes": 0, "navigations": 0, "spellings": {}, "failures": {}, "kinds": set(), "deletes": 0}
    found = []
    all_divs = []
    gen_problems = []
    known_seen = {}

    def one(seed_rng, backend, j, label):
        fname = "c11_%s_%s_%d.cgns" % (label, backend, j)
        p = os.path.join(ck.work, fname)
        if os.path.exists(p):
            os.unlink(p)
        g = gen_scenario(seed_rng, tab, big, fname)
        # every other scenario runs with a second file (of the OTHER back end) open and read before every command
        other = ({"adf": "hdf5", "hdf5": "adf"}[backend] if backend in ("adf", "hdf5") else None) if (j + (0 if backend == "adf" else 1)) % 2 == 0 else None
        dist["with_other_file_open"] = dist.get("with_other_file_open", 0) + (1 if other else 0)
        fails, divs, impl, il, outcome, known = run_one(exe, g, backend, ck.work, other)
        for key, wit in known.items():
            known_seen.setdefault(key, {"backend": backend, "script": impl[: wit["at"] + 1], "cmd": wit["cmd"], "got": wit["got"]})
        dist["scenarios"] += 1
        dist["commands"] += len(impl)
        dist["nodes"] += len(g.tree.nodes)
        dist["deletes"] += g.stats["deletes"]
        dist["kinds"] |= g.stats["kinds"]
        for k, v in g.stats["spellings"].items():
            dist["spellings"][k] = dist["spellings"].get(k, 0) + v
        for k, v in g.stats["failures"].items():
            dist["failures"][k] = dist["failures"].get(k, 0) + v
        ck.cov["traces_validated_against_impl"] += 1
        mode = "w"
        for (line, exp) in g.script:
            if line.startswith("open "):
                mode = line.split()[1]
            if exp and exp["kind"] in ("where", "mark", "readmark", "mark_fail", "readmark_fail"):
                t = g.tree.nodes.get(exp.get("target")) if exp.get("target") is not None else None
                key = (backend, mode, exp.get("why"), t.label if t else None, t.depth() if t else None)
                ck.case(key, sample={"backend": backend, "mode": mode, "command": line, "expected": exp.get("expect"), "why": exp.get("why")}
                        if len(ck.cov["samples"]) < 5 and exp["kind"] in ("mark", "readmark") and exp.get("why") not in ("initial",) else None)
            elif exp and exp["kind"] == "nav":
                dist["navigations"] += 1
        real = [f for f in fails if not f.get("generator_problem")]
        gp = [f for f in fails if f.get("generator_problem")]
        if gp:
            gen_problems.append({"backend": backend, "scenario": j, "detail": gp[0]})
        for f in real[:1]:
            found.append({"backend": backend, "scenario": label, "failure": f, "script": impl[: f["at"] + 1] if isinstance(f.get("at"), int) else impl,
                          "outcome": outcome, "other_file_open": other,
                          "note": ("a second file (%s) is open read-only and read (cg_nbases) before every command: C11_OTHER=<path>:%s" % (other, other)) if other else None})
        for d in divs[:3]:
            d = dict(d); d["backend"] = backend
            all_divs.append(d)
        return g

    # minimized past failures first
    cdir = os.path.join(vlib.ROOT, "corpus", "C11")
    ncorpus = 0
    if os.path.isdir(cdir):
        for fn_ in sorted(os.listdir(cdir)):
            if not fn_.endswith(".script"):
                continue
            r = run_corpus(exe, os.path.join(cdir, fn_), ck.work)
            ncorpus += 1
            ck.cov["evaluations"] += 1
            ck.cov["traces_validated_against_impl"] += 1
            if r:
                found.append({"corpus": fn_, "failure": r})
    dist["corpus_scripts"] = ncorpus
    for j in range(nsc):
        for backend in ("adf", "hdf5"):
            one(ck.rng, backend, j, "s")
    # ---- verdict logic
    new_bad = []
    if tables:
        new_bad = tables["bad_arm"] + tables["bad_label"] + tables["bad_arow"] + tables["changed_shape"]
    ck.extra["side_findings"] = {"dispatcher_labels_never_pushed_by_goto": tables["unreachable"] if tables else None}
    ck.extra["delete_sweep_kinds"] = dict(SWEPT)
    if (broken or all_divs or new_bad) and not found:
        # widen: more scenarios (the generator visits every arm it can build; a broken row must be exercised)
        for j in range(6 if not big else 10):
            for backend in ("adf", "hdf5"):
                one(ck.rng, backend, 100 + j, "w")
                if found:
                    break
            if found:
                break
    for key, wit in sorted(known_seen.items()):
        ck.finding(key, {"oracle": "a by-name spelling of an existing node's path must reach it (as the label+index spelling does)",
                         "witness": wit})
    for f in found[:3]:
        ck.violation({"oracle": ORACLE, "witness": f, "broken_obligations": broken, "rows_failing": new_bad,
                      "replay_hint": ".build/h/c11_nav < script (one command per line)"})
    if not found and (broken or all_divs or new_bad):
        ck.violation({"broken_obligations": broken, "rows_failing_table_ok": new_bad, "model_vs_implementation": all_divs[:5],
                      "note": "an obligation over the regenerated goto / dispatcher tables (or the shape of a hand-transcribed function) no "
                              "longer checks, or model and implementation differ, but on every scenario explored all spellings still reach the "
                              "intended node, failures still clear the position, and no sanitizer report was produced"},
                     nofail=True)
    if gen_problems:
        ck.extra["generator_problems"] = gen_problems[:5]
    dist["kinds"] = sorted(dist["kinds"])
    dist["kinds_count"] = len(dist["kinds"])
    ck.extra["input_distribution"] = dist
    ck.extra["model_vs_impl_divergences"] = len(all_divs)


def run_corpus(exe, path, work):
    """corpus script: lines `<command> => <expected output line or regex prefixed with ~>`; # comments"""
    cmds, exps = [], []
    for l in open(path):
        l = l.rstrip("\n")
        if not l.strip() or l.startswith("#"):
            continue
        c, _, e = l.partition("=>")
        cmds.append(c.strip()); exps.append(e.strip())
    for f in os.listdir(work):
        if f.startswith("corpus_"):
            os.unlink(os.path.join(work, f))
    il, outcome = vlib.run_impl(exe, "\n".join(cmds) + "\n", cwd=work, timeout=120)
    if outcome != "ok":
        return {"what": "run ended: " + outcome, "after": il[-2:], "next": cmds[len(il)] if len(il) < len(cmds) else None, "script": cmds}
    for i, (c, e) in enumerate(zip(cmds, exps)):
        got = il[i] if i < len(il) else None
        if not e:
            continue
        ok = re.fullmatch(e[1:].strip(), got or "") if e.startswith("~") else got == e
        if not ok:
            return {"at": i, "cmd": c, "got": got, "expected": e, "script": cmds[: i + 1]}
    return None


def replay(ck, path):
    r = json.load(open(path))
    vlib.build_impl()
    exe = vlib.build_harness("c11_nav", ["c11_nav.c"])
    w = r.get("witness") or {}
    script = w.get("script") or (w.get("failure") or {}).get("script")
    if not script:
        print("replay names a broken obligation/correspondence, no input to run:", json.dumps(r)[:800]); return 1
    oth = w.get("other_file_open")
    env = {"C11_OTHER": "%s:%s" % (os.path.join(ck.work, "c11_other_%s.cgns" % oth), oth)} if oth else None
    il, outcome = vlib.run_impl(exe, "\n".join(script) + "\n", cwd=ck.work, timeout=300, env=env)
    f = w.get("failure", {})
    last = il[-1] if il else None
    fails = outcome != "ok" or (f.get("got") is not None and last == f.get("got"))
    print("replay: property C11 on this input: %s %s" % ("FAILS" if fails else "holds",
          json.dumps({"outcome": outcome, "last_line": last, "expected": f.get("expected"), "what": f.get("what")})))
    return 1 if fails else 0
