"""C18 -- looking a zone up by name always finds the zone with that name.

Proof side : coq/Properties_C18.v (HashMap.v / ZoneMirror.v models of src/cg_hashmap.c and of the three
             call sites in cgnslib.c; invariant, refinement, probe-cycle termination for every table size).
Tie        : correspondence, two levels --
   map level : the extracted model and cg_hashmap.c (included textually from /repo, so the static index table
               and entry array are dumped slot by slot) run the same op histories;
   API level : cg_zone_write / cg_particle_write / cg_delete_node / cg_gopath on ADF and HDF5 files against the
               extracted ZoneMirror model.
Oracle (independent of the model, used for the search and as the property-level verdict): a Python dict/list
with the documented delete-and-renumber semantics.
"""
import hashlib, json, os
import vlib

M64 = (1 << 64) - 1


def hash_py(b):
    """third, independent implementation of cgi_hash_cstr (64-bit build) -- used only to *generate* colliding names"""
    n = len(b)
    if n == 0:
        return 0
    rem = n % 8 or 8
    blocks = (n - rem) // 8
    x = 0xcbf29ce484222325 ^ (b[0] << 7)
    p = 0
    for _ in range(blocks):
        x = ((0x00000100000001B3 * x) & M64) ^ int.from_bytes(b[p:p + 8], "little")
        p += 8
    for i in range(rem):
        x = ((0x00000100000001B3 * x) & M64) ^ b[p + i]
    x ^= n
    return M64 - 1 if x == M64 else x


def rand_key(rng, maxlen=32, alphabet=None):
    n = rng.choice([1, 1, 2, 3, 5, 7, 8, 9, 15, 16, 17, 24, 31, 32, rng.randint(1, maxlen)])
    n = min(n, maxlen)
    if alphabet:
        return bytes(rng.choice(alphabet) for _ in range(n))
    return bytes(rng.randint(1, 255) for _ in range(n))


def hx(b):
    return b.hex() if b else "-"


# ------------------------------------------------------------------ map level
def gen_map_script(rng, profile, big=False):
    ops = []
    if profile == "random":
        pool = [rand_key(rng) for _ in range(rng.randint(2, 40))]
        for _ in range(rng.randint(10, 80)):
            k = rng.choice(pool) if rng.random() < 0.93 else rand_key(rng)
            r = rng.random()
            if r < 0.45:
                ops.append("set %s %d" % (hx(k), rng.randint(0, 60)))
            elif r < 0.65:
                ops.append("get " + hx(k))
            elif r < 0.72:
                ops.append("has " + hx(k))
            elif r < 0.97:
                ops.append("del " + hx(k))
            elif r < 0.985:
                ops.append("clear")
            else:
                ops.append("presize %d" % rng.choice([0, 5, 6, 10, 11, 21, 43, 100]))
    elif profile == "burst":
        # the way the library itself uses the map: value = position; cross a growth threshold, then delete
        n = rng.choice([4, 5, 6, 9, 10, 11, 20, 21, 22, 41, 42, 43, 84, 85, 86, 170, 171, 341, 342] +
                       ([683, 1366, 2731, 5462] if big else []))
        n += rng.choice([0, 0, 1, 2])
        keys = [("Zone%d" % i).encode() if rng.random() < 0.5 else rand_key(rng) for i in range(n)]
        keys = list(dict.fromkeys(keys))
        for i, k in enumerate(keys):
            ops.append("set %s %d" % (hx(k), i))
        order = list(keys)
        how = rng.choice(["first", "last", "middle", "every2", "all", "random"])
        if how == "first":
            dels = order[:1]
        elif how == "last":
            dels = order[-1:]
        elif how == "middle":
            dels = [order[len(order) // 2]]
        elif how == "every2":
            dels = order[::2]
        elif how == "all":
            dels = list(order); rng.shuffle(dels)
        else:
            dels = rng.sample(order, rng.randint(1, min(12, len(order))))
        for d in dels:
            ops.append("del " + hx(d))
            live = [k for k in order if k != d]
            order = live
            for k in rng.sample(order, min(3, len(order))):
                ops.append("get " + hx(k))
        for k in keys[: 60]:
            ops.append("get " + hx(k))
        for i in range(rng.randint(0, 8)):
            ops.append("set %s %d" % (hx(("New%d" % i).encode()), len(order) + i))
    elif profile == "collide":
        # names with equal residue modulo 8, 16, 32: long probe chains, tombstones inside chains
        mod = rng.choice([8, 16, 32, 64])
        want = rng.randrange(mod)
        fam = []
        tries = 0
        while len(fam) < rng.randint(3, 14) and tries < 20000:
            k = rand_key(rng, 12, alphabet=b"abcdefghijklmnopqrstuvwxyz0123456789_")
            tries += 1
            if hash_py(k) % mod == want and k not in fam:
                fam.append(k)
        if rng.random() < 0.5:
            fam = [k for f2 in EQUAL_HASH for k in f2] + fam       # equal full hashes, not only equal residues
        for i, k in enumerate(fam):
            ops.append("set %s %d" % (hx(k), i))
        for _ in range(rng.randint(5, 40)):
            k = rng.choice(fam)
            r = rng.random()
            if r < 0.35:
                ops.append("del " + hx(k))
            elif r < 0.65:
                ops.append("set %s %d" % (hx(k), rng.randint(0, 30)))
            else:
                ops.append("get " + hx(k))
    elif profile == "storm":
        # delete / re-insert storms: the table fills with dummies, resize happens with few live items
        pool = [("k%d" % i).encode() for i in range(rng.randint(2, 9))]
        for _ in range(rng.randint(20, 120)):
            k = rng.choice(pool)
            if rng.random() < 0.5:
                ops.append("set %s %d" % (hx(k), rng.randint(0, 9)))
            else:
                ops.append("del " + hx(k))
            if rng.random() < 0.2:
                ops.append("get " + hx(rng.choice(pool)))
    elif profile == "presize":
        n = rng.choice([0, 1, 5, 6, 7, 10, 11, 21, 22, 42, 43, 85, 86, 200, 1000] + ([87381, 87382, 200000] if big else []))
        ops.append("presize %d" % n)
        cnt = min(n + 3, 400 if not big else 3000)
        for i in range(cnt):
            ops.append("set %s %d" % (hx(("Z%d" % i).encode()), i))
        for i in range(0, cnt, max(1, cnt // 15)):
            ops.append("del " + hx(("Z%d" % i).encode()))
        for i in range(0, cnt, max(1, cnt // 25)):
            ops.append("get " + hx(("Z%d" % i).encode()))
    # interleave dumps: after every op for short scripts, sparsely for long ones
    every = 1 if len(ops) <= 90 else max(1, len(ops) // 40)
    out = []
    for i, o in enumerate(ops):
        out.append(o)
        if i % every == 0 or i == len(ops) - 1:
            out.append("dump")
    return out


def map_oracle(ops):
    """expected answers of set/get/has/del from the documented semantics alone"""
    d = {}
    res = []
    for o in ops:
        t = o.split()
        if t[0] == "set":
            d[t[1]] = int(t[2]); res.append("r 0")
        elif t[0] == "get":
            res.append("r %d" % d.get(t[1], -1))
        elif t[0] == "has":
            res.append("r %d" % (1 if t[1] in d else 0))
        elif t[0] == "del":
            if t[1] in d:
                old = d.pop(t[1])
                for k in d:
                    if d[k] > old:
                        d[k] -= 1
                res.append("r 0")
            else:
                res.append("r -1")
        elif t[0] in ("clear", "presize"):
            d.clear(); res.append("r 0")
        else:
            res.append(None)
    return res


def map_property_fails(exe, ops):
    """does the implementation answer differently from the oracle on this op list? -> (bool, detail)"""
    ops = [o for o in ops if o != "dump"]
    lines, outcome = vlib.run_impl(exe, "\n".join(ops) + "\n")
    if outcome != "ok":
        return True, {"outcome": outcome}
    exp = map_oracle(ops)
    for i, (e, l) in enumerate(zip(exp, lines)):
        if e is not None and e != l:
            return True, {"op_index": i, "op": ops[i], "expected": e, "observed": l}
    return False, None


# ------------------------------------------------------------------ API level
NAME_ALPHA = b"abcdefghijklmnopqrstuvwxyzABCDEFGHIJKLMNOPQRSTUVWXYZ0123456789_"


# names with the same FULL 64-bit cgi_hash_cstr value (the second 8-byte block cancels what the first one changed): they
# share the residue at every table size, and only the name comparison tells them apart
EQUAL_HASH = [[b"ZoneWing0000AA00_1", b"ZoneBABF0000XchA_1", b"ZoneBABI0000Xchh_1"],
              [b"ZoneWing0000AA02_1", b"ZoneBABC0000Xch8_1"]]


def gen_zone_script(rng, nmax):
    pool = []
    if rng.random() < 0.5:
        for fam in EQUAL_HASH:
            assert len({hash_py(k) for k in fam}) == 1
            pool += fam
    while len(pool) < rng.randint(3, nmax):
        k = rand_key(rng, 32, alphabet=NAME_ALPHA)
        if k not in pool:
            pool.append(k)
    ops, payload = [], 2
    target = rng.choice([4, 6, 11, 22, nmax])
    live = []
    for _ in range(rng.randint(15, 3 * nmax + 20)):
        r = rng.random()
        if r < 0.5 or len(live) < 2:
            k = rng.choice(pool) if (len(live) >= target or rng.random() < 0.3) else rng.choice([p for p in pool if p not in live] or pool)
            payload += 1
            ops.append("zw %s %d" % (hx(k), payload))
            if k not in live:
                live.append(k)
        elif r < 0.75:
            k = rng.choice(live) if rng.random() < 0.9 else rng.choice(pool)
            ops.append("zdel " + hx(k))
            if k in live:
                live.remove(k)
        elif r < 0.9:
            ops.append("goto " + hx(rng.choice(pool)))
        elif r < 0.96:
            ops.append("list")
        else:
            ops.append("reopen")
    ops.append("list")
    for k in pool[:10]:
        ops.append("goto " + hx(k))
    ops.append("reopen")
    ops.append("list")
    return ops


def zone_oracle(ops, impl_lines):
    """expected lines; the order reported at a reopen is taken from the implementation (it is C04's business),
    but it must be a rearrangement of the names the oracle holds."""
    zs, res = [], []
    for i, o in enumerate(ops):
        t = o.split()
        names = [z[0] for z in zs]
        if t[0] == "zw":
            if t[1] in names:
                j = names.index(t[1]); zs[j] = (t[1], int(t[2])); res.append("r %d" % (j + 1))
            else:
                zs.append((t[1], int(t[2]))); res.append("r %d" % len(zs))
        elif t[0] == "zdel":
            if t[1] in names:
                del zs[names.index(t[1])]; res.append("r 0")
            else:
                res.append("r 1")
        elif t[0] == "goto":
            if t[1] in names:
                j = names.index(t[1]); res.append("g %d %s:%d" % (j + 1, zs[j][0], zs[j][1]))
            else:
                res.append("g absent")
        elif t[0] == "list":
            res.append("L " + (",".join("%s:%d" % z for z in zs) or "-"))
        elif t[0] == "reopen":
            got = impl_lines[i] if i < len(impl_lines) else ""
            order = [] if got in ("O -", "") else got[2:].split(",")
            if got.startswith("O ") and sorted(order) == sorted(names):
                d = dict(zs); zs = [(n, d[n]) for n in order]; res.append(got)
            else:
                res.append("O <a rearrangement of %s>" % ",".join(sorted(names)))
    return res


def zone_property_fails(exe, ops, path, backend, kind):
    if os.path.exists(path):
        os.unlink(path)
    lines, outcome = vlib.run_impl(exe, "\n".join(ops) + "\n", args=[path, backend, kind])
    if outcome != "ok":
        return True, {"outcome": outcome, "lines": lines[-3:]}, lines
    exp = zone_oracle(ops, lines)
    d = vlib.first_divergence(exp, lines)
    if d:
        return True, {"op_index": d[0], "op": ops[d[0]] if d[0] < len(ops) else None, "expected": d[1], "observed": d[2]}, lines
    return False, None, lines


def zone_model_script(ops, impl_lines):
    out, keep = [], []
    for i, o in enumerate(ops):
        if o.startswith("goto"):
            continue
        if o == "reopen":
            got = impl_lines[i] if i < len(impl_lines) else "O -"
            out.append("reorder " + (got[2:] if got.startswith("O ") else "-"))
        else:
            out.append(o)
        keep.append(i)
    return out, keep


# ------------------------------------------------------------------ the check
CHECKER = "make -C coq Properties_C18.vo (coqc 8.16.1 kernel) ; coqc Properties_C18.v (Print Assumptions)"


def run(ck):
    big = ck.tier == "thorough"
    vlib.build_impl()
    hm = vlib.build_harness("hashmap_h", ["hashmap_h.c"], link_lib=False)
    zh = vlib.build_harness("zone_h", ["zone_h.c"])
    vlib.build_modelrun("c18")
    res = vlib.coq_check_properties("C18")
    broken = ck.proof_result(res, CHECKER)
    forb = vlib.coq_forbidden_scan("C18")
    ck.extra["forbidden_tokens"] = forb
    ck.cov["trusted_base"] = [
        "Coq 8.16.1 kernel + vm_compute (no native_compute)",
        "extraction: ExtrOcamlBasic only; OCaml 4.13.1; ocaml/zutil.ml, eng_hashmap.ml, eng_zones.ml (parsing/printing)",
        "harness/hashmap_h.c (#includes /repo/src/cg_hashmap.c), harness/zone_h.c, this generator and oracle",
        "hand transcription of cg_hashmap.c and of the call sites in cgnslib.c, validated by the correspondence below",
    ]
    ck.assumptions = ["64-bit build (map_usize_t = uint64_t)", "malloc never fails", "names are NUL-free strings of 1..32 bytes",
                      "theorems assume fewer than 2^60 table slots"]
    ck.cov["rule"] = ("map level: seeded op histories in 5 profiles (random, burst across growth thresholds, equal-residue "
                      "families, delete/re-insert storms, presized) compared slot-by-slot with the extracted model; API level: "
                      "zone / particle-zone histories on ADF and HDF5 compared with the extracted ZoneMirror model and an "
                      "independent oracle. non-trivial = the history contains a successful delete AND reaches a table of more "
                      "than 8 slots (map level) or an overwrite-in-slot after a delete (API level); distinct by SHA1 of the script")
    if forb:
        ck.violation({"broken_obligation": "forbidden tokens in the Coq development", "hits": forb}, nofail=True)
    corr_broken = []      # correspondence failures without (yet) a failing input of the property
    dist = {"profiles": {}, "ops": {}, "max_table": 0}

    # ---- corpus first, then seeded generation (map level)
    scripts = []
    cdir = os.path.join(vlib.ROOT, "corpus", "C18")
    if os.path.isdir(cdir):
        for f in sorted(os.listdir(cdir)):
            if f.endswith(".map"):
                scripts.append(("corpus:" + f, open(os.path.join(cdir, f)).read().split("\n")))
    nmap = 1500 if big else 260
    profiles = ["random", "burst", "collide", "storm", "presize"]
    for i in range(nmap):
        p = profiles[i % len(profiles)]
        scripts.append((p, gen_map_script(ck.rng, p, big=big and i % 7 == 0)))
    for prof, ops in scripts:
        ops = [o for o in ops if o.strip()]
        text = "\n".join(ops) + "\n"
        ml = vlib.run_model("c18", text, args=["hashmap"])
        il, outcome = vlib.run_impl(hm, text)
        dist["profiles"][prof.split(":")[0]] = dist["profiles"].get(prof.split(":")[0], 0) + 1
        for o in ops:
            dist["ops"][o.split()[0]] = dist["ops"].get(o.split()[0], 0) + 1
        sizes = [int(l.split("size=")[1].split()[0]) for l in il if l.startswith("D ")]
        dist["max_table"] = max([dist["max_table"]] + sizes)
        okdel = any(o.startswith("del") and il[i] == "r 0" for i, o in enumerate(ops) if i < len(il))
        key = hashlib.sha1(text.encode()).hexdigest() if (okdel and sizes and max(sizes) > 8) else None
        ck.case(key, sample={"level": "map", "profile": prof, "script": ops[:12] + (["..."] if len(ops) > 12 else [])})
        ck.cov["traces_validated_against_impl"] += 1
        fails, detail = map_property_fails(hm, ops)
        if fails:
            small = vlib.ddmin([o for o in ops if o != "dump"], lambda s: map_property_fails(hm, s)[0])
            _, d2 = map_property_fails(hm, small)
            ck.violation({"level": "map", "engine": "hashmap", "script": small, "oracle": "python dict with delete-and-renumber",
                          "detail": d2, "replay_hint": "printf '%s\\n' <script lines> | .build/h/hashmap_h"})
            break
        if outcome != "ok" or ml != il:
            d = vlib.first_divergence(ml, il)
            corr_broken.append({"level": "map", "profile": prof, "script": ops, "outcome": outcome,
                                "first_divergence": {"line": d[0], "model": d[1], "impl": d[2]} if d else None})
            if len(corr_broken) >= 3:
                break

    # ---- API level
    nz = 14 if big else 3
    zdist = {"scripts": 0, "ops": {}, "max_zones": 0}
    if not ck.violations:
        for backend in ("adf", "hdf5"):
            for kind in ("zone", "particle"):
                for j in range(nz):
                    ops = gen_zone_script(ck.rng, 70 if (big and j % 3 == 0) else 26)
                    path = os.path.join(ck.work, "z_%s_%s_%d.cgns" % (backend, kind, j))
                    fails, detail, il = zone_property_fails(zh, ops, path, backend, kind)
                    zdist["scripts"] += 1
                    for o in ops:
                        zdist["ops"][o.split()[0]] = zdist["ops"].get(o.split()[0], 0) + 1
                    zdist["max_zones"] = max([zdist["max_zones"]] + [l.count(":") for l in il if l.startswith("L ")])
                    seen_del, nontriv = False, False
                    names = set()
                    for o in ops:
                        t = o.split()
                        if t[0] == "zdel" and t[1] in names:
                            seen_del = True; names.discard(t[1])
                        elif t[0] == "zw":
                            if t[1] in names and seen_del:
                                nontriv = True
                            names.add(t[1])
                    ck.case(hashlib.sha1(("\n".join(ops) + backend + kind).encode()).hexdigest() if nontriv else None,
                            sample={"level": "api", "backend": backend, "kind": kind, "script": ops[:10] + ["..."]})
                    ck.cov["traces_validated_against_impl"] += 1
                    if fails:
                        def f(s, path=path, backend=backend, kind=kind):
                            return zone_property_fails(zh, s, path, backend, kind)[0]
                        small = vlib.ddmin(ops, f)
                        _, d2, _ = zone_property_fails(zh, small, path, backend, kind)
                        ck.violation({"level": "api", "backend": backend, "kind": kind, "script": small,
                                      "oracle": "python ordered list (overwrite in slot, delete shifts)", "detail": d2,
                                      "replay_hint": "printf '%s\\n' <script lines> | .build/h/zone_h /tmp/x.cgns " + backend + " " + kind})
                        break
                    mscript, keep = zone_model_script(ops, il)
                    ml = vlib.run_model("c18", "\n".join(mscript) + "\n", args=["zones"])
                    ilk = [il[i] if not ops[i] == "reopen" else "r 0" for i in keep if i < len(il)]
                    if ml != ilk:
                        d = vlib.first_divergence(ml, ilk)
                        corr_broken.append({"level": "api", "backend": backend, "kind": kind, "script": ops,
                                            "first_divergence": {"line": d[0], "model": d[1], "impl": d[2]} if d else None})
                    if os.path.exists(path):
                        os.unlink(path)
                if ck.violations:
                    break
            if ck.violations:
                break

    # ---- something broke without a failing input so far: widen the search (DESIGN.md 1.3)
    if (corr_broken or broken) and not ck.violations:
        found = False
        for i in range(nmap * 10):
            ops = gen_map_script(ck.rng, profiles[i % len(profiles)], big=False)
            fails, detail = map_property_fails(hm, ops)
            ck.cov["evaluations"] += 1
            if fails:
                small = vlib.ddmin([o for o in ops if o != "dump"], lambda s: map_property_fails(hm, s)[0])
                _, d2 = map_property_fails(hm, small)
                ck.violation({"level": "map", "engine": "hashmap", "script": small, "detail": d2, "found_by": "widened search"})
                found = True
                break
        if not found:
            ck.violation({"broken_obligations": broken, "broken_correspondence": corr_broken[:2],
                          "note": "model and implementation differ (or an obligation no longer checks) but every history "
                                  "explored still satisfies the property's oracle"}, nofail=True)
    ck.extra["input_distribution"] = {"map": dist, "api": zdist}


def replay(ck, path):
    r = json.load(open(path))
    vlib.build_impl()
    if r.get("level") == "api":
        zh = vlib.build_harness("zone_h", ["zone_h.c"])
        fails, d, lines = zone_property_fails(zh, r["script"], os.path.join(ck.work, "replay.cgns"), r["backend"], r["kind"])
    elif "script" in r:
        hm = vlib.build_harness("hashmap_h", ["hashmap_h.c"], link_lib=False)
        fails, d = map_property_fails(hm, r["script"])
    else:
        print("replay names a broken obligation/correspondence, no input to run:", json.dumps(r)[:600]); return 1
    print("replay: property %s on this input: %s" % ("FAILS" if fails else "holds", json.dumps(d)))
    return 1 if fails else 0
