"""C05 -- partial and reshaped array I/O touches exactly the addressed elements.

Proof side : coq/Properties_C05.v (Hyperslab.v = transcription of ADFI_count_total_array_points,
             ADFI_increment_array, the element loops of ADF_Read_Data / ADF_Write_Data, ADFH's hyperslab
             triples with HDF5's row-major selection order as specified semantics, and
             cgi_array_general_verify_range + its two callers; theorems for all ranks / dims / ranges / strides).
Tie        : correspondence of the extracted model with the library rebuilt from the working tree, two levels,
             both back ends, guard-patterned user buffers:
   lo  : cgio_write_data / cgio_read_data_type, rank 1..12, strides, reshaped memory, multi-block and grown
         (multi-chunk) nodes                                                    (harness/c05_lo.c)
   mid : cg_coord/field/array_general_read/write, cg_*_partial_write, cg_coord_read / cg_field_read,
         cg_coord_write / cg_field_write, particle twins; rind planes, both CG_CONFIG_RIND_* (harness/c05_mid.c)
Oracle     : an independent nested-loop reference in this file (never goes through the Coq model): it decides
             accept / reject from the property text and recomputes every linear offset from the index vector.
History    : ADFH used to count floor((end-start+1)/stride) points and to reject stride > extent (repaired in /repo
             by 358f914; Properties: C05_adfh_stride_refuted is the historical witness on the old variant, the three
             witnesses live in corpus/C05/adfh_stride.lo).  Any ADF / HDF5 stride divergence is a VIOLATION.
Known      : key array-general-rank-gt-indexdim-rind-oob -- cg_array_general_write of an array whose rank differs from
             IndexDimension under a rind-bearing parent reads rind_planes out of bounds (ASan READ in
             cgi_array_general_verify_range); probed on every run, matched narrowly.
"""
import hashlib, json, os
import vlib

GUARD = 4
PRE = [-(9000000 + i) for i in range(GUARD)]
POST = [-(9500000 + i) for i in range(GUARD)]
CHECKER = "make -C coq HyperslabProofs.vo (coqc 8.16.1 kernel) ; coqc Properties_C05.v (Print Assumptions)"
TYPES = ["i4", "i8", "r4", "r8"]


def csv(l):
    return ",".join(str(x) for x in l) if l else "-"


def prod(l):
    p = 1
    for x in l:
        p *= x
    return p


def buflen(dims):
    return prod([max(d, 1) for d in dims])


# ------------------------------------------------------------------ the independent reference (oracle)
def enum_positions(dims, sel):
    """0-based linear offsets (Fortran order) of the strided box sel = [(start, end, stride)], first index
    fastest; every offset is recomputed from the index vector."""
    idx = [s for s, _, _ in sel]
    out = []
    while True:
        off, acc = 0, 1
        for d, i in zip(dims, idx):
            off += (i - 1) * acc
            acc *= d
        out.append(off)
        k = 0
        while k < len(sel):
            idx[k] += sel[k][2]
            if idx[k] <= sel[k][1]:
                break
            idx[k] = sel[k][0]
            k += 1
        if k == len(sel):
            return out


def sel_inside(dims, sel):
    return (1 <= len(dims) <= 12 and len(dims) == len(sel) and
            all(d >= 1 and 1 <= s <= e <= d and st >= 1 for d, (s, e, st) in zip(dims, sel)))


def lo_reference(fdims, ssel, mdims, msel):
    """None = must be rejected; else the (file offset, memory offset) pairs."""
    if not sel_inside(fdims, ssel) or not sel_inside(mdims, msel):
        return None
    fp, mp = enum_positions(fdims, ssel), enum_positions(mdims, msel)
    if len(fp) != len(mp):
        return None
    return list(zip(fp, mp))


def mid_reference(op, zero_cfg, rlo, sdims, srange, mdims, mrange):
    """cgi_array_general_* request: None = must be rejected; else pairs.  rlo None = no rind planes."""
    old = zero_cfg or rlo is None
    ext = [b - a + 1 for a, b in srange]
    shortcut = (op == "r" and all(e == d for e, d in zip(ext, sdims)))   # undocumented full-span read
    if not shortcut:
        for n, (a, b) in enumerate(srange):
            lo = 1 if old else 1 - rlo[n]
            hi = sdims[n] if old else sdims[n] - rlo[n]
            if a > b or a < lo or b > hi:
                return None
    if not (1 <= len(mdims) <= 12) or any(d < 1 for d in mdims):
        return None
    if any(a > b or a < 1 or b > d for d, (a, b) in zip(mdims, mrange)):
        return None
    if prod(ext) != prod([b - a + 1 for a, b in mrange]):
        return None
    if shortcut:
        st = [(1, d, 1) for d in sdims]
    else:
        st = [(a + (0 if old else rlo[n]), b + (0 if old else rlo[n]), 1) for n, (a, b) in enumerate(srange)]
    fp = enum_positions(sdims, st)
    mp = enum_positions(mdims, [(a, b, 1) for a, b in mrange])
    return list(zip(fp, mp))


def nondividing(dims, sel):
    return any(s <= e and st >= 2 and (e - s + 1) % st != 0 for (s, e, st) in sel)


# ------------------------------------------------------------------ parsing of script / output lines
def parse_ranges(s):
    return [] if s in ("-", "") else [tuple(int(x) for x in t.split(":")) for t in s.split(",")]


def parse_ints(s):
    return [] if s in ("-", "") else [int(x) for x in s.split(",")]


def parse_lo_op(line):
    t = line.split()
    md, mr = t[3][2:].split(";")
    return {"op": t[0], "name": t[1], "s": parse_ranges(t[2][2:]), "mdims": parse_ints(md), "m": parse_ranges(mr),
            "base": int(t[4])}


def parse_mid_op(line):
    t = line.split()
    md, mr = t[8][2:].split(";")
    rlo = t[6][4:]
    return {"op": t[0], "target": t[1], "name": t[2], "api": t[3], "type": t[4][2:], "sdims": parse_ints(t[5][6:]),
            "rlo": None if rlo == "-" else parse_ints(rlo), "s": parse_ranges(t[7][2:]), "mdims": parse_ints(md),
            "m": parse_ranges(mr), "base": int(t[9])}


def align(script, out, mid=False):
    """group the output lines by script line; MEMCHANGED lines are pulled out as anomalies"""
    groups, anomalies, i = [], [], 0
    out = list(out)
    for ln in script:
        k = ln.split()[0]
        if k in ("node", "cfg"):
            n = 1
        elif k == "grow":
            n = 1 if (i < len(out) and out[i].startswith("grow err")) else 2
        elif k in ("w", "r"):
            n = 2
        else:
            n = 0
        g = []
        while len(g) < n and i < len(out):
            if out[i] == "MEMCHANGED":
                anomalies.append(len(groups))
            else:
                g.append(out[i])
            i += 1
        while i < len(out) and out[i] == "MEMCHANGED":
            anomalies.append(len(groups)); i += 1
        groups.append(g if len(g) == n else None)
    return groups, anomalies


def status_class(l):
    return " ".join(l.split()[:2]) if l else l


# ------------------------------------------------------------------ generators
def factor_split(rng, n, k):
    """k positive factors with product n"""
    f = [1] * k
    p = 2
    while n > 1:
        while n % p == 0:
            f[rng.randrange(k)] *= p
            n //= p
        p += 1
    return f


def gen_sel_for_count(rng, c, maxdim, allow_stride=True, want_div=None):
    """one memory/file dimension addressing exactly c points: (dim, start, end, stride)"""
    st = rng.choice([1, 1, 1, 2, 3, 5]) if (allow_stride and c > 0) else 1
    span = (c - 1) * st + 1
    start = 1 + rng.choice([0, 0, 1, 2, rng.randint(0, 3)])
    last = start + span - 1
    div = rng.random() < 0.55 if want_div is None else want_div
    end = last + (st - 1 if div else rng.randint(0, st - 1))
    dim = end + rng.choice([0, 0, 1, 2])
    return dim, start, end, st


def gen_file_sel(rng, dims, allow_stride=True):
    sel = []
    for d in dims:
        r = rng.random()
        if r < 0.25:
            s, e = 1, d
        else:
            s = rng.choice([1, d, rng.randint(1, d)])
            e = rng.choice([d, s, rng.randint(s, d)])
        st = 1
        if allow_stride and rng.random() < 0.45:
            st = rng.choice([2, 3, max(1, e - s + 1), max(1, e - s), rng.randint(1, max(1, e - s + 2))])
        sel.append((s, e, st))
    return sel


def gen_mem_for(rng, n, mrank, allow_stride=True):
    cnts = factor_split(rng, n, mrank)
    rng.shuffle(cnts)
    mdims, msel = [], []
    for c in cnts:
        d, s, e, st = gen_sel_for_count(rng, c, 0, allow_stride)
        mdims.append(d); msel.append((s, e, st))
    return mdims, msel


def mutate_invalid(rng, dims, sel, is_mem):
    """make one dimension leave the array / start > end / bad stride"""
    dims, sel = list(dims), list(sel)
    k = rng.randrange(len(sel))
    s, e, st = sel[k]
    how = rng.choice(["start0", "startneg", "endbig", "startgtend", "stride0", "startbig"] + (["dim0"] if is_mem else []))
    if how == "start0":
        s = 0
    elif how == "startneg":
        s = -rng.randint(1, 3)
    elif how == "endbig":
        e = dims[k] + rng.randint(1, 2)
    elif how == "startgtend":
        if dims[k] >= 2:
            s = rng.randint(2, dims[k]); e = rng.randint(1, s - 1)
        else:
            s, e = 1, 0
    elif how == "stride0":
        st = rng.choice([0, -1])
    elif how == "startbig":
        s = dims[k] + 1; e = dims[k] + 1
    elif how == "dim0":
        dims[k] = 0
    sel[k] = (s, e, st)
    return dims, sel, how


def fmt_sel(sel):
    return ",".join("%d:%d:%d" % t for t in sel)


def gen_lo_case(rng, idx, big):
    """one node + 1..3 operations"""
    r = rng.random()
    if r < 0.30:
        rank = rng.randint(1, 3)
    elif r < 0.75:
        rank = rng.randint(4, 12)
    else:
        rank = rng.choice([1, 2, 12])
    if rank <= 2 and rng.random() < (0.5 if big else 0.25):
        dims = [rng.choice([1100, 2049, 3000])] if rank == 1 else [rng.choice([40, 64, 130]), rng.choice([20, 33])]
    else:
        cap = 3 if rank >= 9 else (4 if rank >= 6 else 7)
        dims = [rng.randint(1, cap) for _ in range(rank)]
        while prod(dims) > 2600:
            dims[rng.randrange(rank)] = 1
    name = "N%d" % idx
    ty = rng.choice(TYPES)
    lines = ["node %s %s %s %d" % (name, ty, csv(dims), 1000 + 7 * idx)]
    if rank <= 3 and rng.random() < 0.12 and prod(dims) * 8 < 3000:
        # grow the node (same rank): ADF keeps the old chunk and adds a second one -> multi-chunk addressing
        k = rng.randrange(rank)
        dims = list(dims); dims[k] += rng.randint(1, 4)
        lines.append("grow %s %s %d" % (name, csv(dims), 3000 + idx))
    for j in range(rng.randint(1, 3)):
        sel = gen_file_sel(rng, dims)
        if prod(dims) > 3000 or True:
            # keep the number of transferred points moderate on big nodes (model speed)
            while prod([(e - s) // st + 1 for s, e, st in sel]) > 400:
                k = rng.randrange(len(sel)); s, e, st = sel[k]
                if e - s >= 1:
                    sel[k] = (s, e, st * 7 + 1)
        n = prod([(e - s) // st + 1 for s, e, st in sel])
        mrank = rng.choice([1, 1, 2, 3, rng.randint(1, 12), len(dims)])
        mdims, msel = gen_mem_for(rng, n, mrank)
        while buflen(mdims) > 6000:
            mdims, msel = gen_mem_for(rng, n, rng.choice([1, 2]), allow_stride=False)
        r = rng.random()
        if r < 0.10:
            dims2, sel, _ = mutate_invalid(rng, dims, sel, False)
        elif r < 0.20:
            mdims, msel, _ = mutate_invalid(rng, mdims, msel, True)
        elif r < 0.28:
            # count mismatch
            k = rng.randrange(len(msel)); s, e, st = msel[k]
            if e + st <= mdims[k] or True:
                mdims[k] = max(mdims[k], e + st); msel[k] = (s, e + st, st)
        op = rng.choice(["w", "r"])
        lines.append("%s %s s=%s m=%s;%s %d" % (op, name, fmt_sel(sel), csv(mdims), fmt_sel(msel), 100000 * (j + 1) + 13 * idx))
    return lines


# ---- mid level
def field_dims(n, loc, rind):
    return [(n[i] - (1 if loc == "c" else 0)) + rind[2 * i] + rind[2 * i + 1] for i in range(len(n))]


def gen_mid_script(rng, big):
    idim = rng.choice([1, 2, 3, 3])
    n = [rng.randint(2, 5 if idim < 3 else 4) for _ in range(idim)]

    def rnd_rind():
        r = rng.random()
        if r < 0.2:
            return None
        if r < 0.3:
            return [0] * (2 * idim)
        return [rng.choice([0, 1, 1, 2]) for _ in range(2 * idim)]
    setup = ["zone %d %s" % (idim, csv(n))]
    arrays = []            # dict(target, name, type, sdims, rlo, rank_fixed)
    gr = rnd_rind()
    setup.append("grid %s" % (csv(gr) if gr is not None else "-"))
    grz = gr or [0] * (2 * idim)
    cd = field_dims(n, "v", grz)
    for nm in ("CoordinateX", "CoordinateY")[: rng.randint(1, 2)]:
        arrays.append({"target": "coord", "name": nm, "type": rng.choice(["r4", "r8"]), "sdims": cd,
                       "rlo": [grz[2 * i] for i in range(idim)], "wrappers": True})
    for k in range(rng.randint(1, 2)):
        sr = rnd_rind()
        loc = rng.choice(["v", "c"])
        sname = "Sol%d" % k
        setup.append("sol %s %s %s" % (sname, loc, csv(sr) if sr is not None else "-"))
        srz = sr or [0] * (2 * idim)
        fd = field_dims(n, loc, srz)
        arrays.append({"target": "field:" + sname, "name": "Density" if k == 0 else "Pressure", "type": rng.choice(TYPES),
                       "sdims": fd, "rlo": [srz[2 * i] for i in range(idim)], "wrappers": True})
        if rng.random() < 0.85:
            arrays.append({"target": "array:" + sname, "name": "ArrS%d" % k, "type": rng.choice(TYPES), "sdims": fd,
                           "rlo": [srz[2 * i] for i in range(idim)], "wrappers": False})
    setup.append("ud UD")
    for k in range(rng.randint(1, 2)):
        rank = rng.randint(1, 4)
        arrays.append({"target": "array:UD", "name": "ArrU%d" % k, "type": rng.choice(TYPES),
                       "sdims": [rng.randint(1, 5) for _ in range(rank)], "rlo": None, "wrappers": False})
    if rng.random() < 0.5:
        psz = rng.randint(1, 12)
        setup.append("pzone %d" % psz)
        arrays.append({"target": "pcoord", "name": "CoordinateX", "type": rng.choice(["r4", "r8"]), "sdims": [psz],
                       "rlo": None, "wrappers": True})
        setup.append("psol PSol")
        arrays.append({"target": "pfield:PSol", "name": "Radius", "type": rng.choice(TYPES), "sdims": [psz],
                       "rlo": None, "wrappers": True})
    ops = []
    zero = False
    written = set()
    reopened = False
    nops = rng.randint(25, 60) if big else rng.randint(18, 40)
    for j in range(nops):
        if not reopened and (j >= 3 or rng.random() < 0.3):
            ops.append("reopen"); reopened = True
        if rng.random() < 0.12:
            zero = not zero
            ops.append("cfg %s" % ("zero" if zero else "core"))
        a = rng.choice(arrays)
        key = a["target"] + "/" + a["name"]
        op = "w" if (key not in written or not reopened or rng.random() < 0.45) else "r"
        ops.append(gen_mid_op(rng, a, op, zero, 1000 * (j + 1)))
        if op == "w":
            written.add(key)
    return setup, ops


def gen_mid_op(rng, a, op, zero, base):
    sdims, rlo = a["sdims"], a["rlo"]
    rank = len(sdims)
    old = zero or rlo is None
    lo = [1 if old else 1 - rlo[i] for i in range(rank)]
    hi = [sdims[i] if old else sdims[i] - rlo[i] for i in range(rank)]
    particle = a["target"].startswith("p")
    api = "general"
    r = rng.random()
    if a["wrappers"]:
        if r < 0.25:
            api = "partial" if op == "w" else "plain"
        elif r < 0.37 and op == "w":
            api = "full"
    if api == "full":
        srange = [(lo[i], lo[i] + sdims[i] - 1) for i in range(rank)]       # what the wrapper derives
        mdims = list(sdims); mrange = [(1, d) for d in sdims]
    else:
        srange = []
        for i in range(rank):
            q = rng.random()
            if q < 0.3:
                a0, b0 = lo[i], hi[i]
            else:
                a0 = rng.choice([lo[i], hi[i], rng.randint(lo[i], hi[i])])
                b0 = rng.choice([hi[i], a0, rng.randint(a0, hi[i])])
            srange.append((a0, b0))
        bad = rng.random()
        if bad < 0.22:
            k = rng.randrange(rank); a0, b0 = srange[k]
            how = rng.choice(["below", "above", "gt", "otherconv", "shift"])
            if how == "below":
                srange[k] = (lo[k] - rng.randint(1, 2), b0)
            elif how == "above":
                srange[k] = (a0, hi[k] + rng.randint(1, 2))
            elif how == "gt":
                srange[k] = (b0 + rng.choice([1, 2]), b0 - rng.choice([0, 0, 1]))
            elif how == "otherconv" and rlo is not None:
                # a range that is valid under the other convention
                olo = 1 - rlo[k] if old else 1
                ohi = sdims[k] - rlo[k] if old else sdims[k]
                srange[k] = (olo, ohi)
            else:
                # full extents, shifted out of the array: the read shortcut accepts it, a write must not
                d = rng.choice([-3, 2, 100])
                srange = [(lo[i] + d, lo[i] + d + sdims[i] - 1) for i in range(rank)]
        ext = [b0 - a0 + 1 for a0, b0 in srange]
        if api in ("partial", "plain"):
            mrank = 1 if particle else rank
            mdims = ext[:mrank]; mrange = [(1, e) for e in mdims]
        else:
            npt = prod([max(e, 1) for e in ext])
            mrank = 1 if particle else rng.choice([1, 2, 3, rank, rank])
            if not particle and a["target"].startswith("array:") and rlo is not None and any(rlo) and rng.random() < 0.6:
                # a generic array under a parent with rind planes, transferred through a memory array of ANOTHER rank:
                # the rind shift of the file range must not depend on the shape of the caller's memory
                mrank = rng.choice([r_ for r_ in (1, 2, 3, 4) if r_ != rank])
            q = rng.random()
            if q < 0.35 and not particle and all(e >= 1 for e in ext):
                mdims, mrange = [], []
                for e in ext:                                  # same rank, embedded in a larger memory array
                    off = rng.randint(0, 2)
                    mdims.append(e + off + rng.randint(0, 2)); mrange.append((1 + off, e + off))
            else:
                mdims, msel = gen_mem_for(rng, npt, mrank, allow_stride=False)
                mrange = [(s, e) for s, e, _ in msel]
            mb = rng.random()
            if mb < 0.07:
                k = rng.randrange(len(mdims)); s, e = mrange[k]
                mrange[k] = (s, e + 1); mdims[k] = max(mdims[k], e + 1)          # count mismatch
            elif mb < 0.12:
                k = rng.randrange(len(mdims)); s, e = mrange[k]
                mrange[k] = rng.choice([(0, e - 1 if e > 1 else e), (s + 1, mdims[k] + 1), (e + 1, s) if e + 1 <= mdims[k] else (s, e)])
            elif mb < 0.14:
                k = rng.randrange(len(mdims)); mdims[k] = 0
    ty = a["type"]
    if op == "r" and rng.random() < 0.35:
        # read in another memory type than the stored one (conversion inside the library or inside libhdf5)
        others = [x for x in (["r4", "r8"] if a["target"] in ("coord", "pcoord") else TYPES) if x != ty]
        ty = "%s/%s" % (rng.choice(others), ty)
    return "%s %s %s %s t=%s sdims=%s rlo=%s s=%s m=%s;%s %d" % (
        op, a["target"], a["name"], api, ty, csv(sdims), csv(rlo) if rlo is not None else "-",
        ",".join("%d:%d" % t for t in srange), csv(mdims), ",".join("%d:%d" % t for t in mrange), base)


# ---- exhaustive small scopes
def exhaustive_lo(dims_list):
    """every start:end:stride of small arrays (rank 1: invalid ones included), read into a contiguous 1-D buffer;
    every 4th selection is also written from a reshaped 2-D buffer"""
    scripts = []
    for k, dims in enumerate(dims_list):
        name = "X%d" % k
        lines = ["node %s i4 %s %d" % (name, csv(dims), 100)]
        per = []
        for d in dims:
            if len(dims) == 1:
                opts = [(a, b, st) for a in range(0, d + 2) for b in range(a - 1, d + 2) for st in range(0, d + 2)]
            else:
                opts = [(a, b, st) for a in range(1, d + 1) for b in range(a, d + 1) for st in range(1, d + 1)]
            per.append(opts)
        combos = [[]]
        for opts in per:
            combos = [c + [o] for c in combos for o in opts]
        for j, sel in enumerate(combos):
            n = prod([max((b - a) // st + 1, 1) if st >= 1 else 1 for a, b, st in sel])
            lines.append("r %s s=%s m=%d;1:%d:1 %d" % (name, fmt_sel(sel), n, n, 5000 + j))
            if j % 4 == 0:
                f = 2 if n % 2 == 0 else 1
                lines.append("w %s s=%s m=%d,%d;2:%d:1,1:%d:1 %d" % (name, fmt_sel(sel), n // f + 1, f + 1, n // f + 1, f, 20000 + 10 * j))
        scripts.append(lines)
    return scripts


def exhaustive_mid(rinds):
    """idim = 2, 3 x 2 vertices, every rind combination given, both conventions, every range with end points from
    one below the lower limit to one above the upper limit (start > end included), through the general and the
    plain read, every 5th also through the general / partial write"""
    scripts = []
    n = [3, 2]
    for rind in rinds:
        sd = field_dims(n, "v", rind)
        rlo = [rind[0], rind[2]]
        head = "coord CoordinateX"
        common = "t=r8 sdims=%s rlo=%s" % (csv(sd), csv(rlo))
        lines = ["zone 2 3,2", "grid %s" % csv(rind),
                 "w %s full %s s=%s m=%s;%s 100" % (head, common, ",".join("%d:%d" % (1 - l, d - l) for d, l in zip(sd, rlo)),
                                                    csv(sd), ",".join("1:%d" % d for d in sd)),
                 "reopen"]
        j = 0
        for cfg in ("core", "zero"):
            lines.append("cfg " + cfg)
            lo = [1 if cfg == "zero" else 1 - l for l in rlo]
            hi = [d if cfg == "zero" else d - l for d, l in zip(sd, rlo)]
            r0 = [(a, b) for a in range(lo[0] - 1, hi[0] + 2) for b in range(a - 1, hi[0] + 2)]
            r1 = [(a, b) for a in range(lo[1] - 1, hi[1] + 2) for b in range(a - 1, hi[1] + 2)]
            for x in r0:
                for y in r1:
                    j += 1
                    ext = [x[1] - x[0] + 1, y[1] - y[0] + 1]
                    npt = prod([max(e, 1) for e in ext])
                    srg = "%d:%d,%d:%d" % (x[0], x[1], y[0], y[1])
                    if j % 2:
                        lines.append("r %s general %s s=%s m=%d;2:%d %d" % (head, common, srg, npt + 2, npt + 1, 1000 + j))
                    else:
                        lines.append("r %s plain %s s=%s m=%d,%d;1:%d,1:%d %d" % (head, common, srg, ext[0], ext[1], ext[0], ext[1], 1000 + j))
                    if j % 5 == 0:
                        if j % 10:
                            lines.append("w %s general %s s=%s m=%d;1:%d %d" % (head, common, srg, npt, npt, 100 * j))
                        else:
                            lines.append("w %s partial %s s=%s m=%d,%d;1:%d,1:%d %d" % (head, common, srg, ext[0], ext[1], ext[0], ext[1], 100 * j))
        lines.append("cfg core")
        scripts.append(lines)
    return scripts


# ------------------------------------------------------------------ oracle evaluation of a run
def mem_line(vals):
    return "M %s|%s|%s" % (csv(PRE), csv(vals), csv(POST))


def lo_oracle_run(script, groups, backend):
    """per script line: (expected lines or None, info).  The oracle's node state is resynchronised from the
    implementation's F line after every write so that one deviation is reported once."""
    nodes, res = {}, []
    for ln, g in zip(script, groups):
        t = ln.split()
        if t[0] == "node":
            dims = parse_ints(t[3]); base = int(t[4])
            nodes[t[1]] = (dims, [base + j for j in range(buflen(dims))])
            res.append((["node ok"], None))
        elif t[0] == "grow":
            dims = parse_ints(t[2]); base = int(t[3])
            vals = [base + j for j in range(buflen(dims))]
            nodes[t[1]] = (dims, vals)
            res.append((["grow ok", "F " + csv(vals)], None))
        else:
            o = parse_lo_op(ln)
            dims, vals = nodes[o["name"]]
            pairs = lo_reference(dims, o["s"], o["mdims"], o["m"])
            n = buflen(o["mdims"])
            info = {"accepted": pairs is not None,
                    "strided": nondividing(dims, o["s"]) or nondividing(o["mdims"], o["m"]),
                    "nontrivial": pairs is not None and 0 < len(pairs) < len(vals)}
            if o["op"] == "w":
                mem = [o["base"] + j for j in range(n)]
                new = list(vals)
                if pairs is not None:
                    for fp, mp in pairs:
                        new[fp] = mem[mp]
                res.append((["w ok" if pairs is not None else "w err", "F " + csv(new)], info))
                # resync from the implementation
                if g and len(g) == 2 and g[1].startswith("F ") and "fail" not in g[1]:
                    got = parse_ints(g[1][2:])
                    if len(got) == len(vals):
                        new = got
                nodes[o["name"]] = (dims, new)
            else:
                mem = [-(o["base"] + j) for j in range(n)]
                if pairs is not None:
                    for fp, mp in pairs:
                        mem[mp] = vals[fp]
                res.append((["r ok" if pairs is not None else "r err", mem_line(mem)], info))
    return res


def mid_oracle_run(script, groups, backend=None):
    arrays, res, zero = {}, [], False
    for ln, g in zip(script, groups):
        t = ln.split()
        if t[0] == "cfg":
            zero = t[1] == "zero"
            res.append((["cfg ok"], None))
        elif t[0] in ("w", "r"):
            o = parse_mid_op(ln)
            key = o["target"] + "/" + o["name"]
            exists = key in arrays
            vals = arrays[key][1] if exists else [0] * buflen(o["sdims"])
            n = buflen(o["mdims"])
            if o["api"] == "full":
                # cg_coord_write / cg_field_write: the whole stored array, whatever the rind convention
                pairs = [(j, j) for j in range(len(vals))]
            else:
                pairs = mid_reference(o["op"], zero, o["rlo"], o["sdims"], o["s"], o["mdims"], o["m"])
            info = {"accepted": pairs is not None,
                    "nontrivial": pairs is not None and 0 < len(pairs) < len(vals) and (
                        o["rlo"] is not None and any(o["rlo"]) or len(o["mdims"]) != len(o["sdims"]))}
            if o["op"] == "w":
                mem = [o["base"] + j for j in range(n)]
                new = list(vals)
                if pairs is not None:
                    for fp, mp in pairs:
                        new[fp] = mem[mp]
                    exists = True
                exp_f = "F %s|%s" % (csv(o["sdims"]), csv(new)) if exists else "F none"
                res.append((["w ok" if pairs is not None else "w err", exp_f], info))
                if g and len(g) == 2 and g[1].startswith("F ") and "|" in g[1]:
                    got = parse_ints(g[1].split("|")[1])
                    if len(got) == len(vals):
                        new, exists = got, True
                if exists:
                    arrays[key] = (o["sdims"], new)
            else:
                mem = [-(o["base"] + j) for j in range(n)]
                ok = exists and pairs is not None
                # a read that converts (memory type "a/b": a in memory, b stored) is documented as unsupported on ADF
                # unless the memory range is the whole memory array; it must then be refused and transfer nothing
                if ok and "/" in o["type"] and backend == "adf" and o["api"] == "general" and \
                        any(r != (1, d) for r, d in zip(o["m"], o["mdims"])):
                    ok = False
                    info["conv_refused_adf"] = True
                if "/" in o["type"]:
                    info["converting"] = True
                if ok:
                    for fp, mp in pairs:
                        mem[mp] = vals[fp]
                res.append((["r ok" if ok else "r err", mem_line(mem)], info))
        else:
            res.append(([], None))
    return res


def evaluate(level, backend, script, il, outcome, ml):
    """-> (failures [(index, expected, observed, info)], corr [(index, model, impl)], groups, oracle)"""
    groups, anomalies = align(script, il)
    mgroups, _ = align(script, ml) if ml is not None else (None, None)
    oracle = lo_oracle_run(script, groups, backend) if level == "lo" else mid_oracle_run(script, groups, backend)
    fails, corr = [], []
    for i, ((exp, info), g) in enumerate(zip(oracle, groups)):
        if g is None:
            fails.append((i, exp, None, info)); break          # the process died here (sanitizer / signal)
        obs = [status_class(g[0])] + g[1:] if g and script[i].split()[0] in ("w", "r") and level == "lo" else g
        if obs != exp or i in anomalies:
            fails.append((i, exp, g + (["MEMCHANGED"] if i in anomalies else []), info))
        if mgroups is not None and mgroups[i] is not None and mgroups[i] != g:
            corr.append((i, mgroups[i], g))
    if outcome != "ok" and not fails:
        fails.append((len(script), None, None, None))
    return fails, corr, groups, oracle


def case_lines(script, i):
    """lo level: the lines of the case (node + its ops) that contains script line i, up to line i"""
    name = script[i].split()[1]
    return [l for l in script[: i + 1] if l.split()[1] == name]


# ------------------------------------------------------------------ the check
def run_level(ck, level, exe, backend, script, tag, state):
    text = "\n".join(script) + "\n"
    path = os.path.join(ck.work, "%s_%s_%s.cgns" % (level, backend, tag))
    ml = vlib.run_model("c05", text, args=[level, backend])
    il, outcome = vlib.run_impl(exe, text, args=[path, backend], timeout=300)
    if os.path.exists(path):
        os.unlink(path)
    ck.cov["traces_validated_against_impl"] += 1
    fails, corr, groups, oracle = evaluate(level, backend, script, il, outcome, ml)
    mgroups, _ = align(script, ml)
    # bookkeeping
    for i, ((exp, info), g) in enumerate(zip(oracle, groups)):
        if info is None:
            continue
        state["dist"][level + ":" + backend] = state["dist"].get(level + ":" + backend, 0) + 1
        state["dist"]["accepted" if info["accepted"] else "rejected"] = state["dist"].get("accepted" if info["accepted"] else "rejected", 0) + 1
        for k_ in ("converting", "conv_refused_adf"):
            if info.get(k_):
                state["dist"][k_] = state["dist"].get(k_, 0) + 1
        key = hashlib.sha1((backend + script[i]).encode()).hexdigest() if info["nontrivial"] else None
        ck.case(key, sample={"level": level, "backend": backend, "op": script[i]} if key else None)
    for (i, exp, obs, info) in fails:
        # a property failure: shrink and report
        if level == "lo" and i < len(script):
            small = case_lines(script, i)
        else:
            # 'reopen' stays (reads are refused in CG_MODE_WRITE; writes work in both modes), so it is part of the setup
            setup = [l for l in script if l.split()[0] not in ("w", "r", "cfg")]
            ops = [l for l in script[: i + 1] if l.split()[0] in ("w", "r", "cfg")]

            def still(sub, setup=setup):
                f, _, _, _ = evaluate(level, backend, setup + sub, *run_only(exe, setup + sub, path, backend), None)
                return bool(f)
            small = setup + (vlib.ddmin(ops, still, max_tests=60) if len(ops) > 1 else ops)
        il2, oc2 = run_only(exe, small, path, backend)
        f2, _, g2, o2 = evaluate(level, backend, small, il2, oc2, None)
        if f2:
            j = f2[0][0]
            ck.violation({"level": level, "backend": backend, "script": small, "failing_line": small[j] if j < len(small) else None,
                          "expected": f2[0][1], "observed": f2[0][2], "outcome": oc2,
                          "oracle": "independent nested-loop reference (checks/C05.py: lo_reference / mid_reference)",
                          "replay_hint": "printf '%%s\\n' <script lines> | .build/h/c05_%s /tmp/x.cgns %s" % (level, backend)})
        else:
            ck.violation({"level": level, "backend": backend, "script": script[: i + 1], "expected": exp, "observed": obs,
                          "outcome": outcome, "note": "failure did not reproduce on the shrunk script"})
        return False
    for (i, m, g) in corr:
        # model != implementation while the oracle is satisfied
        if any(f[0] == i for f in fails):
            continue
        state["corr"].append({"level": level, "backend": backend, "script": case_lines(script, i) if level == "lo" else script[: i + 1],
                              "line": script[i], "model": m, "impl": g})
    return True


def run_only(exe, script, path, backend):
    il, oc = vlib.run_impl(exe, "\n".join(script) + "\n", args=[path, backend], timeout=300)
    if os.path.exists(path):
        os.unlink(path)
    return il, oc


RANK_KEY = "array-general-rank-gt-indexdim-rind-oob"
PROBE_RANK = ["zone 1 3", "grid -", "sol Sol0 v 1,1",
              "w array:Sol0 A general t=r8 sdims=2,2,2 rlo=1,0,0 s=0:1,1:2,1:2 m=8;1:8 100"]
WITNESS_SHORTCUT = (["zone 1 3", "grid -", "reopen"],
                    ["w coord CoordinateX general t=r8 sdims=3 rlo=0 s=1:3 m=3;1:3 7",
                     "r coord CoordinateX general t=r8 sdims=3 rlo=0 s=101:103 m=3;1:3 50",
                     "w coord CoordinateX general t=r8 sdims=3 rlo=0 s=101:103 m=3;1:3 60"])


def run(ck):
    big = ck.tier == "thorough"
    vlib.build_impl()
    lo = vlib.build_harness("c05_lo", ["c05_lo.c"])
    mid = vlib.build_harness("c05_mid", ["c05_mid.c"])
    res = vlib.coq_check_properties("C05")
    broken = ck.proof_result(res, CHECKER)
    vlib.build_modelrun("c05")
    forb = vlib.coq_forbidden_scan()
    forb = [h for h in forb if h.split(":")[0] in ("Hyperslab.v", "HyperslabProofs.v", "Properties_C05.v", "Extract_c05.v")]
    ck.extra["forbidden_tokens"] = forb
    if forb:
        ck.violation({"broken_obligation": "forbidden tokens in the Coq development", "hits": forb}, nofail=True)
    ck.cov["trusted_base"] = [
        "Coq 8.16.1 kernel + vm_compute (no native_compute)",
        "extraction: ExtrOcamlBasic only; OCaml 4.13.1; ocaml/zutil.ml, ocaml/eng_c05.ml (parsing, zipping of the parallel arrays, guard formulas)",
        "harness/c05_lo.c, harness/c05_mid.c, the generators and the nested-loop oracle in checks/C05.py",
        "hand transcription of ADF_internals.c / ADF_interface.c / ADFH.c / cgns_internals.c into coq/Hyperslab.v, validated by the correspondence below",
        "libhdf5's hyperslab engine is trusted to implement its documented row-major selection semantics (modelled as h5_points / lin_c)",
    ]
    ck.assumptions = ["64-bit build (cgsize_t = int64, cgulong_t = uint64)", "arrays of fewer than 2^63 elements (no cgulong_t wrap)",
                      "equal file and memory data types (conversions are C06)", "memory dims >= 0 in generated requests",
                      "the undocumented full-span read shortcut of cgi_array_general_verify_range is taken as specified behaviour "
                      "(Theorem C05_read_outside_range_refuted makes it explicit)"]
    ck.cov["rule"] = ("lo: seeded cgio requests on nodes of rank 1..12 (small extents, plus 1-D/2-D nodes spanning several 4096-byte "
                      "blocks and grown two-chunk nodes), strides dividing / not dividing the extent, memory rank 1..12 with equal "
                      "counts, ~28% invalid (range leaves the array, start>end, stride<1, dim 0, count mismatch); mid: structured "
                      "zones of index dimension 1..3, rind 0..2 per face on GridCoordinates / FlowSolution (Vertex, CellCenter), "
                      "arrays under FlowSolution_t (rind) and UserDefinedData_t (none), particle coordinates / fields; general, "
                      "partial, plain-read and full-write entry points; both rind conventions toggled inside a session; ~25% "
                      "invalid.  Every case is compared with the extracted model AND with the nested-loop oracle.  non-trivial = "
                      "accepted proper-subset transfer (mid: with non-zero rind or a rank change); distinct by SHA1(backend+op)")
    state = {"dist": {}, "corr": []}
    ok = True

    # ---- the read-shortcut witness, replayed on the implementation (informational)
    il, oc = run_only(mid, WITNESS_SHORTCUT[0] + WITNESS_SHORTCUT[1], os.path.join(ck.work, "sc.cgns"), "adf")
    ck.extra["spec_deviation_full_span_read_shortcut"] = {
        "script": WITNESS_SHORTCUT[1][1:], "observed": il[-4:],
        "note": "a read of 101..103 on a 3-element array is accepted (extents equal the stored extents); the same write is "
                "rejected; documented in cgns_internals.c as backward compatibility, exercised by test_general_rind"}

    # ---- known finding (outside the generated domain, which keeps the rank of arrays under rind-bearing parents equal to
    # the index dimension): cg_array_general_write / _read index rind_planes[2*n] for n < array rank, but the parent's
    # rind_planes has only 2*IndexDimension entries.  Matched narrowly: ASan heap-buffer-overflow whose innermost frame is
    # cgi_array_general_verify_range, on the rank-3-array-in-a-1-D-zone probe; any other outcome of the probe is judged
    # by the oracle like every other case.
    il, oc = run_only(mid, PROBE_RANK, os.path.join(ck.work, "rk.cgns"), "adf")
    ck.extra["rank_gt_indexdim_probe"] = {"outcome": oc, "lines": il[-2:]}
    ck.case(None)
    if oc == "asan:heap-buffer-overflow@cgi_array_general_verify_range":
        ck.finding(RANK_KEY, {"level": "mid", "backend": "adf", "script": PROBE_RANK, "outcome": oc,
                              "what": "array rank 3 != IndexDimension 1 under FlowSolution_t with Rind"})
    elif oc != "ok":
        ck.violation({"level": "mid", "backend": "adf", "script": PROBE_RANK, "outcome": oc, "lines": il[-3:]})
        ok = False

    # ---- corpus
    cdir = os.path.join(vlib.ROOT, "corpus", "C05")
    if ok and os.path.isdir(cdir):
        for f in sorted(os.listdir(cdir)):
            lines = [l for l in open(os.path.join(cdir, f)).read().split("\n") if l.strip() and not l.startswith("#")]
            level = "lo" if f.endswith(".lo") else "mid"
            for backend in ("adf", "hdf5"):
                if ok and not run_level(ck, level, lo if level == "lo" else mid, backend, lines, "corpus", state):
                    ok = False

    # ---- exhaustive small scopes (quick: a few; thorough: rank <= 3 and every rind combination of a 2-D zone)
    import itertools
    xlo = exhaustive_lo([[1], [2], [5], [3, 2]] if not big else [[1], [2], [3], [5], [6], [3, 2], [4, 3], [3, 2, 2]])
    xmid = exhaustive_mid([[1, 0, 0, 1]] if not big else [list(r) for r in itertools.product([0, 1], repeat=4)] + [[2, 1, 0, 2]])
    for k, sc in enumerate(xlo):
        for backend in ("adf", "hdf5"):
            if ok and not run_level(ck, "lo", lo, backend, sc, "x%d" % k, state):
                ok = False
    for k, sc in enumerate(xmid):
        for backend in ("adf", "hdf5"):
            if ok and not run_level(ck, "mid", mid, backend, sc, "xm%d" % k, state):
                ok = False
    ck.extra["exhaustive_scopes"] = {"lo_scripts": len(xlo), "lo_ops": sum(len(x) - 1 for x in xlo),
                                     "mid_scripts": len(xmid), "mid_ops": sum(len(x) for x in xmid)}

    # ---- seeded generation
    n_lo_batches, lo_per = (60, 120) if big else (3, 110)
    n_mid = 240 if big else 11
    idx = 0
    for b in range(n_lo_batches):
        if not ok:
            break
        script = []
        for _ in range(lo_per):
            script += gen_lo_case(ck.rng, idx, big); idx += 1
        for backend in ("adf", "hdf5"):
            if ok and not run_level(ck, "lo", lo, backend, script, "b%d" % b, state):
                ok = False
    for b in range(n_mid):
        if not ok:
            break
        setup, ops = gen_mid_script(ck.rng, big)
        for backend in ("adf", "hdf5"):
            if ok and not run_level(ck, "mid", mid, backend, setup + ops, "m%d" % b, state):
                ok = False

    # ---- a broken obligation or a model/implementation divergence without a failing input: widen, then report
    if ok and (state["corr"] or broken):
        found = False
        for b in range(10 if not big else 4):
            script = []
            for _ in range(lo_per):
                script += gen_lo_case(ck.rng, idx, big); idx += 1
            setup, ops = gen_mid_script(ck.rng, big)
            for backend in ("adf", "hdf5"):
                for level, exe, sc in (("lo", lo, script), ("mid", mid, setup + ops)):
                    if not found and not run_level(ck, level, exe, backend, sc, "wide%d" % b, state):
                        found = True
            if found:
                break
        if not found:
            ck.violation({"broken_obligations": broken, "broken_correspondence": state["corr"][:3],
                          "note": "model and implementation differ (or an obligation no longer checks) but every case explored "
                                  "still satisfies the nested-loop oracle"}, nofail=True)
    ck.extra["input_distribution"] = state["dist"]
    ck.extra["correspondence_divergences"] = len(state["corr"])


def replay(ck, path):
    r = json.load(open(path))
    if "script" not in r or "level" not in r:
        print("replay names a broken obligation/correspondence, no input to run:", json.dumps(r)[:600]); return 1
    vlib.build_impl()
    level, backend = r["level"], r["backend"]
    exe = vlib.build_harness("c05_" + level, ["c05_%s.c" % level])
    vlib.build_modelrun("c05")
    script = r["script"]
    il, oc = run_only(exe, script, os.path.join(ck.work, "replay.cgns"), backend)
    ml = vlib.run_model("c05", "\n".join(script) + "\n", args=[level, backend])
    fails, corr, groups, oracle = evaluate(level, backend, script, il, oc, ml)
    for (i, exp, obs, info) in fails:
        print("replay: line %d %r: oracle expects %s, implementation %s (outcome %s)%s" % (
            i, script[i] if i < len(script) else None, exp, obs, oc,
            ""))
    for (i, m, g) in corr:
        print("replay: line %d: model %s, implementation %s" % (i, m, g))
    print("replay: property %s on this input" % ("FAILS" if fails else "holds"))
    return 1 if fails else 0
