"""C20f -- extension of C20: the Fortran side itself (src/cgns_f.F90 compiled by a real Fortran compiler).

What C20 assumes and this module checks against /usr/bin/gfortran-12:
  * the hidden-length convention (one size_t per CHARACTER argument, by value, after all other arguments, in argument
    order) and the argument order of every wrapper of cg_ftoc.c / cgio_ftoc.c that the scenarios reach;
  * the interface blocks / BIND(C) names / kinds (cgsize_t, cgenum_t, default INTEGER = cgint_f) of cgns_f.F90;
  * the module procedures of cgns_f.F90 that call the C API directly (cg_open_f, cg_base_write_f, cg_goto_f ...).

Tie T : translators/c20f_iface.py re-extracts every interface body of cgns_f.F90 (as preprocessed for the build) and
        pairs it with the C definition its link name resolves to; coq/Gen_C20f.v; the kernel evaluates
        FtocAbi.abi_ok on every row (coq/Properties_C20f.v).
Tie C : a second out-of-tree build of the working tree with CGNS_ENABLE_FORTRAN=ON (.build/cgns_f<tag>), the Fortran
        driver harness/c20f_*.f90 linked against its cgns.mod / libcgns.a, run on the same scripts as the C harness:
        Fortran program == C harness wrapper mode (f) == C harness direct mode (c), lines and file trees, ADF + HDF5.
        A generated Fortran program references EVERY interface body of the module and every wrapper without an
        interface (implicit F77 call): it must link.
Use   : run_extra(ck) from checks/C20.py (adds to C20's evidence), or standalone  ./check C20f .
"""
import hashlib, json, os, re, shutil, subprocess, sys, time
import vlib

sys.path.insert(0, os.path.join(vlib.ROOT, "translators"))
import c20_ftoc, c20f_iface
from checks import C20

GFORTRAN = "/usr/bin/gfortran-12"
IMPLF = os.path.join(vlib.BUILD, "cgns_f" + vlib._TAG)
FFLAGS = "-O1 -g -fno-omit-frame-pointer"
DRV_FFLAGS = ["-O1", "-g", "-w", "-fno-omit-frame-pointer", "-ffree-line-length-none", "-fsanitize=address,undefined",
              "-fno-sanitize-recover=undefined"]
DRV_SRC = ["c20f_drv.f90", "c20f_mll1.f90", "c20f_mll2.f90", "c20f_mll3.f90", "c20f_cgio.f90", "c20f_extra.f90", "c20f_dl2.f90",
           "c20f_goto20.f90", "c20f_impl.f90", "c20f_mod2.f90",
           "c20f_main.f90"]
DL = [1, 8, 31, 32, 33, 40, 80]
# declared lengths per argument of the dl2_* operations (harness/c20f_dl2.f90): all orderings of three distinct lengths
TRIPLES = [(8, 32, 40), (8, 40, 32), (32, 8, 40), (32, 40, 8), (40, 8, 32), (40, 32, 8), (1, 33, 80), (80, 31, 1)]
MIRROR = {1: 3, 2: 5, 3: 1, 4: 6, 5: 2, 6: 4, 7: 8, 8: 7}          # the triple with the first two lengths the other way round
# node names / labels around the path terminators of cg_goto / cg_gorel ("end", "END", NULL, ""): prefixes, extensions,
# other case, trailing / leading blanks, blank-only, empty
TERM_FAMILY = [b"end", b"END", b"endwall", b"END2", b"en", b"End", b"end cap", b"ENDPLATE", b"e", b"endend", b"Wall", b"end ", b"END   ",
               b"endwall  ", b"   ", b" ", b"", b" lead", b"enD"]
CHECKER = ("make -C coq Ftoc.vo FtocAbi.vo FtocAbiProofs.vo FtocGoto.vo FtocGotoProofs.vo FtocMod.vo FtocModProofs.vo Gen_C20f.vo (coqc 8.16.1 kernel, vm_compute on the regenerated "
           "interface table) ; coqc Properties_C20f.v (Print Assumptions)")
ORACLE = ("Fortran program (gfortran-12, use cgns) == C harness in wrapper mode == C harness in direct mode: status, outputs, "
          "guard bytes, file tree; ASan/UBSan; every interface body links")


# ------------------------------------------------------------------------------------------------ builds
def build_fortran_impl():
    """second out-of-tree build of the working tree, Fortran interface on (C part with the sanitizer flags of vlib)."""
    if not os.path.exists(GFORTRAN):
        raise vlib.Infra("no Fortran compiler at %s" % GFORTRAN)
    with vlib.Lock("implf" + vlib._TAG):
        if not os.path.exists(os.path.join(IMPLF, "build.ninja")):
            rc, out = vlib.sh(["cmake", "-G", "Ninja", "-S", vlib.REPO, "-B", IMPLF, "-DCMAKE_BUILD_TYPE=None",
                               "-DCMAKE_Fortran_COMPILER=" + GFORTRAN, "-DCMAKE_C_FLAGS=" + vlib.IMPL_CFLAGS,
                               "-DCMAKE_Fortran_FLAGS=" + FFLAGS, "-DCGNS_ENABLE_FORTRAN=ON", "-DCGNS_BUILD_SHARED=OFF",
                               "-DCGNS_ENABLE_HDF5=ON", "-DCGNS_ENABLE_64BIT=ON", "-DCGNS_ENABLE_TESTS=OFF",
                               "-DCGNS_BUILD_CGNSTOOLS=OFF"])
            if rc != 0:
                raise vlib.Infra("cmake configure (Fortran on) failed:\n" + out[-3000:])
        rc, out = vlib.sh(["cmake", "--build", IMPLF, "--target", "cgns_static", "-j4"])
        if rc != 0:
            return None, out
    return os.path.join(IMPLF, "src", "libcgns.a"), out


def _stamp(paths, extra=""):
    h = hashlib.sha1(extra.encode())
    for p in paths:
        st = os.stat(p)
        h.update(("%s:%d:%d;" % (p, st.st_size, st.st_mtime_ns)).encode())
    return h.hexdigest()


def link_args():
    return [os.path.join(IMPLF, "src", "libcgns.a")] + vlib.HDF5_LIBS


def build_driver():
    """harness/c20f_*.f90 + c20f_help.c -> .build/h<tag>/c20f_drv (rebuilt only when a source, cgns.mod or libcgns.a changed).
    Returns (exe, None) or (None, compiler output): a Fortran compile error against the module is a RESULT (an interface
    block no longer accepts a call that the documented API allows), not an infrastructure failure."""
    hd = os.path.join(vlib.HDIR, "c20f")
    os.makedirs(hd, exist_ok=True)
    srcs = [os.path.join(vlib.ROOT, "harness", s) for s in DRV_SRC] + [os.path.join(vlib.ROOT, "harness", "c20f_help.c")]
    deps = srcs + [os.path.join(IMPLF, "src", "cgns.mod"), os.path.join(IMPLF, "src", "libcgns.a")]
    exe = os.path.join(vlib.HDIR, "c20f_drv")
    with vlib.Lock("h_c20f_drv" + vlib._TAG):
        st = _stamp(deps, " ".join(DRV_FFLAGS))
        sf = os.path.join(hd, "stamp")
        if os.path.exists(exe) and os.path.exists(sf) and open(sf).read() == st:
            return exe, None
        objs = []
        for s in srcs[:-1]:
            o = os.path.join(hd, os.path.basename(s)[:-4] + ".o")
            rc, out = vlib.sh([GFORTRAN] + DRV_FFLAGS + ["-I" + os.path.join(IMPLF, "src"), "-J" + hd, "-c", s, "-o", o])
            if rc != 0:
                return None, "%s:\n%s" % (os.path.basename(s), out[-3000:])
            objs.append(o)
        o = os.path.join(hd, "c20f_help.o")
        rc, out = vlib.sh(["cc"] + vlib.SAN_FLAGS.split() + ["-c", srcs[-1], "-o", o])
        if rc != 0:
            raise vlib.Infra("c20f_help.c does not compile:\n" + out[-2000:])
        objs.append(o)
        tmp = "%s.tmp.%d" % (exe, os.getpid())
        rc, out = vlib.sh([GFORTRAN] + DRV_FFLAGS + ["-o", tmp] + objs + link_args())
        if rc != 0:
            if os.path.exists(tmp):
                os.unlink(tmp)
            return None, "link:\n" + out[-3000:]
        os.replace(tmp, exe)
        open(sf, "w").write(st)
    return exe, None


# ------------------------------------------------------------------------------------------------ link-all program
def _decl_for(cls, value, arr, k):
    t = {"FInt": "integer", "FCInt": "integer(c_int)", "FSize": "integer(cgsize_t)", "FEnum": "integer(cgenum_t)",
         "FLong": "integer(c_long_long)", "FSizeT": "integer(c_size_t)", "FDouble": "real(c_double)", "FFloat": "real(c_float)",
         "FChar": "character(len=8)", "FCPtr": "type(c_ptr)", "FCFunPtr": "type(c_funptr)"}.get(cls)
    if t is None:
        return None
    return "%s :: a%d%s" % (t, k, "(4)" if arr and cls != "FChar" else "")


def gen_linkall(ifaces, implicit_names, path):
    """A Fortran program with one (never executed) call of every interface body declared at module level of cgns_f.F90
    and one F77-style call of every wrapper that has no interface.  It must compile and LINK: an interface whose link
    name has no definition in libcgns.a shows as an undefined reference."""
    subs, names, skipped = [], [], []
    for p in ifaces:
        if p["owner"] is not None or p["function"]:
            continue
        decls, args, ok = [], [], True
        for k, a in enumerate(p["args"]):
            d = _decl_for(a[1], a[2], a[4], k)
            if d is None:
                ok = False; break
            decls.append(d); args.append("a%d" % k)
        if not ok:
            skipped.append(p["name"]); continue
        subs.append("subroutine s_%s()\n  use iso_c_binding\n  use cgns\n  implicit none\n%s\n  call %s(%s)\nend subroutine\n" % (
            p["name"], "\n".join("  " + d for d in decls), p["name"], ", ".join(args)))
        names.append(p["name"])
    ext = []
    for n in implicit_names:
        ext.append("subroutine x_%s()\n  implicit none\n  external %s\n  integer :: a\n  call %s(a)\nend subroutine\n" % (n, n, n))
    main = ["program c20f_linkall", "  implicit none", "  if (command_argument_count() > 99) then"]
    main += ["    call s_%s()" % n for n in names] + ["    call x_%s()" % n for n in implicit_names]
    main += ["  end if", "  print '(A)', 'linked'", "end program"]
    txt = "\n".join(subs) + "\n" + "\n".join(ext) + "\n" + "\n".join(main) + "\n"
    if not os.path.exists(path) or open(path).read() != txt:
        open(path, "w").write(txt)
    return names, skipped


def documented_call_compiles(proc, c_params, work):
    """the call a user writes from the documentation -- one actual argument per parameter of the C function, then ier -- against
    the module: does it compile?  (for a module procedure whose number of dummies is not that of the C function + 1)"""
    decl = {"TInt": "integer", "TIntP": "integer", "TSize": "integer(cgsize_t)", "TSizeP": "integer(cgsize_t)", "TEnum": "integer(cgenum_t)",
            "TEnumP": "integer(cgenum_t)", "TDouble": "real(c_double)", "TDoubleP": "real(c_double)", "TFloat": "real(c_float)", "TFloatP": "real(c_float)",
            "TStr": "character(len=32)", "TStrP": "character(len=32)", "TVoidP": "real(c_double)"}
    ds, args = [], []
    for k, c in enumerate(c_params):
        if c not in decl:
            return None, "parameter class %s" % c
        ds.append("  %s :: a%d" % (decl[c], k)); args.append("a%d" % k)
    src = os.path.join(work, "c20f_doc_%s.f90" % proc)
    open(src, "w").write("subroutine s()\n  use iso_c_binding\n  use cgns\n  implicit none\n%s\n  integer :: ier\n  call %s(%s, ier)\nend subroutine\n" % (
        "\n".join(ds), proc, ", ".join(args)))
    rc, out = vlib.sh([GFORTRAN, "-w", "-c", "-I" + os.path.join(IMPLF, "src"), "-J" + work, src, "-o", src[:-4] + ".o"], cwd=work)
    return rc == 0, out[-600:]


def run_linkall(ifaces, implicit_names, work):
    """-> dict(undefined=[symbols], compile_errors=str|None, checked=n, skipped=[...])"""
    src = os.path.join(work, "c20f_linkall.f90")
    names, skipped = gen_linkall(ifaces, implicit_names, src)
    exe = os.path.join(work, "c20f_linkall")
    rc, out = vlib.sh([GFORTRAN, "-O0", "-w", "-ffree-line-length-none", "-fsanitize=address,undefined", "-I" + os.path.join(IMPLF, "src"),
                       "-J" + work, src, "-o", exe] + link_args(), cwd=work)
    undefined = sorted(set(re.findall(r"undefined reference to `([^']+)'", out)))
    undefined = [u for u in undefined if not u.startswith("__asan") and not u.startswith("__ubsan")]
    cerr = None
    if rc != 0 and not undefined:
        cerr = out[-3000:]
    return {"undefined": undefined, "compile_errors": cerr, "checked": len(names) + len(implicit_names), "skipped": skipped, "rc": rc}


# ------------------------------------------------------------------------------------------------ scripts
def hx(b):
    return bytes(b).hex() if b else "-"


def fassign(b, L):
    """value of a CHARACTER(L) variable after  var = b"""
    return (bytes(b) + b" " * L)[:L]


def to_c_line(l):
    """a dl_* line of the Fortran script -> the plain operation for the C harness (None: keep the line)"""
    t = l.split()
    o = t[0]
    unhex = lambda h: b"" if h == "-" else bytes.fromhex(h)
    if o == "dl_base":
        return "base %s %s %s" % (hx(fassign(unhex(t[2]), int(t[1]))), t[3], t[4])
    if o == "dl_sol_write":
        return "sol_write %s %s %s %s" % (t[1], t[2], hx(fassign(unhex(t[4]), int(t[3]))), t[5])
    if o == "dl_coord_write":
        return "coord_write %s %s %s %s" % (t[1], t[2], t[3], hx(fassign(unhex(t[5]), int(t[4]))))
    if o == "dl_descriptor_write":
        return "descriptor_write %s %s" % (hx(fassign(unhex(t[2]), int(t[1]))), hx(fassign(unhex(t[3]), 80)))
    if o == "dl_io_create":
        return "io_create %s %s" % (t[1], hx(fassign(unhex(t[3]), int(t[2]))))
    if o == "dl_goto":
        return "gotov %s 1 %s %s" % (t[1], hx(fassign(unhex(t[3]), int(t[2]))), t[4])
    if o == "dl_sol_info":
        return "sol_info %s %s %s %s" % (t[1], t[2], t[3], t[4])
    if o == "dl_section_read":
        return "section_read %s %s %s %s" % (t[1], t[2], t[3], t[4])
    if o == "dl_base_read":
        return "base_read %s %s" % (t[1], t[2])
    if o == "dl_get_error":
        return "get_error %s" % t[1]
    if o == "dl_io_get_name":
        return "io_get_name %s %s" % (t[1], t[2])
    if o == "dl_descriptor_read":
        return "descriptor_read %s %s 80" % (t[1], t[2])
    if o == "dl_children_names":
        return "io_children_names %s %s %s %s" % (t[1], t[2], t[3], t[4])
    if o.startswith("dl2_"):
        L = TRIPLES[int(t[1]) - 1]
        a = t[2:]
        pad = lambda k, h: hx(fassign(unhex(h), L[k]))
        name = o[4:]
        if name in ("conn_info", "1to1_read"):
            return "%s %s %s %s %d %d" % (name, a[0], a[1], a[2], L[0], L[1])
        if name in ("multifam_read", "descriptor_read", "io_get_link"):
            return "%s %s %d %d" % (name, a[0], L[0], L[1])
        if name == "link_read":
            return "link_read %d %d" % (L[0], L[1])
        if name == "io_file_version":
            return "io_file_version %d %d %d" % L
        if name == "geo_read":
            return "geo_read %s %s %s %d %d %d" % (a[0], a[1], a[2], L[0], L[1], L[2])
        if name in ("1to1_write", "conn_write_short"):
            return "%s %s %s %s %s" % (name, a[0], a[1], pad(0, a[2]), pad(1, a[3]))
        if name in ("multifam_write", "descriptor_write"):
            return "%s %s %s" % (name, pad(0, a[0]), pad(1, a[1]))
        if name == "subreg_bcname_write":
            return "subreg_bcname_write %s %s %s %s %s" % (a[0], a[1], pad(0, a[3]), a[2], pad(1, a[4]))
        if name == "link_write":
            return "link_write %s %s %s" % (pad(0, a[0]), pad(1, a[1]), pad(2, a[2]))
        if name == "io_create_link":
            return "io_create_link %s %s %s %s" % (a[0], pad(0, a[1]), pad(1, a[2]), pad(2, a[3]))
        if name == "io_new":
            return "io_new %s %s %s %s %s" % (a[0], pad(0, a[2]), pad(1, a[3]), pad(2, a[4]), a[1])
        if name == "geo_write":
            return "geo_write %s %s %s %s %s" % (a[0], a[1], pad(0, a[2]), pad(1, a[3]), pad(2, a[4]))
    return l


def probe_lens(rng, n):
    """output lengths around the length n of the value: n-1, n, n+1 (the last character, exact fit, one blank) + others"""
    c = [max(n - 1, 0), n, n + 1, n + 2, rng.choice(C20.OLENS), rng.choice(DL), rng.randint(0, 40)]
    return rng.choice(c)


def gen_modproc_script(rng, stats):
    """module procedures of cgns_f.F90 + cg_goto_f with several pairs + the declared-length battery, MLL level"""
    g = C20.NameGen(rng)
    o = g.olen
    dl = lambda: rng.choice(DL)
    nm = lambda mc=None: g.name(maxcore=mc)
    names = {}
    def known(tag, core):
        b = ("%s%d" % (tag, rng.randint(0, 9))).encode()
        b = b + bytes(rng.choice(C20.ALNUM) for _ in range(max(0, core - len(b))))
        names[tag] = b
        return b
    bn = known("Ba", rng.choice([4, 7, 8, 30, 31, 32]))
    s = ["open w", "base %s 3 3" % hx(bn + b" " * rng.choice([0, 3]))]
    for _ in range(2):
        s.append("dl_base %d %s %d %d" % (dl(), nm(), rng.choice([2, 3]), 3))
    s.append("base %s 3 3" % nm())
    fam = known("Fam", rng.choice([5, 9, 31, 32]))
    s += ["family_write 1 %s" % hx(fam + b"  "), "family_write 1 %s" % nm(), "family_write 1 %s" % nm()]
    gn, gf, gc = known("Geo", rng.choice([6, 32])), known("file", rng.choice([8, 40, 200])), known("CAD", rng.choice([4, 31]))
    s += ["geo_write 1 1 %s %s %s" % (hx(gn), hx(gf + b" "), hx(gc)), "geo_write 1 1 %s %s %s" % (nm(), g.name(force="plain"), g.name(force="plain", maxcore=32))]
    zn = known("Zn", rng.choice([3, 8, 31, 32]))
    s += ["zone %s 1 s 3" % hx(zn), "zone %s 1 u 8" % hx(b"Z2"), "zone %s 1 s 3" % nm()]
    dn = known("Dis", rng.choice([7, 32]))
    s += ["discrete_write 1 1 %s" % hx(dn + b"   "), "discrete_write 1 1 %s" % nm()]
    cn = known("Coord", rng.choice([10, 31, 32]))
    s += ["coord_write 1 1 4 %s" % hx(cn), "dl_coord_write 1 1 4 %d %s" % (dl(), nm()), "dl_coord_write 1 1 3 %d %s" % (dl(), nm(20))]
    s += ["sol_write 1 1 %s 2" % hx(b"Sol1"), "dl_sol_write 1 1 %d %s 2" % (dl(), nm()), "dl_sol_write 1 1 %d %s 3" % (dl(), nm(30))]
    s += ["section_write 1 2 %s 10 1 4 0" % hx(b"Elem" + b"x" * rng.choice([0, 3, 27, 28])), "section_write 1 2 %s 10 5 8 0" % nm()]
    s += ["field_write 1 1 1 4 %s 27" % hx(b"Fld1"), "1to1_write 1 1 %s %s" % (hx(b"I1"), hx(zn))]
    s += ["close", "open m", "nbases", "field_id 1 1 1 1", "field_id 1 1 %d 1" % rng.choice([2, 3, 9]), "1to1_id 1 1 1", "1to1_id 1 2 1",
          "goto 1 end 0", "state_write %s" % hx(C20.rand_bytes(rng, rng.choice([1, 31, 32, 80, 300]), 0.2)), "state_size", "goto 1 Zone_t 1", "state_size"]
    for B in (1, 2, 3, 4):
        s.append("base_read %d %d" % (B, probe_lens(rng, len(bn)) if B == 1 else o()))
    s += ["dl_base_read 1 %d" % dl(), "dl_base_read %d %d" % (rng.randint(1, 3), dl()), "nzones 1", "nzones 2"]
    for Z in (1, 2, 3, 4):
        s.append("zone_read 1 %d %d" % (Z, probe_lens(rng, len(zn)) if Z == 1 else o()))
    s += ["ncoords 1 1", "coord_info 1 1 1 %d" % probe_lens(rng, len(cn)), "coord_info 1 1 2 %d" % o(), "coord_info 1 1 9 %d" % o()]
    s += ["family_read 1 1 %d" % probe_lens(rng, len(fam)), "family_read 1 2 %d" % o(), "family_read 1 7 %d" % o()]
    s += ["geo_read 1 1 1 %d %d %d" % (probe_lens(rng, len(gn)), probe_lens(rng, len(gf)), probe_lens(rng, len(gc))),
          "geo_read 1 1 2 %d %d %d" % (o(), o(), o())]
    s += ["discrete_read 1 1 1 %d" % probe_lens(rng, len(dn)), "discrete_read 1 1 2 %d" % o()]
    for S in (1, 2, 3):
        s.append("dl_sol_info 1 1 %d %d" % (S, dl()))
    s += ["dl_section_read 1 2 1 %d" % dl(), "dl_section_read 1 2 2 %d" % dl(), "dl_section_read 1 2 5 %d" % dl(), "dl_get_error %d" % dl()]
    # cg_goto_f / cg_gorel_f with several label / index pairs
    s += ["gotov 1 2 %s 1 %s 1" % (hx(b"Zone_t"), hx(b"FlowSolution_t")), "gridlocation_read",
          "gotov 1 3 %s 1 %s 1 %s 1" % (hx(b"Zone_t"), hx(b"GridCoordinates_t"), hx(b"DataArray_t")), "dataclass_read",
          "gotov 1 2 %s 1 %s %d" % (hx(b"Zone_t "), hx(b"FlowSolution_t"), rng.choice([1, 2, 9])),
          "gotov 1 2 %s 7 %s 1" % (hx(b"Zone_t"), hx(b"FlowSolution_t")), "get_error %d" % o(),
          "gotov 1 1 %s 1" % hx(b"Zone_t"), "gorelv 1 %s 1" % hx(b"DiscreteData_t"), "gridlocation_write 3", "gridlocation_read",
          "gotov 1 1 %s 1" % hx(b"Zone_t"), "gorelv 2 %s 1 %s 1" % (hx(b"GridCoordinates_t"), hx(b"DataArray_t   ")), "dataclass_write 2",
          "gotov 1 0", "dataclass_write 3", "dataclass_read",
          "dl_goto 1 %d %s 1" % (rng.choice([8, 31, 32, 33, 40, 80]), hx(b"Zone_t")), "where", "ndescriptors"]
    for _ in range(2):
        s.append("dl_descriptor_write %d %s %s" % (dl(), nm(), hx(C20.rand_bytes(rng, rng.choice([0, 10, 79, 80, 81, 200]), 0.2))))
    s += ["descriptor_write %s %s" % (hx(b"D" + b"e" * rng.choice([6, 30, 31])), hx(C20.rand_bytes(rng, rng.choice([5, 79, 80]), 0.0))), "ndescriptors"]
    for D in (1, 2, 3):
        s.append("dl_descriptor_read %d %d" % (D, dl()))
    an = known("Arr", rng.choice([4, 12, 31, 32]))
    s += ["gopath %s" % hx(b"/" + bn + b"/" + zn + b"  "), "user_data_write %s" % hx(b"UD"), "gopath %s" % hx(b"/" + bn + b"/" + zn + b"/UD"),
          "array_write %s 5" % hx(an), "array_write %s 7" % nm(12), "narrays", "array_info 1 %d" % probe_lens(rng, len(an)),
          "array_info 2 %d" % o(), "array_info 5 %d" % o(), "gopath %s" % hx(b"/nowhere/at/all"), "dl_get_error %d" % dl(),
          "dl_goto 1 %d %s 9" % (rng.choice([8, 32, 80]), hx(b"Zone_t")), "dl_get_error %d" % dl(), "close", "goto 1 end 0", "nbases"]
    for k, v in g.stats["kind"].items():
        stats["kind"][k] = stats["kind"].get(k, 0) + v
    return s


def gen_dlio_script(rng, stats):
    """declared-length battery at cgio level: CHARACTER(n) node names, CHARACTER*(n) arrays for cgio_children_names_f"""
    g = C20.NameGen(rng)
    dl = lambda: rng.choice(DL)
    s = ["io_open w %d" % rng.choice([0, 2])]
    nch = rng.randint(3, 6)
    for k in range(nch):
        if rng.random() < 0.6:
            s.append("dl_io_create 0 %d %s" % (dl(), g.name()))
        else:
            s.append("io_create 0 %s" % g.name(force="plain", maxcore=32))
    s.append("io_create 0 %s" % hx(b"N" * 32))
    for i in range(1, nch + 2):
        s.append("dl_io_get_name %d %d" % (i, dl()))
    s.append("io_nchildren 0")
    for L in rng.sample(DL, 5):
        s.append("dl_children_names 0 %d %d %d" % (rng.choice([1, 1, 2]), rng.choice([1, 3, 10, 12]), L))
    s += ["io_children_names 0 1 %d %d" % (rng.choice([2, 10]), rng.choice([33, 40, 36])), "io_close"]
    for k, v in g.stats["kind"].items():
        stats["kind"][k] = stats["kind"].get(k, 0) + v
    return s


def gen_goto_script(rng, stats):
    """cg_goto_f / cg_gorel_f by NAME (index 0) and by label (index > 0) with names and labels drawn from TERM_FAMILY, on a
    tree that HAS children with those names; after every move the position is observed (cg_where) and a marker descriptor is
    written (its place shows in the file tree)."""
    real = [n for n in TERM_FAMILY if n.strip(b" ") and not n.startswith(b" ") and n == n.rstrip(b" ")]
    rng.shuffle(real)
    at_base = real[:rng.randint(5, len(real))]
    at_zone = [n for n in real if rng.random() < 0.6]
    s = ["open w", "base %s 3 3" % hx(b"Base"), "zone %s 1 s 3" % hx(rng.choice([b"endzone", b"ENDZ", b"Z1"])), "zone %s 1 s 3" % hx(b"Z2"), "goto 1 end 0"]
    s += ["user_data_write %s" % hx(n) for n in at_base]
    s += ["goto 1 Zone_t 1"] + ["user_data_write %s" % hx(n) for n in at_zone]
    if at_zone:
        s += ["gorel UserDefinedData_t 1", "user_data_write %s" % hx(rng.choice(real)), "user_data_write %s" % hx(b"deep")]
    s += ["close", "open m"]
    mk = [0]

    def observe():
        mk[0] += 1
        return ["where", "descriptor_write %s %s" % (hx(("Mk%d" % mk[0]).encode()), hx(b"m"))]
    fam = list(TERM_FAMILY)
    rng.shuffle(fam)
    for lab in fam[:rng.randint(10, len(fam))]:
        form = rng.choice(["base", "zone", "rel", "mid", "label", "rel2"])
        if lab.rstrip(b" ") in (b"", b"end", b"END") and form in ("mid", "rel2"):
            form = "zone" if form == "mid" else "rel"       # what follows a terminator is not part of the argument list
        idx = 0 if form != "label" else rng.choice([1, 1, 2])
        if form == "base":
            s.append("gotov 1 1 %s %d" % (hx(lab), idx))
        elif form == "zone":
            s.append("gotov 1 2 %s 1 %s 0" % (hx(b"Zone_t"), hx(lab)))
        elif form == "rel":
            s += ["gotov 1 1 %s 1" % hx(b"Zone_t"), "gorelv 1 %s 0" % hx(lab)]
        elif form == "rel2":
            s += ["gotov 1 1 %s 1" % hx(b"Zone_t"), "gorelv 2 %s 0 %s 0" % (hx(lab), hx(b"deep"))]
        elif form == "mid":
            s.append("gotov 1 3 %s 1 %s 0 %s 1" % (hx(b"Zone_t"), hx(lab), hx(b"UserDefinedData_t")))
        else:
            s.append("gotov 1 1 %s %d" % (hx(lab), idx))
        s += observe()
    # plain `goto` / `gorel` operations of the C harness (single pair, label as a word): their SCRIPT SYNTAX reads any word
    # that starts with end / END as "no pair" (c20_wrap.c), so only the other names of the family can be used with them
    for lab in rng.sample([n for n in real if b" " not in n and n[:3] not in (b"end", b"END")], 2):
        s += ["goto 1 %s 0" % lab.decode()] + observe() + ["goto 1 Zone_t 1", "gorel %s 0" % lab.decode()] + observe()
    s += ["dl_goto 1 %d %s 0" % (rng.choice([8, 32, 80]), hx(rng.choice([b"endwall", b"END2", b"end", b"Wall"])))] + observe()
    s += ["close"]
    return s


def gen_deep_script(rng, stats):
    """cg_goto_f / cg_gorel_f with EVERY number of pairs 1..20 (CG_MAX_GOTO_DEPTH) on a tree Base / Zone_t / UserDefinedData_t x 18
    (the base counts: 19 real steps is the deepest position the library keeps) in which the index of the node on the path
    differs at every depth (distinct values of 1..20) and so does its name; the 20th pair is a "." step put at a random place.
    A pair that one of the twenty look-alike blocks of the module procedure swaps, repeats or drops lands elsewhere (cg_where,
    marker)."""
    R = 19
    perm = list(range(1, 21))
    rng.shuffle(perm)
    z = min(perm[0], 3)                          # index of the zone on the path (1..3)
    idx = [z] + [v for v in perm if v != z][:R - 1]
    nz = 3
    s = ["open w", "base %s 3 3" % hx(b"Base")]
    zn = [("Zn%d" % j).encode() for j in range(1, nz + 1)]
    s += ["zone %s 1 s 3" % hx(n) for n in zn]
    names = [zn[z - 1]]
    s.append("goto 1 Zone_t %d" % z)
    for d in range(2, R + 1):
        p = idx[d - 1]
        cnt = min(20, p + rng.choice([0, 0, 1, 2]))    # a too large index of another depth sometimes still finds a node
        s += ["user_data_write %s" % hx(("L%d_%d" % (d, j)).encode()) for j in range(1, cnt + 1)]
        s.append("gorel UserDefinedData_t %d" % p)
        names.append(("L%d_%d" % (d, p)).encode())
    s += ["close", "open m"]
    lab = lambda d: b"Zone_t" if d == 1 else b"UserDefinedData_t"
    by_label = lambda d: "%s %d" % (hx(lab(d)), idx[d - 1])
    by_name = lambda d: "%s 0" % hx(names[d - 1])
    dot = "%s 0" % hx(b".")
    mk = [0]

    def observe():
        mk[0] += 1
        return ["where", "descriptor_write %s %s" % (hx(("Dk%d" % mk[0]).encode()), hx(b"m"))]
    forms = {"label": by_label, "name": by_name, "alt": lambda d: by_label(d) if d % 2 else by_name(d),
             "alt2": lambda d: by_name(d) if d % 2 else by_label(d)}

    def pairs(f, lo, hi, with_dot=None):
        out = [f(d) for d in range(lo, hi + 1)]
        if with_dot is not None:
            out.insert(with_dot, dot)
        return " ".join(out)
    for f in ("label", "name", "alt", "alt2"):       # twenty pairs: 19 steps and a "." at place 2..20
        s.append("gotov 1 20 " + pairs(forms[f], 1, R, with_dot=rng.randint(1, R)))
        s += observe()
    for k in range(1, R + 1):                        # every number of pairs
        s.append("gotov 1 %d " % k + pairs(forms[rng.choice(["label", "label", "name", "alt", "alt2"])], 1, k))
        s.append("where")
    for _ in range(4):                               # cg_gorel_f: the rest of the path in one relative move
        j = rng.randint(1, R - 1)
        s.append("gotov 1 %d " % j + pairs(forms[rng.choice(list(forms))], 1, j))
        s.append("gorelv %d " % (R - j) + pairs(forms[rng.choice(list(forms))], j + 1, R))
        s += observe()
    s += ["gotov 1 1 %s" % by_label(1), "gorelv 20 " + pairs(by_label, 2, R, with_dot=rng.randint(0, R - 1)) + " " + dot, "where",
          "gotov 1 1 %s" % by_name(1), "gorelv 19 " + pairs(by_name, 2, R, with_dot=rng.randint(0, R - 1)), "where",
          "gotov 1 20 " + pairs(by_label, 1, R) + " " + by_label(2), "where", "get_error 40", "close"]     # a 20th real step: depth exceeded
    return s


def gen_implicit_script(rng, stats):
    """the wrappers WITHOUT an interface body in cgns_f.F90 (implicit interface: the Fortran driver is the only tie).  Integer
    arrays carry values that change under a width mix-up: negative, non-zero second / third elements, above 2^31."""
    H = lambda b: hx(b)
    ni = rng.choice([(0, 0, 1), (0, 1, 0), (-1, 0, 0), (0, 0, -1), (0, -1, 0)])
    ni2 = rng.choice([(0, 1, 0), (0, 0, 1), (-1, 0, 0)])
    big = [rng.choice([-5, -1, 7, 4000000000, 2147483648, 3000000001, 12, -2147483649]) for _ in range(6)]
    s = ["open w", "base %s 3 3" % H(b"Base"), "zone %s 1 s 3" % H(b"Z1"), "zone %s 1 u 8" % H(b"Z2"), "close", "open m",
         # (modify mode: everything below both writes and reads)  coordinates of the structured zone: partial, general (memory space of another rank / size)
         "coord_partial_write 1 1 4 %s 1 1 1 3 3 2" % H(b"CoordinateX"), "coord_partial_write 1 1 4 %s 1 1 3 3 3 3" % H(b"CoordinateX"),
         "coord_general_write 1 1 %s 4 1 1 1 3 3 3 4 1 27 1 27" % H(b"CoordinateY"),
         "coord_general_write 1 1 %s 3 1 1 1 3 3 3 4 3 5 5 5 2 2 2 4 4 4" % H(b"CoordinateZ"),
         "coord_general_read 1 1 %s 1 1 1 3 3 3 4 1 40 3 29" % H(b"CoordinateY"),
         "coord_general_read 1 1 %s 1 2 1 3 3 2 3 2 4 5 1 2 3 5" % H(b"CoordinateZ  "),
         "coord_general_read 1 1 %s 1 1 1 3 3 3 4 1 27 1 27" % H(b"CoordinateX"), "coord_read 1 1 %s 3" % H(b"CoordinateX"),
         "sol_write 1 1 %s 2" % H(b"Sol"),
         "field_partial_write 1 1 1 4 %s 1 1 1 3 3 3" % H(b"Pressure"),
         "field_general_write 1 1 1 %s 4 1 1 1 3 3 3 4 1 30 2 28" % H(b"Density   "),
         "field_general_write 1 1 1 %s 3 1 1 1 3 3 3 3 2 9 4 1 2 9 4" % H(b"Temperature"),
         "field_general_read 1 1 1 %s 1 1 1 3 3 3 4 1 27 1 27" % H(b"Density"),
         "field_general_read 1 1 1 %s 2 2 2 3 3 3 3 1 8 1 8" % H(b"Pressure"), "nfields 1 1 1", "field_info 1 1 1 3 32",
         # element sections of the unstructured zone: TETRA_4 = 10, TRI_3 = 5, NGON_n = 22
         "section_write 1 2 %s 10 1 4 0" % H(b"Tets"), "elements_read 1 2 1 16 0",
         "parent_data_write 1 2 1 16 0 2 1 0 3 0 0 4 1 2 3 4 4 3 2 1", "elements_read 1 2 1 16 16",
         "elements_partial_write 1 2 1 5 6 8 5 6 7 8 8 7 6 5", "elements_partial_read 1 2 1 2 5 16 16",
         "elements_general_write 1 2 1 7 7 2 4 1 3 5 7", "elements_general_write 1 2 1 8 8 6 4 2 4 6 8",
         "elements_general_read 1 2 1 1 8 6 32", "elements_general_read 1 2 1 3 6 2 16",
         "parent_data_partial_write 1 2 1 5 8 16 1 0 2 0 3 1 4 2 1 2 3 4 0 0 0 0",
         "parent_elements_general_read 1 2 1 1 8 6 16", "parent_elements_position_general_read 1 2 1 1 8 2 16",
         "section_general_write 1 2 %s 5 6 9 12 0 0" % H(b"Gen"), "section_initialize 1 2 2", "elements_partial_write 1 2 2 9 10 6 1 2 3 2 3 4",
         "section_read 1 2 2 32", "elements_partial_read 1 2 2 9 12 12 0",
         "poly_section_write 1 2 %s 22 13 14 0 7 1 2 3 4 5 6 7 3 0 3 7" % H(b"Ngon"), "poly_elements_read 1 2 3 7 3 0",
         "poly_elements_partial_write 1 2 3 15 15 3 2 3 4 2 0 3", "poly_elements_partial_read 1 2 3 13 15 10 4 0",
         "poly_elements_general_write 1 2 3 16 16 6 3 5 6 7 2 0 3", "poly_elements_general_write 1 2 3 17 17 2 3 8 1 2 2 0 3",
         "poly_elements_general_read 1 2 3 13 17 6 16 6", "poly_elements_general_read 1 2 3 14 16 2 10 4", "section_read 1 2 3 32",
         # boundary conditions of the structured zone: NormalIndex other than (+1,0,0)
         "boco_write 1 1 %s 20 4" % H(b"BC1"), "boco_write 1 1 %s 21 2" % H(b"BC2"),
         "boco_normal_write 1 1 1 %d %d %d 1 4" % ni, "boco_normal_write 1 1 2 %d %d %d 0 3" % ni2,
         "boco_info 1 1 1 32", "boco_info 1 1 2 32", "boco_read 1 1 1 12 12", "boco_read 1 1 2 6 0",
         "grid_bbox_write 1 1 1 4", "grid_bbox_read 1 1 1 4", "grid_bbox_read 1 1 1 3",
         # node-context calls
         "goto 1 Zone_t 1", "user_data_write %s" % H(b"UD"), "gorel UserDefinedData_t 1", "gridlocation_write 2",
         "ptset_write 2 2 6 " + " ".join(map(str, big)), "ptset_read 6", "ptset_read 2",
         "array_general_write %s 4 1 10 1 10 4 1 12 2 11" % H(b"Arr"), "array_general_write %s 3 2 3 4 1 1 3 4 4 1 12 1 12" % H(b"Arr2 "),
         "narrays", "array_info 1 32", "array_info 2 32", "array_general_read 1 1 2 9 4 1 20 5 12", "array_general_read 2 2 1 2 3 3 3 2 3 4 1 1 3 2",
         "array_read_as 1 3 10", "array_read_as 1 4 10", "array_read_as 2 4 12",
         "gotov 1 3 %s 1 %s 1 %s 1" % (H(b"Zone_t"), H(b"UserDefinedData_t"), H(b"DataArray_t")), "where",
         "exponents_write 4", "exponents_read", "conversion_write 4", "conversion_read",
         "gotov 1 3 %s 1 %s 1 %s 2" % (H(b"Zone_t"), H(b"UserDefinedData_t"), H(b"DataArray_t")),
         "expfull_write 3", "expfull_read", "conversion_write 3", "conversion_read", "exponents_read",
         "close", "open m", "boco_info 1 1 1 32", "boco_read 1 1 1 12 12", "elements_read 1 2 1 32 32", "poly_elements_read 1 2 3 16 6 0",
         "goto 1 Zone_t 1", "gorel UserDefinedData_t 1", "ptset_read 6", "array_read_as 1 4 10", "close",
         # cgio data access
         "io_open w 0", "io_new 0 %s %s %s 20" % (H(b"node"), H(b"L_t"), H(b"I4")), "io_write_block 1 3 10", "io_read_block 1 1 20 %s" % H(b"I4"),
         "io_read_block 1 %d %d %s" % (rng.randint(1, 5), rng.randint(6, 20), H(b"I4 ")),
         "io_write_data 1 2 20 3 64 5 17 2", "io_read_data 1 1 20 1 %s 64 1 20 1" % H(b"I4"), "io_read_data 1 2 20 3 %s 64 10 16 1" % H(b"I4  "),
         "io_read_all 1 %s 30" % H(b"I4"), "io_close"]
    return s


def _modout_base(H):
    return ["open w", "base %s 3 3" % H(b"Base"), "zone %s 1 s 3" % H(b"Z1"), "family_write 1 %s" % H(b"Fam"), "family_write 1 %s" % H(b"Fam2"), "close", "open m"]


def _fam_path(rng, n):
    parts, cur = [], 0
    while cur < n:
        k = min(rng.randint(3, 32), n - cur)
        parts.append(bytes(rng.choice(C20.ALNUM) for _ in range(k)))
        cur += k + 1
    return b"/".join(parts)[:n]


def gen_famname_script(rng, stats):
    """family names whose family is a PATH longer than 32 characters (the C side allows 20 x 33): cg_family_name_read_f"""
    H = hx
    s = _modout_base(H)
    lens = [rng.choice([5, 31, 32]), 33, rng.choice([40, 65, 73, 100]), rng.choice([200, 400, 659])]
    for k, L in enumerate(lens):
        s.append("family_name_write 1 1 %s %s" % (H(("FN%d" % k).encode() + b" " * rng.choice([0, 3])), H(_fam_path(rng, L))))
    s.append("nfamily_names 1 1")
    for k, L in enumerate(lens):
        s.append("family_name_read 1 1 %d %d %d" % (k + 1, rng.choice([8, 32, 33]), rng.choice([L - 1, L, L + 1, L + 20, 700])))
    return s + ["close"]


def gen_nodefam_script(rng, stats):
    H = hx
    s = _modout_base(H) + ["goto 1 Family_t %d" % rng.choice([1, 2])]
    lens = [rng.choice([4, 32]), rng.choice([33, 64]), rng.choice([73, 150, 660])]
    for k, L in enumerate(lens):
        s.append("node_family_name_write %s %s" % (H(("NF%d" % k).encode()), H(_fam_path(rng, L))))
    s.append("node_nfamily_names")
    for k, L in enumerate(lens):
        s.append("node_family_name_read %d %d %d" % (k + 1, rng.choice([8, 32, 40]), rng.choice([L, L + 1, 700])))
    return s + ["close"]


def gen_modout_script(rng, stats):
    """output arguments of Fortran-implemented wrappers: cg_discrete_ptset_write_f, the ParticleZone_t family (names of up to 32
    characters read into variables of every length, blank before the call as a caller usually has them), cg_particle_model_read_f"""
    H = hx
    nm = lambda k: bytes(rng.choice(C20.ALNUM) for _ in range(k))
    pz, pc, cx, ps, pfn, pit = nm(rng.choice([8, 16, 32])), nm(rng.choice([12, 32])), b"CoordinateX", nm(rng.choice([10, 31])), nm(rng.choice([8, 32])), nm(rng.choice([9, 32]))
    s = _modout_base(H)
    s += ["discrete_ptset_write 1 1 %s 2 2 2 6 1 1 1 2 2 2" % H(b"Dsc"), "discrete_ptset_write 1 1 %s 2 2 1 3 3 3 3" % H(nm(12) + b"  "), "discrete_ptset_info 1 1 2",
          "ndiscrete 1 1" if False else "discrete_read 1 1 2 32",
          "particle_write 1 %s 5" % H(pz + b" "), "particle_write 1 %s 3" % H(nm(20)), "nparticle_zones 1",
          "pcoord_node_write 1 1 %s" % H(pc), "pcoord_write 1 1 4 %s" % H(cx), "psol_write 1 1 %s" % H(ps), "pfield_write 1 1 1 4 %s" % H(pfn),
          "piter_write 1 1 %s" % H(pit),
          "goto 1 ParticleZone_t 1", "pequationset_write 3", "gotov 1 2 %s 1 %s 1" % (H(b"ParticleZone_t"), H(b"ParticleEquationSet_t")),
          "pmodel_write %s 2" % H(b"ParticleCollisionModel_t"), "pmodel_read %s" % H(b"ParticleCollisionModel_t"), "pmodel_read %s" % H(b"ParticleForceModel_t  "),
          # output variables at least as long as the name (+1), filled: safe on any code
          "particle_read 1 1 %d" % rng.choice([33, 40, 64]), "pcoord_node_read 1 1 1 40", "pcoord_info 1 1 1 33", "psol_info 1 1 1 64", "pfield_info 1 1 1 1 40",
          "piter_read 1 1 33", "fill 32"]
    # blank variables of every length (the usual state of an output variable), then short filled ones
    probes = [("particle_read 1 1 %d", pz), ("pcoord_node_read 1 1 1 %d", pc), ("pcoord_info 1 1 1 %d", cx), ("psol_info 1 1 1 %d", ps),
              ("pfield_info 1 1 1 1 %d", pfn), ("piter_read 1 1 %d", pit)]
    rng.shuffle(probes)
    for fmt, name in probes[:3]:
        s.append(fmt % rng.choice([32, 40, len(name), len(name) + 1]))
    s.append("fill 126")
    for fmt, name in probes[3:]:
        s.append(fmt % rng.choice([1, 8, max(1, len(name) - 1)]))
    return s + ["close"]


def gen_configure_script(rng, stats):
    """cg_configure_f with C_LOC of an INTEGER(C_INT) (int-valued options) or of an INTEGER(C_SIZE_T)"""
    s = ["configure_size 204 %d" % rng.choice([1048576, 4096]), "configure 2 %d" % rng.choice([0, 1]), "configure 5 %d" % rng.choice([1, 2]),
         "configure 201 %d" % rng.choice([0, 6]), "configure 203 0", "configure 205 1", "configure_size 207 2048", "configure 1000 1"]
    return s


def gen_twofile_script(rng, stats):
    """two files open at once: the position is in one, cg_gorel_f / cg_goto_f / node-context calls get the OTHER handle"""
    s = ["open w", "base %s 3 3" % hx(b"BaseA"), "zone %s 1 s 3" % hx(b"ZA"), "sol_write 1 1 %s 2" % hx(b"SolA"),
         "open2 w", "swap", "base %s 3 3" % hx(b"BaseB"), "zone %s 1 s 3" % hx(b"ZB"), "grid_write 1 1 %s" % hx(b"GridB"), "swap",
         "gorelv 1 %s 1" % hx(b"Zone_t"), "where",                                   # no position yet
         "gotov 1 1 %s 1" % hx(b"Zone_t"), "where", "descriptor_write %s %s" % (hx(b"MkA1"), hx(b"m")),
         "swap",                                                                      # now fn = handle of B, position in A
         "gorelv 1 %s 1" % hx(b"FlowSolution_t"), "where", "descriptor_write %s %s" % (hx(b"MkX"), hx(b"m")),
         "gorelv 1 %s 0" % hx(rng.choice([b"..", b".", b"SolA"])), "where", "gorel FlowSolution_t 1", "where", "gorelv 0", "where",
         "gotov 1 1 %s 1" % hx(b"Zone_t"), "where", "descriptor_write %s %s" % (hx(b"MkB1"), hx(b"m")),     # position in B
         "swap", "gorelv 1 %s 1" % hx(b"GridCoordinates_t"), "where", "gorel GridCoordinates_t 2", "where", "descriptor_write %s %s" % (hx(b"MkY"), hx(b"m")),
         "gotov 1 2 %s 1 %s 1" % (hx(b"Zone_t"), hx(b"FlowSolution_t")), "where", "swap", "gridlocation_read", "gorelv 1 %s 0" % hx(b".."), "where"]
    if rng.random() < 0.5:
        s += ["close2", "gorelv 1 %s 0" % hx(b"."), "where", "swap", "gorelv 1 %s 0" % hx(b"."), "where", "close"]
    else:
        s += ["swap", "close", "swap", "gorelv 1 %s 0" % hx(b"."), "where", "gotov 1 1 %s 1" % hx(b"Zone_t"), "gorelv 1 %s 1" % hx(b"GridCoordinates_t"), "where", "close"]
    return s


def gen_multichar_script(rng, stats):
    """every routine with two or more CHARACTER arguments, with DIFFERENT lengths per argument in both orderings: declared
    lengths (dl2_*, triples of TRIPLES and their mirror) and the plain operations with unequal substring lengths"""
    g = C20.NameGen(rng)
    T = lambda: rng.randint(1, 8)
    nm = lambda mc=None: g.name(maxcore=mc)
    two = lambda: rng.choice([(rng.choice([1, 8, 16]), rng.choice([32, 33, 40, 64])), (rng.choice([32, 33, 40, 64]), rng.choice([1, 8, 16]))])
    s = ["open w", "base %s 3 3" % hx(b"Base"), "zone %s 1 s 3" % hx(b"Z1"), "zone %s 1 u 8" % hx(b"Z2"), "family_write 1 %s" % hx(b"Fam"),
         "boco_write 1 1 %s 20 4" % hx(b"BC1")]
    for _ in range(2):
        t = T()
        s += ["dl2_1to1_write %d 1 1 %s %s" % (t, nm(), hx(b"Z1")), "dl2_1to1_write %d 1 1 %s %s" % (MIRROR[t], nm(30), hx(b"Z1   "))]
    t = T()
    s += ["dl2_conn_write_short %d 1 1 %s %s" % (t, nm(), nm()), "dl2_conn_write_short %d 1 1 %s %s" % (MIRROR[t], nm(30), hx(b"Z2"))]
    s += ["dl2_subreg_bcname_write %d 1 1 2 %s %s" % (T(), nm(30), hx(b"BC1")), "dl2_subreg_bcname_write %d 1 1 2 %s %s" % (T(), nm(), nm())]
    t = T()
    s += ["dl2_geo_write %d 1 1 %s %s %s" % (t, nm(30), g.name(force="plain"), g.name(force="plain", maxcore=32)),
          "dl2_geo_write %d 1 1 %s %s %s" % (MIRROR[t], nm(), g.name(force="plain"), g.name(force="plain", maxcore=32))]
    s += ["goto 1 Zone_t 1"]
    for _ in range(2):
        t = T()
        s += ["dl2_descriptor_write %d %s %s" % (t, nm(), g.text()), "dl2_descriptor_write %d %s %s" % (MIRROR[t], nm(30), g.text())]
    t = T()
    s += ["dl2_multifam_write %d %s %s" % (t, nm(30), nm()), "dl2_multifam_write %d %s %s" % (MIRROR[t], nm(), hx(C20.rand_bytes(rng, 50, 0.0)))]
    s += ["dl2_link_write %d %s %s %s" % (T(), g.name(force="plain", maxcore=20), "-", hx(b"/Base/Z2   ")),
          "dl2_link_write %d %s %s %s" % (T(), g.name(force="plain", maxcore=20), hx(b"other.cgns "), hx(b"/Base/Z9"))]
    s += ["close", "open m"]
    for I in (1, 2, 3):
        t = T()
        s += ["dl2_1to1_read %d 1 1 %d" % (t, I), "dl2_1to1_read %d 1 1 %d" % (MIRROR[t], I), "1to1_read 1 1 %d %d %d" % ((I,) + two())]
    for I in (1, 2):
        t = T()
        s += ["dl2_conn_info %d 1 1 %d" % (t, I), "dl2_conn_info %d 1 1 %d" % (MIRROR[t], I), "conn_info 1 1 %d %d %d" % ((I,) + two())]
    for G in (1, 2):
        t = T()
        s += ["dl2_geo_read %d 1 1 %d" % (t, G), "dl2_geo_read %d 1 1 %d" % (MIRROR[t], G)]
    s += ["goto 1 Zone_t 1"]
    for D in (1, 2, 3):
        t = T()
        s += ["dl2_descriptor_read %d %d" % (t, D), "dl2_descriptor_read %d %d" % (MIRROR[t], D), "descriptor_read %d %d %d" % ((D,) + two())]
    for N in (1, 2):
        t = T()
        s += ["dl2_multifam_read %d %d" % (t, N), "dl2_multifam_read %d %d" % (MIRROR[t], N), "multifam_read %d %d %d" % ((N,) + two())]
    for k in (1, 2):
        t = T()
        s += ["goto 1 Zone_t 1", "gorel UserDefinedData_t %d" % k, "dl2_link_read %d" % t, "dl2_link_read %d" % MIRROR[t], "link_read %d %d" % two()]
    s += ["close"]
    # cgio level
    s += ["io_open w 0"]
    t = T()
    s += ["dl2_io_new %d 0 5 %s %s %s" % (t, g.name(force="plain", maxcore=20), nm(), hx(b"I4")),
          "dl2_io_new %d 0 7 %s %s %s" % (MIRROR[t], nm(), hx(b"Label_t"), hx(rng.choice([b"I4", b"I4 ", b"C1"]))),
          "io_create 0 %s" % hx(b"kid")]
    t = T()
    s += ["dl2_io_create_link %d 0 %s %s %s" % (t, g.name(force="plain", maxcore=20), "-", hx(b"/kid   ")),
          "dl2_io_create_link %d 0 %s %s %s" % (MIRROR[t], nm(), hx(b"elsewhere.cgns  "), hx(C20.rand_bytes(rng, rng.choice([5, 40, 300]), 0.0)))]
    for i in (1, 2, 3, 4, 5):
        t = T()
        s += ["dl2_io_get_link %d %d" % (t, i), "dl2_io_get_link %d %d" % (MIRROR[t], i), "io_get_link %d %d %d" % ((i,) + two())]
    t = T()
    s += ["dl2_io_file_version %d" % t, "dl2_io_file_version %d" % MIRROR[t], "io_file_version %d %d %d" % (rng.choice([8, 40]), rng.choice([1, 33]), rng.choice([32, 5])),
          "io_close"]
    for k, v in g.stats["kind"].items():
        stats["kind"][k] = stats["kind"].get(k, 0) + v
    return s


def c20_script(gen_name):
    """a scenario generator of checks/C20.py, unchanged (looked up at call time: C20.py imports this module)"""
    def f(rng, stats):
        return list(getattr(C20, gen_name)(rng, stats))
    return f


GENERATORS = [("mll", c20_script("gen_mll_script")), ("cgio", c20_script("gen_cgio_script")),
              ("modproc", gen_modproc_script), ("dlio", gen_dlio_script), ("goto", gen_goto_script), ("deep", gen_deep_script), ("implicit", gen_implicit_script), ("twofile", gen_twofile_script),
              ("multichar", gen_multichar_script), ("famname", gen_famname_script), ("nodefam", gen_nodefam_script), ("modout", gen_modout_script),
              ("configure", gen_configure_script)]


# ------------------------------------------------------------------------------------------------ three-way runs
def run_three(exes, script, work, tag, backend):
    """the same script through the Fortran program (F) and the C reference in wrapper (f) and direct (c) mode"""
    res = {}
    cscript = [to_c_line(l) for l in script]
    for mode in ("F", "f", "c"):
        d = os.path.join(work, "m" + mode)
        os.makedirs(d, exist_ok=True)
        n1, n2 = "%s_%s.cgns" % (tag, backend), "%s_%s_io.cgns" % (tag, backend)
        n3 = n1 + ".B"                                  # the second MLL file of open2
        for n in (n1, n2, n3):
            if os.path.exists(os.path.join(d, n)):
                os.unlink(os.path.join(d, n))
        if mode == "F":
            lines, outcome = vlib.run_impl(exes["F"], "\n".join(script) + "\n", args=[n1, n2, backend], cwd=d, timeout=300)
        else:
            lines, outcome = vlib.run_impl(exes["ref"], "\n".join(cscript) + "\n", args=[mode, n1, n2, backend], cwd=d, timeout=300)
        dumps = []
        for n in (n1, n2, n3):
            if os.path.exists(os.path.join(d, n)):
                dlines, do = vlib.run_impl(exes["ref"], "", args=["dump", n], cwd=d)
                dumps.append(list(dlines) + (["<dump outcome %s>" % do] if do != "ok" else []))
            else:
                dumps.append(["<no file>"])
        res[mode] = (lines, outcome, dumps)
    return res, cscript


def _name_field(line, tag):
    m = re.search(r" %s=([0-9a-f]+|-)/oob:(\S+)" % tag, line or "")
    return (m.group(1), m.group(2)) if m else None


IMPLICIT_OPS = set("coord_partial_write coord_general_write coord_general_read field_partial_write field_general_write field_general_read "
                   "elements_read poly_elements_read poly_section_write section_general_write section_initialize parent_data_write "
                   "elements_partial_write elements_general_write poly_elements_partial_write poly_elements_general_write parent_data_partial_write "
                   "elements_partial_read poly_elements_partial_read elements_general_read poly_elements_general_read parent_elements_general_read "
                   "parent_elements_position_general_read boco_read boco_normal_write grid_bbox_write grid_bbox_read ptset_write ptset_read "
                   "array_read_as array_general_read array_general_write exponents_write expfull_write conversion_write exponents_read expfull_read "
                   "conversion_read io_write_block io_read_block io_write_data io_read_data".split())
GOTO_KEY = "cg_ftoc.c:cg_goto_fc1+cg_gorel_fc1:path-terminator-test-differs-from-cg_goto"
MOVE_OPS = ("gotov", "gorelv", "dl_goto")
RESET_OPS = ("goto", "gotov", "dl_goto", "gopath", "open", "close", "open2", "close2")     # set the position anew / drop it


def op_labels(op):
    """the label / name strings of a go-to operation of the script, as the Fortran values (trailing blanks removed)"""
    t = op.split()
    unhex = lambda h: b"" if h == "-" else bytes.fromhex(h)
    labs = []
    try:
        if t[0] == "dl_goto":
            labs = [fassign(unhex(t[3]), int(t[2]))]
        elif t[0] == "gotov":
            labs = [unhex(x) for x in t[3::2][:int(t[2])]]
        elif t[0] == "gorelv":
            labs = [unhex(x) for x in t[2::2][:int(t[1])]]
    except (IndexError, ValueError):
        pass
    return [l.rstrip(b" ") for l in labs]


def terminator_like(l):
    """a label on which `c_label[0][0]==' ' || !strncmp(c_label[0],"end",3) || !strncmp(c_label[0],"END",3)` (cg_goto_fc1,
    cg_gorel_fc1) and `label==NULL || label[0]==0 || !strcmp("end",label) || !strcmp("END",label)` (cg_goto, cg_gorel) differ"""
    fc1 = l[:1] == b" " or l[:3] in (b"end", b"END")
    c = l == b"" or l in (b"end", b"END")
    return fc1 != c


K_FAMNAME = "cgns_f.F90:cg_family_name_read_f:family-path-buffer-33-bytes"
K_NODEFAM = "cgns_f.F90:cg_node_family_name_read_f:family-path-buffer-33-bytes"
K_PTSET_D = "cgns_f.F90:cg_discrete_ptset_write_f:output-D-never-assigned"
K_COORDID = "cgns_f.F90:cg_coord_id_f:coord_id-is-not-a-dummy-argument"
K_CONFIG = "cg_ftoc.c:cg_configure_c_ptr:reads-size_t-through-pointer-to-int"
K_PMODEL = "cgns_f.F90:cg_particle_model_read_f:ModelLabel-never-passed-to-C"
K_PBUF = "cgns_f.F90:particle-read-procedures:C-buffer-sized-from-callers-variable"
PBUF_OPS = ("particle_read", "pcoord_node_read", "pcoord_info", "psol_info", "pfield_info", "piter_read")
# the known-divergence predicates below are DISABLED per key once the repair is in /repo (set to False by the lead's word)
KNOWN_ACTIVE = {K_FAMNAME: False, K_NODEFAM: False, K_PTSET_D: False, K_CONFIG: False, K_PMODEL: False, K_PBUF: False}    # all repaired (9418046 ... 763a68d)


def known_crash(next_op, outcome):
    """the Fortran program died (sanitizer report / signal) on next_op: canonical key when this is a defect handed to the lead"""
    t = (next_op or "").split()
    if not t:
        return None
    bad = outcome.startswith(("asan:", "ubsan:", "signal:"))
    if t[0] == "family_name_read" and bad and KNOWN_ACTIVE[K_FAMNAME]:
        return K_FAMNAME
    if t[0] == "node_family_name_read" and bad and KNOWN_ACTIVE[K_NODEFAM]:
        return K_NODEFAM
    if t[0] == "configure" and outcome.startswith("asan:heap-buffer-overflow") and KNOWN_ACTIVE[K_CONFIG]:
        return K_CONFIG
    if t[0] in PBUF_OPS and bad and KNOWN_ACTIVE[K_PBUF]:
        return K_PBUF
    return None


def known_divergence(op, F, w, d, susp=False):
    """canonical keys of divergences listed as `known:` in KNOWN_FINDINGS.txt.  F: Fortran program, w: C harness wrapper
    mode, d: direct C call; susp: a go-to since the position was last set anew had a label on which the terminator test of
    the OLD cg_goto_fc1 / cg_gorel_fc1 and that of cg_goto / cg_gorel differ (terminator_like).
    None: both defects found by this layer are repaired in /repo -- C_F_string (40e726e, witness corpus/C20f/
    cf_string_last_char.script) and the path-terminator test of cg_goto_fc1 / cg_gorel_fc1 (bbec569, key GOTO_KEY, witness
    corpus/C20f/goto_fc1_terminator.script): a regression of either is an ordinary VIOLATION.
    Round 5 (notes/C20f.md, notes/C20-fixes/02..06), each switched off by KNOWN_ACTIVE once repaired."""
    t = (op or "").split()
    if not t or F is None or w is None or d is None or w != d or F == d:
        return None
    if t[0] == "discrete_ptset_write" and KNOWN_ACTIVE[K_PTSET_D] and " D=-1" in F and re.search(r" D=[1-9]", d) and F.replace(" D=-1", "") == re.sub(r" D=\d+", "", d):
        return K_PTSET_D
    if t[0] == "pmodel_read" and KNOWN_ACTIVE[K_PMODEL] and " ier=0" in d and " ier=0" not in F:
        return K_PMODEL
    if t[0] in PBUF_OPS and KNOWN_ACTIVE[K_PBUF] and " ier=0" in d:
        return K_PBUF
    return None


def norm(l):
    """index outputs of the set-up operations base / zone / zone2 are unspecified when the status is not zero (the C
    harness prints whatever cg_base_write left in *B, the module procedure copies an unset local)"""
    if l and re.match(r"(base|zone|zone2) ier=[^0]", l):
        return re.sub(r" [BZ]=-?\d+$", "", l)
    # cg_coord_partial_write / cg_field_partial_write leave *C / *F alone when they extend an existing array (the wrapper then
    # copies an unset local): the index output of the partial writes is not compared
    if l and re.match(r"(coord|field)_partial_write ier=0", l):
        return re.sub(r" [CF]=-?\d+$", "", l)
    return l


def three_fails(exes, script, work, tag, backend, known_out=None):
    """the property-level oracle.  -> (fails, detail): True/False, or None when the C reference itself broke."""
    r, cscript = run_three(exes, script, work, tag, backend)
    Fl, Fo, Fd = r["F"]
    fl, fo_, fd = r["f"]
    cl, co, cd = r["c"]
    if co != "ok":
        return None, {"reference_run_outcome": co, "last": cl[-2:]}
    if fo_ != "ok":
        return True, {"side": "C harness wrapper mode", "wrapper_run_outcome": fo_, "after": fl[-2:]}
    crashed = None
    if Fo != "ok":
        nxt = script[len(Fl)] if len(Fl) < len(script) else None
        key = known_crash(nxt, Fo)
        if not key:
            return True, {"side": "Fortran program", "fortran_run_outcome": Fo, "after": Fl[-2:], "next_op": nxt}
        if known_out is not None and key not in known_out:
            known_out[key] = {"backend": backend, "script": script[:len(Fl) + 1], "op": nxt, "fortran": "<%s>" % Fo, "wrapper_mode": fl[len(Fl)] if len(Fl) < len(fl) else None,
                              "reference": cl[len(Fl)] if len(Fl) < len(cl) else None, "rank": 1}
        crashed = len(Fl)
    tainted = seen_known = susp = False # after a KNOWN divergence of a go-to the position differs: what follows, up to the next
    if crashed is not None:
        seen_known = True
    for i in range(max(len(Fl), len(fl), len(cl)) if crashed is None else crashed):   # (what follows a known go-to divergence up to the
        # next operation that sets the position anew is a consequence, not a new failure; nothing is compared after a known crash)
        F = norm(Fl[i]) if i < len(Fl) else None
        w = norm(fl[i]) if i < len(fl) else None
        d = norm(cl[i]) if i < len(cl) else None
        op = script[i] if i < len(script) else None
        op0 = op.split()[0] if op else ""
        if op0 in RESET_OPS:
            tainted = susp = False
        if op0 in MOVE_OPS and any(terminator_like(l) for l in op_labels(op)):
            susp = True
        if F == w == d or tainted:
            continue
        key = known_divergence(op, F, w, d, susp)
        if key:
            if known_out is not None:
                # the most telling witness wins: the position differs although every status is 0 (observed by cg_where)
                rank = 2 if op0 == "where" else 1 if " ier=0" in (d or "") else 0
                if key not in known_out or known_out[key].get("rank", 0) < rank:
                    known_out[key] = {"backend": backend, "script": script[:i + 1], "op": op, "fortran": F, "wrapper_mode": w, "reference": d,
                                      "rank": rank}
            tainted = seen_known = True
            if key == K_PBUF:
                return False, None          # the C function wrote past a too small stack buffer: nothing after it is meaningful
            continue
        return True, {"line": i, "op": op, "c_op": cscript[i] if i < len(cscript) else None, "fortran": F, "wrapper_mode": w, "direct_mode": d}
    for k in range(3 if not seen_known else 0):
        for a, b, what in ((Fd[k], cd[k], "fortran_vs_direct"), (fd[k], cd[k], "wrapper_vs_direct")):
            dv = vlib.first_divergence(a, b)
            if dv:
                return True, {"file": k, "which": what, "dump_line": dv[0], "left": dv[1], "direct_file": dv[2]}
    return False, None


def fail_class(detail):
    if not detail:
        return None
    if "fortran_run_outcome" in detail:
        return "Foutcome:" + detail["fortran_run_outcome"].split("@")[0]
    if "wrapper_run_outcome" in detail:
        return "outcome:" + detail["wrapper_run_outcome"].split("@")[0]
    if detail.get("op"):
        return "line:" + detail["op"].split()[0]
    if "file" in detail:
        return "dump"
    return "other"


# ------------------------------------------------------------------------------------------------ the check
MY_COQ = r"(FtocAbi|FtocAbiProofs|FtocGoto|FtocGotoProofs|FtocMod|FtocModProofs|Properties_C20f|Gen_C20f)\.v"
LINK_KEYS = {"cg_field_id_f_": "cgns_f.F90:cg_field_id_f:link-name-has-no-definition",
             "cg_1to1_id_f_": "cgns_f.F90:cg_1to1_id_f:link-name-has-no-definition",
             "cg_state_size_f_": "cgns_f.F90:cg_state_size_f:link-name-has-no-definition"}


def pregen():
    """Gen_C20f.v needs the preprocessed module, i.e. the configuration header of the Fortran-enabled build"""
    vlib.build_impl()
    build_fortran_impl()
    c20f_iface.write_gen(repo=vlib.REPO, impl=vlib.IMPL, implf=IMPLF)


def presetup():
    build_driver()
    vlib.build_harness("c20f_ref", ["c20f_ref.c"])


def coq_bad_rows(work):
    p = os.path.join(work, "c20f_bad.v")
    open(p, "w").write("From Coq Require Import List String.\nFrom CgnsV Require Import Ftoc FtocAbi Gen_C20f.\n"
                       "Eval vm_compute in (abi_bad_rows abi_table).\n")
    with vlib.Lock("coq"):
        rc, out = vlib.sh(["timeout", "600", "coqc", "-Q", vlib.COQ, "CgnsV", "-w", vlib.COQ_WARN, p], cwd=work)
    if rc != 0:
        return None, out[-800:]
    return sorted(set(re.findall(r'"([^"]+)"%string', out))), None


def coq_mp_bad_rows(work):
    p = os.path.join(work, "c20f_mpbad.v")
    open(p, "w").write("From Coq Require Import List String.\nFrom CgnsV Require Import Ftoc FtocMod Gen_C20f.\nEval vm_compute in (mp_bad_rows mp_rows).\n")
    with vlib.Lock("coq"):
        rc, out = vlib.sh(["timeout", "600", "coqc", "-Q", vlib.COQ, "CgnsV", "-w", vlib.COQ_WARN, p], cwd=work)
    if rc != 0:
        return None, out[-800:]
    return sorted(set(re.findall(r'"([^"]+)"%string', out))), None


def corpus_scripts():
    out = []
    for sub in ("C20", "C20f"):
        d = os.path.join(vlib.ROOT, "corpus", sub)
        if os.path.isdir(d):
            for fn_ in sorted(os.listdir(d)):
                if fn_.endswith(".script"):
                    ls = [l.strip() for l in open(os.path.join(d, fn_)) if l.strip() and not l.startswith("#")]
                    out.append((sub + "/" + fn_, ls))
    return out


def shrink(exes, script, work, backend, detail):
    cls = fail_class(detail)

    def f(sub):
        fl_, d_ = three_fails(exes, sub, work, "shrink", backend, known_out={})
        return fl_ is True and fail_class(d_) == cls
    small = vlib.ddmin(script, f, max_tests=100)
    _, d2 = three_fails(exes, small, work, "shrink", backend, known_out={})
    return small, d2 or detail


def run_extra(ck, standalone=False):
    """the C20f layer; called by checks/C20.py after its own run (or by run() below)."""
    t0 = time.time()
    big = ck.tier == "thorough"
    ex = {"fortran_compiler": GFORTRAN, "build_dir": IMPLF}
    ck.extra["c20f"] = ex
    hard = []                        # violations that are not listed-or-listable finding keys

    def viol(r, **kw):
        hard.append(1)
        ck.violation(r, **kw)
    vlib.build_impl()
    tb = time.time()
    lib, out = build_fortran_impl()
    ex["fortran_build_wall_s"] = round(time.time() - tb, 1)
    ex["sanitizers"] = "C part of libcgns.a, harnesses and the Fortran driver: -fsanitize=address,undefined; cgns_f.F90: -O1 -g (no sanitizer)"
    if lib is None:
        # the working tree no longer builds with the Fortran interface on (e.g. cgns_f.F90 does not compile)
        errs = [l for l in out.split("\n") if "Error" in l or "error:" in l][:6]
        viol({"level": "fortran-build", "oracle": "the working tree builds with -DCGNS_ENABLE_FORTRAN=ON (gfortran-12)",
                      "errors": errs, "log_tail": out[-1500:]})
        return
    # ---- tie T + kernel
    info, ifaces, modprocs, wr = c20f_iface.write_gen(repo=vlib.REPO, impl=vlib.IMPL, implf=IMPLF)
    ex["translator"] = {k: info[k] for k in ("module_level_interfaces", "nested_interfaces", "paired_with_wrapper", "paired_with_c_api",
                                            "no_c_definition_found", "module_procedures", "rows", "parse_problems", "gen_sha1")}
    ex["translator"]["wrappers_without_interface"] = len(info["wrappers_without_interface"])
    ex["translator"]["goto_terminator_tests"] = info.get("goto_terminator_tests")
    ex["translator"]["goto_blocks"] = info.get("goto_blocks")
    # wrappers the module does not declare: documented by a well-formed commented-out interface body (static tie ADoc) or not;
    # for all of them the Fortran driver is the dynamic tie -- those without an operation in the driver are listed
    drv_text = "".join(open(os.path.join(vlib.ROOT, "harness", f_)).read() for f_ in DRV_SRC).lower()
    ex["wrappers_without_interface_body"] = {
        "documented_in_comments": info.get("implicit_documented"), "comment_bodies_not_well_formed": info.get("comment_bodies_not_well_formed"),
        "undocumented": info.get("implicit_undocumented"),
        "without_driver_operation": [n for n in info["wrappers_without_interface"] if ("call " + n.lower() + "(") not in drv_text]}
    res = vlib.coq_check_properties("C20f")
    n = len(res["theorems"])
    ck.cov["obligations"] += n
    ck.cov["discharged"] += n if res["ok"] else max(0, n - max(1, len(res["failed"])))
    broken = res["failed"]
    ex["theorems"] = res["theorems"]
    ex["print_assumptions"] = res["assumptions"]
    ex["coq_wall_s"] = round(res.get("wall_s", 0), 1)
    if standalone:
        ck.cov["checker_cmd"] = CHECKER
        ck.extra["print_assumptions"] = res["assumptions"]
        ck.extra["theorems"] = res["theorems"]
    forb = [h for h in vlib.coq_forbidden_scan() if re.match(MY_COQ, h)]
    ex["forbidden_tokens"] = forb
    if forb:
        viol({"broken_obligation": "forbidden tokens in the C20f Coq files", "hits": forb}, nofail=True)
    bad, err = coq_bad_rows(ck.work)
    ex["rows_failing_abi_ok"] = bad if bad is not None else "could not be evaluated: %s" % err
    known_static = {"cg_bcdataset_info_f"}
    mbad, merr = coq_mp_bad_rows(ck.work)
    ex["rows_failing_mp_ok"] = mbad if mbad is not None else "could not be evaluated: %s" % merr
    MP_KNOWN = set()             # FtocMod.mp_known is empty since the repairs 9418046, 26cde09, f901b55, 763a68d
    new_bad = [b for b in (bad or []) if b not in known_static] + [b for b in (mbad or []) if b not in MP_KNOWN]
    ex["static_findings"] = [{"row": b, "listed_in": "FtocAbi.abi_known"} for b in (bad or []) if b in known_static]
    ex["goto_terminator_tests_not_of_the_repaired_shape"] = [k for k, v in (info.get("goto_terminator_tests") or {}).items()
                                                             if (v["cmp"], v["blank_test"], v["empty_test"]) != ("CmpExact", False, True)]

    # ---- harnesses
    ref = vlib.build_harness("c20f_ref", ["c20f_ref.c"])
    drv, derr = build_driver()
    if drv is None:
        viol({"level": "fortran-compile", "oracle": "a Fortran program using the documented calls of the API compiles and links against "
                      "cgns.mod / libcgns.a of the working tree", "compiler_output": derr[-2500:],
                      "rows_failing_abi_ok": new_bad, "broken_obligations": broken})
        return
    exes = {"F": drv, "ref": ref}
    found_fail = False

    # ---- every interface body / every undeclared wrapper links
    implicit = sorted(info["wrappers_without_interface"])
    la = run_linkall(ifaces, implicit, ck.work)
    ex["linkall"] = {k: la[k] for k in ("checked", "skipped", "undefined")}
    ck.cov["evaluations"] += la["checked"]
    for sym in la["undefined"]:
        key = LINK_KEYS.get(sym, "cgns_f.F90:%s:link-name-has-no-definition" % sym.rstrip("_"))
        ck.case("link:" + sym)
        if ck.finding(key, {"level": "link", "symbol": sym, "oracle": "a Fortran program that calls the routine through the module links "
                            "against libcgns.a (the C function is reachable at all)",
                            "witness": "program p; use cgns; ...; call %s(...); end  ->  ld: undefined reference to `%s'" % (sym.rstrip("_"), sym)}):
            pass
    if la["compile_errors"]:
        viol({"level": "linkall-compile", "oracle": "one call per interface body, generated from the parsed interface, compiles",
                      "compiler_output": la["compile_errors"][-2000:]}, nofail=True)

    # ---- a module procedure with fewer / more dummies than the C function has parameters (+ ier): the documented call must compile
    ex["modproc"] = {"rows": info.get("modproc_rows"), "notes": info.get("modproc_notes")}
    for am in (info.get("modproc_notes") or {}).get("arity_mismatch", []):
        okc, outc = documented_call_compiles(am["proc"], am["c_params"], ck.work)
        ck.cov["evaluations"] += 1
        if okc is False:
            key = K_COORDID if am["proc"] == "cg_coord_id_f" else "cgns_f.F90:%s:documented-call-does-not-compile" % am["proc"]
            ck.finding(key, {"level": "modproc-arity", "procedure": am["proc"], "c_function": am["cfunc"], "dummies": am["dummies"], "c_parameters": len(am["c_params"]),
                             "oracle": "the call with one actual argument per parameter of the C function, then ier, compiles against the module",
                             "compiler_output": outc})

    # ---- three-way scenarios
    stats = {"kind": {}, "len": {}}
    dist = {"scenarios": 0, "scenario_lines": 0, "by_generator": {}, "declared_lengths": DL}
    known_seen = {}

    def account(kind, backend, script):
        dist["scenarios"] += 1
        dist["scenario_lines"] += len(script)
        dist["by_generator"][kind] = dist["by_generator"].get(kind, 0) + len(script)
        ck.cov["traces_validated_against_impl"] += 1
        for l in script:
            t = l.split()
            nt = t[0].startswith("dl") or t[0] in IMPLICIT_OPS or t[0] in ("gotov", "gorelv", "where", "base_read", "zone_read", "coord_info", "family_read", "geo_read",
                                                    "discrete_read", "array_info", "1to1_read_global", "io_children_names", "gopath")
            for a in t[1:]:
                if re.fullmatch(r"([0-9a-f]{2})+", a) and len(a) > 6:
                    b = bytes.fromhex(a)
                    if len(b.rstrip(b" ")) > 32 or not b.strip(b" "):
                        nt = True
            ck.case(hashlib.sha1(("F" + backend + l).encode()).hexdigest() if nt else None,
                    sample={"level": "fortran", "backend": backend, "line": l} if (nt and len(ck.cov["samples"]) < 5) else None)

    def one(kind, script, backend, tag):
        nonlocal found_fail
        fails, detail = three_fails(exes, script, ck.work, tag, backend, known_out=known_seen)
        account(kind, backend, script)
        if fails is None:
            ex.setdefault("reference_run_problems", []).append({"backend": backend, "kind": kind, "detail": detail})
        elif fails and not found_fail:
            small, d2 = shrink(exes, script, ck.work, backend, detail)
            viol({"level": "fortran", "backend": backend, "kind": kind, "script": small, "detail": d2, "oracle": ORACLE,
                          "replay_hint": ".build/h/c20f_drv <file> <file2> %s  |  .build/h/c20f_ref f|c <file> <file2> %s" % (backend, backend)})
            found_fail = True

    for fn_, script in corpus_scripts():
        for backend in ("adf", "hdf5"):
            one("corpus:" + fn_, script, backend, "corpus")
    ex["corpus_scripts"] = len(corpus_scripts())
    nsc = 4 if big else 1
    for j in range(nsc):
        for kind, gen in GENERATORS:
            for backend in ("adf", "hdf5"):
                if found_fail:
                    break
                one(kind, gen(ck.rng, stats), backend, "s%d_%s" % (j, kind))
    for key, wit in sorted(known_seen.items()):
        def f(sub, backend=wit["backend"], key=key, wit=wit):
            ko = {}
            three_fails(exes, sub, ck.work, "shrinkk", backend, known_out=ko)
            return key in ko and ko[key]["reference"] == wit["reference"] and ko[key]["fortran"] == wit["fortran"]
        small = vlib.ddmin(wit["script"], f, max_tests=80)
        ko = {}
        three_fails(exes, small, ck.work, "shrinkk", wit["backend"], known_out=ko)
        w2 = ko.get(key, wit)
        ck.finding(key, {"level": "fortran", "backend": wit["backend"], "script": small,
                         "detail": {k: w2.get(k) for k in ("op", "fortran", "wrapper_mode", "reference")}, "oracle": ORACLE})

    # ---- verdict logic: an obligation broke without a failing input so far -> widen, then report
    if (broken or new_bad) and not hard:
        found = False
        for j in range(6 if not big else 12):
            for kind, gen in GENERATORS:
                for backend in ("adf", "hdf5"):
                    script = gen(ck.rng, stats)
                    fails, detail = three_fails(exes, script, ck.work, "w%d_%s" % (j, kind), backend, known_out={})
                    ck.cov["evaluations"] += len(script)
                    if fails:
                        small, d2 = shrink(exes, script, ck.work, backend, detail)
                        viol({"level": "fortran", "backend": backend, "kind": kind, "script": small, "detail": d2, "found_by": "widened search",
                                      "broken_obligations": broken, "rows_failing_abi_ok": new_bad, "oracle": ORACLE})
                        found = True
                        break
                if found:
                    break
            if found:
                break
        if not found:
            viol({"broken_obligations": broken, "rows_failing_abi_ok": new_bad,
                          "note": "an interface body of cgns_f.F90 no longer matches the C definition it links to (or the table obligation no "
                                  "longer checks), but every scenario explored still satisfies Fortran == wrapper == direct call and "
                                  "everything links"}, nofail=True)
    dist["name_kinds"] = stats["kind"]
    ex["input_distribution"] = dist
    ex["wall_s"] = round(time.time() - t0, 1)
    ck.cov["trusted_base"] += [
        "gfortran-12 (Debian 12.2.0) as THE Fortran compiler: its argument passing is what is checked, other compilers are not covered",
        "translators/c20f_iface.py (free-form statement splitter + declaration parser over the preprocessed cgns_f.F90) -- cross-checked by "
        "the generated link-all program (one call per parsed interface body must compile) and by the driver",
        "harness/c20f_*.f90, harness/c20f_ref.c (= c20_wrap.c + reference of the module procedures), harness/c20f_help.c",
        "the specification-side definitions of coq/FtocAbi.v: arg_compat, abi_known",
    ]
    ck.assumptions += ["gfortran: default INTEGER = C int = cgint_f, cgenum_t = C int, cgsize_t = 64 bit; one hidden size_t per CHARACTER "
                       "argument appended in argument order (exercised by the driver, assumed by FtocAbi.abi_ok)"]


def run(ck):
    run_extra(ck, standalone=True)
    ck.cov["rule"] = ("three-way scenarios (Fortran program vs C harness wrapper mode vs direct C call, ADF and HDF5): the seeded MLL and cgio "
                      "scenarios of C20; module procedures (name reads with output lengths strlen-1, strlen, strlen+1, cg_gopath_f); declared-length "
                      "batteries (CHARACTER(1,8,31,32,33,40,80) between guard fields; every routine with >= 2 CHARACTER arguments with different "
                      "declared lengths per argument in all orderings; CHARACTER*(n) arrays); go-to family around the path terminators; cg_goto_f / "
                      "cg_gorel_f with every number of pairs 1..20 on a tree whose index and name differ at every depth (cg_where + marker); two "
                      "files open, other file's handle; every wrapper without an interface body (implicit interface) with integer arrays that are "
                      "not invariant under a width mix-up (negative, non-zero 2nd/3rd elements, above 2^31). link-all: one call per interface body "
                      "and per undeclared wrapper. non-trivial = a dl_/module-procedure/array/go-to line or a line with an over-long or blank-only "
                      "string; distinct by SHA1 of the line")


def replay(ck, path):
    r = json.load(open(path))
    vlib.build_impl()
    lib, out = build_fortran_impl()
    if r.get("level") == "fortran-build":
        print("replay: property C20 (Fortran build) on this tree: %s" % ("FAILS" if lib is None else "holds"))
        return 1 if lib is None else 0
    if lib is None:
        print("replay: the Fortran-enabled build fails:", out[-800:]); return 1
    if r.get("level") == "link":
        info, ifaces, modprocs, wr = c20f_iface.write_gen(repo=vlib.REPO, impl=vlib.IMPL, implf=IMPLF)
        la = run_linkall(ifaces, sorted(info["wrappers_without_interface"]), ck.work)
        fails = r["symbol"] in la["undefined"]
        print("replay: property C20 on this input: %s %s" % ("FAILS" if fails else "holds", json.dumps({"undefined": la["undefined"]})))
        return 1 if fails else 0
    if r.get("level") == "fortran" and "script" in r:
        ref = vlib.build_harness("c20f_ref", ["c20f_ref.c"])
        drv, derr = build_driver()
        if drv is None:
            print("replay: the Fortran driver does not compile against the module:", derr[-800:]); return 1
        ko = {}
        fails, d = three_fails({"F": drv, "ref": ref}, r["script"], ck.work, "replay", r["backend"], known_out=ko)
        if ko and not fails:
            fails, d = True, {k: {x: v.get(x) for x in ("op", "fortran", "wrapper_mode", "reference")} for k, v in ko.items()}
        print("replay: property C20 on this input: %s %s" % ("FAILS" if fails else "holds", json.dumps(d)))
        return 1 if fails else 0
    print("replay names a broken obligation / build problem, no input to run:", json.dumps(r)[:800])
    return 1
