"""C16 -- open files are independent and handles stay valid.

Proof side : Properties_C16.v -- in the ideal node database any interleaving of events (operations, opens, closes)
             over any number of files gives each file the answers and final content of its own events run alone; a
             closed or never-opened handle is refused and nothing changes.
Tie/oracle : interleaved cgio histories over 2..8 simultaneously open files, mixed back ends, opens / closes / reopens
             anywhere, on the library rebuilt from /repo (ASan/UBSan).  The property's own oracle does not use the
             model: for every file the answers it received inside the interleaving are compared with the answers the
             SAME file history gets when run alone in a fresh process.  The extracted TreeDB session model is compared
             as well (correspondence).  MLL-level handles (cg_open / cg_close numbering) are driven by a second harness.
"""
import hashlib, json, os
import vlib
from checks import nodedb

CHECKER = "make -C coq Properties_C16.vo (coqc 8.16.1 kernel); coqc Properties_C16.v (Print Assumptions)"


def gen_interleaved(rng, nfiles, nops):
    """a history over nfiles files with mixed back ends; returns (lines, backend per file)"""
    files = tuple(range(1, nfiles + 1))
    be = {f: rng.choice(["adf", "hdf5"]) for f in files}
    h = nodedb.gen_history(rng, nops, files=files)
    out = []
    for l in h:
        t = l.split(" ")
        if t[0] == "file":
            t[3] = be[int(t[1])]
        out.append(" ".join(t))
    # sprinkle explicit close / use-after-close / reopen events
    res = []
    closed = set()
    for l in out:
        res.append(l)
        t = l.split(" ")
        if t[0] in ("file", "reopen", "closef"):
            continue
        f = int(t[1])
        if rng.random() < 0.02 and f not in closed:
            res.append("closef %d" % f); closed.add(f)
            res.append("nchild %d 0" % f)                 # closed handle must be refused
            res.append("create %d 0 3990 %s" % (f, nodedb.hx(b"afterclose")))
        elif f in closed and rng.random() < 0.5:
            res.append("reopen %d m" % f); closed.discard(f)
    if nodedb.KEY_DESC_MOVE in nodedb.known_avoid():
        res = drop_descendant_moves(res)
    return res, be


def drop_descendant_moves(lines):
    """The generator of nodedb keeps moves of a node under its own descendant out of its histories while that defect of both
    back ends is a listed known finding (it ends in unbounded recursion).  The close events sprinkled in above make the real
    tree differ from the generator's mirror (calls on a closed file are refused), so such a move can come back: the real
    structure is followed here (what each call does to an OPEN file: parents, names, duplicates) and those moves are dropped"""
    par, name, closed, out = {}, {}, set(), []
    def sub(f, u):
        got, todo = set(), [u]
        while todo:
            x = todo.pop()
            got.add(x)
            todo += [c for (ff, c), p in par.items() if ff == f and p == x and c not in got]
        return got
    def kids_names(f, p):
        return {name[(ff, c)] for (ff, c), q in par.items() if ff == f and q == p}
    for l in lines:
        t = l.split(" ")
        op = t[0]
        f = int(t[1]) if len(t) > 1 and t[1].lstrip("-").isdigit() else None
        if op == "file":
            for k in [k for k in par if k[0] == f]:
                del par[k]; name.pop(k, None)
            par[(f, 0)] = None; name[(f, 0)] = ""
            closed.discard(f)
        elif op == "closef":
            closed.add(f)
        elif op == "reopen":
            closed.discard(f)
        elif f in closed or (f, 0) not in par:
            pass
        elif op in ("create", "link"):
            p, u, nm = int(t[2]), int(t[3]), t[4]
            if (f, p) in par and (f, u) not in par and nm not in kids_names(f, p) and nm != "-" and len(nm) <= 64 and "2f" not in \
                    [nm[i:i + 2] for i in range(0, len(nm), 2)]:
                par[(f, u)] = p; name[(f, u)] = nm
        elif op == "delete":
            p, u = int(t[2]), int(t[3])
            if par.get((f, u)) == p and u != 0:
                for x in sub(f, u):
                    par.pop((f, x), None); name.pop((f, x), None)
        elif op == "rename":
            p, u, nm = int(t[2]), int(t[3]), t[4]
            if par.get((f, u)) == p and u != 0 and nm not in kids_names(f, p) and nm != "-" and len(nm) <= 64:
                name[(f, u)] = nm
        elif op == "move":
            p, u, np_ = int(t[2]), int(t[3]), int(t[4])
            if par.get((f, u)) == p and u != 0 and (f, np_) in par:
                if np_ in sub(f, u):
                    continue                      # the known defect's trigger: not part of this history
                if np_ != p and name[(f, u)] not in kids_names(f, np_):
                    par[(f, u)] = np_
        out.append(l)
    return out


def place(lines, be, workdir, tag):
    out = []
    for l in lines:
        t = l.split(" ")
        if t[0] == "file":
            t[2] = os.path.join(workdir, "%s_%s" % (tag, os.path.basename(t[2])))
        out.append(" ".join(t))
    return out


def project(lines, f):
    return [l for l in lines if l.split(" ")[1] == str(f)]


def per_file_answers(lines, answers, f):
    return [answers[i] if i < len(answers) else None for i, l in enumerate(lines) if l.split(" ")[1] == str(f)]


def independence_failure(lines, exe, workdir, tag):
    """run the interleaving, then every file's own history alone; -> None or a description"""
    s = place(lines, None, workdir, tag)
    il, outcome, stack = vlib.run_impl(exe, "\n".join(s) + "\n", timeout=240, want_stack=True)
    nodedb.cleanup(s)
    if outcome != "ok":
        return {"outcome": outcome, "stack": stack, "after_line": len(il)}, il
    files = sorted({int(l.split(" ")[1]) for l in lines})
    for f in files:
        alone = place(project(lines, f), None, workdir, tag + "a%d" % f)
        al, out2, st2 = vlib.run_impl(exe, "\n".join(alone) + "\n", timeout=240, want_stack=True)
        nodedb.cleanup(alone)
        if out2 != "ok":
            return {"file": f, "alone_outcome": out2, "stack": st2}, il
        inter = per_file_answers(lines, il, f)
        d = vlib.first_divergence(inter, al)
        if d:
            ops = project(lines, f)
            return {"file": f, "op_index_in_file_history": d[0], "op": nodedb.short(ops[d[0]], 160) if d[0] < len(ops) else None,
                    "answer_in_interleaving": nodedb.short(d[1], 160), "answer_alone": nodedb.short(d[2], 160)}, il
    return None, il


def legacy_histories(ck, exe, dist):
    """files written by early versions of the library (HDF5 without link-creation-order tracking: the shipped
    src/tests/data/cgnslib_vers-*.cgns) opened read-only together with files written now: what a file answers must not depend
    on which other files are open (same oracle: the file's own history alone, in a fresh process)"""
    import shutil
    ddir = os.path.join(vlib.REPO, "src", "tests", "data")
    legacy = sorted(f for f in (os.listdir(ddir) if os.path.isdir(ddir) else []) if f.startswith("cgnslib_vers-") and f.endswith(".cgns"))
    dist["legacy_files"] = legacy
    for k, name in enumerate(legacy):
        lines = ["file 1 LEG.cgns hdf5 r", "nchild 1 0", "names 1 0 1 6",
                 "file 2 NEW.cgns %s w" % ("hdf5" if k % 2 == 0 else "adf"), "create 2 0 1 41", "nchild 2 0",
                 "nchild 1 0", "names 1 0 1 6",
                 "file 3 NEW3.cgns hdf5 w", "create 3 0 1 42", "nchild 1 0", "names 1 0 1 6",
                 "closef 2", "nchild 1 0", "closef 3", "nchild 1 0", "names 1 0 1 6", "closef 1"]
        tag = "leg%d" % k
        for t in (tag, tag + "a1"):
            shutil.copy(os.path.join(ddir, name), os.path.join(ck.work, "%s_LEG.cgns" % t))
        ck.cov["traces_validated_against_impl"] += 1
        ck.case(hashlib.sha1(("legacy" + name).encode()).hexdigest(), sample={"legacy_file": name, "ops": lines[:8] + ["..."]})
        f, il = independence_failure(lines, exe, ck.work, tag)
        if f:
            ck.violation({"legacy_file": "src/tests/data/" + name, "script": lines, "failure": f,
                          "oracle": "same file history run alone in a fresh process"})
            return


def run(ck):
    thorough = ck.tier == "thorough"
    vlib.build_impl()
    exe = vlib.build_harness("cgio_h", ["cgio_h.c"])
    vlib.build_modelrun("c02")
    res = vlib.coq_check_properties("C16")
    broken = ck.proof_result(res, CHECKER)
    forb = vlib.coq_forbidden_scan("C16")
    ck.extra["forbidden_tokens"] = forb
    if forb:
        ck.violation({"broken_obligation": "forbidden tokens", "hits": forb}, nofail=True)
    ck.cov["trusted_base"] = ["Coq 8.16.1 kernel", "extraction + OCaml runner of the TreeDB session model", "harness/cgio_h.c, checks/nodedb.py, checks/C16.py"]
    ck.assumptions = ["single thread", "files live in distinct paths", "link traversals between the files are C08's business"]
    ck.cov["rule"] = ("interleaved histories over 2..8 files (back end chosen per file), with closes, uses of the closed handle and reopens anywhere; "
                      "each file's answers in the interleaving vs the same file history alone (fresh process), plus the TreeDB session model; "
                      "non-trivial = at least 3 files and a close followed by further events on other files; distinct by SHA1")
    n = 120 if thorough else 30
    dist = {"histories": 0, "files": {}, "backends": {"adf": 0, "hdf5": 0}}
    corr_broken = []
    for i in range(n):
        nf = ck.rng.choice([2, 2, 3, 3, 4, 5, 6, 8])
        lines, be = gen_interleaved(ck.rng, nf, 40 + 12 * nf)
        dist["histories"] += 1; dist["files"][str(nf)] = dist["files"].get(str(nf), 0) + 1
        for b in be.values():
            dist["backends"][b] += 1
        nontriv = nf >= 3 and any(l.startswith("closef") for l in lines[: len(lines) // 2])
        ck.case(hashlib.sha1("\n".join(lines).encode()).hexdigest() if nontriv else None,
                sample={"files": nf, "backends": be, "ops": [nodedb.short(x, 80) for x in lines[:10]] + ["..."]})
        ck.cov["traces_validated_against_impl"] += 1
        f, il = independence_failure(lines, exe, ck.work, "i%d" % i)
        if f and "stack" in f and "H5G_name_replace" in (f.get("stack") or []):
            ck.finding(nodedb.LIBHDF5_KEY, f); continue
        if f:
            def still(ls):
                ff, _ = independence_failure(ls, exe, ck.work, "shr")
                return ff is not None and "H5G_name_replace" not in (ff.get("stack") or [])
            small = vlib.ddmin(lines, still, max_tests=120)
            ff, _ = independence_failure(small, exe, ck.work, "fin")
            ck.violation({"script": [nodedb.short(x, 300) for x in small], "script_full": small if sum(map(len, small)) < 200000 else None,
                          "failure": ff or f, "oracle": "same file history run alone in a fresh process"})
            break
        # correspondence with the session model
        s = place(lines, None, ck.work, "m%d" % i)
        ml = vlib.run_model("c02", "\n".join(s) + "\n")
        d = nodedb.compare(ml, il)
        if d:
            corr_broken.append({"line": d[0], "op": nodedb.short(lines[d[0]], 160) if d[0] < len(lines) else None,
                                "model": nodedb.short(d[1], 160), "impl": nodedb.short(d[2], 160), "script": [nodedb.short(x, 200) for x in lines[: d[0] + 1]][-25:]})
    if not ck.violations:
        legacy_histories(ck, exe, dist)
    if (corr_broken or broken) and not ck.violations:
        ck.violation({"broken_obligations": broken, "broken_correspondence": corr_broken[:2],
                      "note": "the session model and the implementation differ (or an obligation no longer checks) although every "
                              "interleaving gave each file the answers of its own history"}, nofail=True)
    ck.extra["input_distribution"] = dist
    # second layer: the three REAL handle tables (MLL cgns_files[], cgio iolist, ADF_file[]) as Coq models with
    # theorems about handle validity, tied state by state (checks/C16b.py, notes/C16b.md)
    from checks import C16b
    C16b.run_extra(ck)


def replay(ck, path):
    r = json.load(open(path))
    vlib.build_impl(); exe = vlib.build_harness("cgio_h", ["cgio_h.c"])
    script = r.get("script_full") or r.get("script")
    if not script:
        print("replay names a broken obligation / correspondence, no input to run"); return 1
    f, _ = independence_failure(script, exe, ck.work, "replay")
    print("replay: %s" % (json.dumps(f) if f else "holds"))
    return 1 if f else 0
