"""C12 -- invalid calls fail cleanly and change nothing  (PARTIAL: see below).

Proof side : coq/Properties_C12.v.  translators/c12_validate.py re-extracts from the CURRENT sources (a) the table of index
             getters of cgns_internals.c and the instances of the ADDRESS4MULTIPLE macro and (b) the STRUCTURED skeleton of every
             function of cgnslib.c / cgns_internals.c / cgns_io.c / cgns_error.c with classified checks (coq/Gen_C12.v).
             coq/Validate.v holds the skeleton machine and the decidable predicates, coq/ValidateProofs.v the generic theorems
             (for ANY table satisfying the predicates and ANY state: a call that returns at a failing validation has changed
             neither file nor tree; a failing argument check makes the call return a failure; every failing return carries a
             message; an accepted index i satisfies 1 <= i <= count and selects element i-1).
             PROVED: validation order, failure propagation, message provenance and the index arithmetic, all entry points.
             NOT PROVED (tested only): memory safety of the code after validation -- it is seen by ASan/UBSan in the runs below.
Tie T      : the translator runs on every check (cached by source hash under .build/c12_cache) and in pregen().
Tie C      : (1) the property's OWN ORACLE, not through the model: every callable entry point x every argument position x every
             invalid class (closed / never issued / 0 / -1 handle; index 0 / -1 / count+1 / INT_MAX; empty / 33 / 1000-character
             name; enum -1 / max+1; inconsistent ranges and sizes; wrong open mode), each call in a process of its own with a
             watchdog, under ASan/UBSan, in several file states, ADF and HDF5: status must be an error, cg_get_error() non-empty,
             the full tree dump through the read API unchanged on the same handle, the cgio tree digest of the file after close
             (and, in read mode, the SHA-256 of its bytes) equal to a control run without the call;
             (2) the translator rows are cross-checked: a parameter the table says is validated on the spine of an entry point
             must be rejected dynamically for the matching class; the open modes the table says are refused must be refused;
             (3) the getter model (extracted) against the real cgi_get_* functions on live files (harness/c12_get.c);
             (4) the use-after-close scenario of DESIGN.md section 6 row 11.
"""
import hashlib, json, os, re, subprocess, sys, time
import vlib

sys.path.insert(0, os.path.join(vlib.ROOT, "translators"))
import c12_validate
from checks import C07

CHECKER = ("make -C coq Gates.vo Validate.vo ValidateProofs.vo Gen_C12.vo (coqc 8.16.1 kernel; vm_compute of prepare, the call-graph "
           "fixpoints and the predicates on the regenerated table) ; coqc Properties_C12.v (Print Assumptions)")
BACKENDS = ["adf", "hdf5"]
STATES = ["rich12", "unstr", "bare"]
MODES = {"read": 0, "write": 1, "modify": 2}
JOBS = 4


def pregen():
    c12_validate.write_gen(repo=vlib.REPO, impl=vlib.IMPL)


# ------------------------------------------------------------------------------------------------ argument synthesis
ENUM_NOF = {"MassUnits_t": "NofValidMassUnits", "LengthUnits_t": "NofValidLengthUnits", "TimeUnits_t": "NofValidTimeUnits",
            "TemperatureUnits_t": "NofValidTemperatureUnits", "AngleUnits_t": "NofValidAngleUnits",
            "ElectricCurrentUnits_t": "NofValidElectricCurrentUnits", "SubstanceAmountUnits_t": "NofValidSubstanceAmountUnits",
            "LuminousIntensityUnits_t": "NofValidLuminousIntensityUnits", "DataClass_t": "NofValidDataClass",
            "GridLocation_t": "NofValidGridLocation", "BCDataType_t": "NofValidBCDataTypes",
            "GridConnectivityType_t": "NofValidGridConnectivityTypes", "PointSetType_t": "NofValidPointSetTypes",
            "GoverningEquationsType_t": "NofValidGoverningEquationsTypes", "ModelType_t": "NofValidModelTypes",
            "ParticleGoverningEquationsType_t": "NofValidParticleGoverningEquationsTypes",
            "ParticleModelType_t": "NofValidParticleModelTypes", "BCType_t": "NofValidBCTypes", "DataType_t": "NofValidDataTypes",
            "ElementType_t": "NofValidElementTypes", "ZoneType_t": "NofValidZoneTypes",
            "RigidGridMotionType_t": "NofValidRigidGridMotionTypes", "ArbitraryGridMotionType_t": "NofValidArbitraryGridMotionTypes",
            "SimulationType_t": "NofValidSimulationTypes", "WallFunctionType_t": "NofValidWallFunctionTypes",
            "AreaType_t": "NofValidAreaTypes", "AverageInterfaceType_t": "NofValidAverageInterfaceTypes"}
ENUM_VALID_EXTRA = {"ParticleGoverningEquationsType_t": "CGNS_ENUMV(DEM)", "ParticleModelType_t": "CGNS_ENUMV(Linear)",
                    "MassUnits_t": "CGNS_ENUMV(Kilogram)", "LengthUnits_t": "CGNS_ENUMV(Meter)", "TimeUnits_t": "CGNS_ENUMV(Second)",
                    "TemperatureUnits_t": "CGNS_ENUMV(Kelvin)", "AngleUnits_t": "CGNS_ENUMV(Degree)",
                    "ElectricCurrentUnits_t": "CGNS_ENUMV(Ampere)", "SubstanceAmountUnits_t": "CGNS_ENUMV(Mole)",
                    "LuminousIntensityUnits_t": "CGNS_ENUMV(Candela)"}
# index parameters by name (C07.INDEX) plus the particle-zone index
INDEX = set(C07.INDEX) | {"P"}
CTX_RULES12 = [(r"^cg_particle_(governing|model)", 14), (r"^cg_particle_equationset", 13)]


def enum_base(t):
    m = re.search(r"(\w+_t)\b", t)
    return m.group(1) if m else t


def arg_for12(fname, i, pn, pt, writer):
    """C07.arg_for with the invalid classes C12 asks for: -> (valid expression, kind, [(class, expression, must fail)])"""
    v, kind, inv = C07.arg_for(fname, i, pn, pt, writer)
    t = pt.replace("const ", "").strip()
    if t == "int" and pn in INDEX and kind != "index" and kind not in ("handle", "special"):
        kind, inv = "index", [("index-0", "0", 1), ("index--1", "-1", 1), ("index-count+1", "1000", 1), ("index-INT_MAX", "INT_MAX", 1)]
    if kind == "enum":
        eb = enum_base(t)
        if eb in ENUM_VALID_EXTRA:
            v = ENUM_VALID_EXTRA[eb]
        nof = ENUM_NOF.get(eb)
        inv = [("enum--1", "(%s)-1" % t, 1), ("enum-max+1", "(%s)%s" % (t, nof) if nof else "(%s)1000" % t, 1)]
    if kind == "pnts":
        inv = []          # point sets may legitimately lie in rind planes (indices <= 0 or beyond the core range)
    if kind == "size" and pn in ("start", "end"):
        inv = [("range-start>end", "5" if pn == "start" else "0", 1)]
    if kind == "size" and pn == "npnts":
        inv = [("npnts-0", "0", 1), ("npnts--1", "-1", 1)]
    if fname.startswith("cgio_"):
        # the low-level layer: handles, names and data types are validated; 0 dimensions are legal (an MT node), and the
        # dimension utilities (cgio_check_dimensions, cgio_copy_dimensions, cgio_compute_data_size) return values, not statuses
        if kind == "dimcount":
            inv = [x for x in inv if x[0] == "ndim-13"] if re.search(r"set_dimensions|new_node", fname) else []
        if fname in ("cgio_compute_data_size", "cgio_check_dimensions", "cgio_copy_dimensions"):
            inv = []
    return v, kind, inv


def ctx_of12(name, params):
    for rx, c in CTX_RULES12:
        if re.search(rx, name):
            return c
    return C07.ctx_of(name, params)


def gen_stubs(d, path):
    """c07_stubs.inc for harness/c12_drv.c: one stub per public entry point, variant 0 = valid arguments, variant k = the k-th
    (position, invalid class).  -> (entries, static_only)"""
    api = [a for a in d["api"] if a["defined"]]
    protos = d["protos"]
    out, entries, static_only = [], [], {}
    for a in api:
        name = a["name"]
        pr = protos[name]
        if C07.SKIP.match(name):
            static_only[name] = "not callable in a shared process (terminates, closes or reconfigures the library)"
            continue
        writer = a["doc"] == "Write"
        params = pr["params"]
        ret = pr["ret"]
        if name == "cg_where":
            vals = [("(int *)OUT(0)", "out", []), ("(int *)OUT(1)", "out", []), ("(int *)OUT(2)", "out", []), ("(char **)PP(3)", "out", []), ("(int *)OUT(4)", "out", [])]
        elif name == "cg_free":
            vals = [("malloc(8)", "special", [])]
        elif name == "cg_golist":
            vals = [arg_for12(name, 0, "fn", "int", False), arg_for12(name, 1, "B", "int", False), ("0", "int", []), ("(char **)PP(3)", "out", []), ("(int *)OUT(4)", "out", [])]
        elif name in C07.HAND:
            vals = [arg_for12(name, 0, "fn", "int", False)]
        elif pr["variadic"]:
            static_only[name] = "variadic"
            continue
        else:
            vals = [arg_for12(name, i, pn, pt, writer) for i, (pn, pt) in enumerate(params)]
        variants = [("valid", [v[0] for v in vals], 0, -1, "valid", "valid")]
        has_status = ret == "int"
        for i, (v, kind, invs) in enumerate(vals):
            for cls, ex, must in invs:
                must = must if has_status else 2          # 2: no status to return: only memory safety and "nothing changed"
                argv = [x[0] for x in vals]
                argv[i] = ex
                pname = params[i][0] if i < len(params) else "arg%d" % i
                variants.append(("%s:%s=%s" % (cls, pname, kind), argv, must, i, pname, cls))
        if name == "cg_family_write":          # family tree paths: the over-long component after a valid one
            argv = [x[0] for x in vals]
            argv[2] = '"NewFam/nnnnnnnnnnnnnnnnnnnnnnnnnnnnnnnnn"'
            variants.append(("name-33-in-path:family_name=name", argv, 1, 2, "family_name", "name-33-in-path"))
        body = ["static int call_%s(int v) {" % name, "  switch (v) {"]
        for k, (desc, argv, must, pos, pname, cls) in enumerate(variants):
            if name in C07.HAND:
                call = C07.HAND[name] % argv[0]
            else:
                call = "%s(%s)" % (name, ", ".join(argv))
            if ret == "int":
                body.append("  case %d: return %s;" % (k, call))
            elif ret == "void":
                body.append("  case %d: %s; return 0;" % (k, call))
            else:
                body.append("  case %d: return (%s) == 0 ? -77 : 0;" % (k, call))
        body += ["  }", "  return -99;", "}"]
        body.append("static const char *const vd_%s[] = {%s};" % (name, ", ".join('"%s"' % v[0] for v in variants)))
        out += body
        flags = 0
        if name.startswith("cgio_"):
            flags |= 1
        if not ({p[0] for p in params} & (C07.HANDLE | C07.CGIO_HANDLE)) and ctx_of12(name, params) == 0:
            flags |= 2
        entries.append(dict(name=name, fn=name, doc=a["doc"], nvar=len(variants), ctx=ctx_of12(name, params), flags=flags,
                            variants=[dict(desc=v[0], must=v[2], pos=v[3], param=v[4], cls=v[5]) for v in variants]))
        for c in C07.EXTRA_CTX.get(name, []):
            entries.append(dict(entries[-1], name="%s@%d" % (name, c), ctx=c))
    out.append("static const entry_t entries[] = {")
    for e in entries:
        out.append('  {"%s", call_%s, %d, %d, %d, vd_%s},' % (e["name"], e["fn"], e["nvar"], e["ctx"], e["flags"], e["fn"]))
    out.append("};")
    out.append("#define NENTRIES %d" % len(entries))
    txt = "\n".join(out) + "\n"
    os.makedirs(os.path.dirname(path), exist_ok=True)
    if not os.path.exists(path) or open(path).read() != txt:
        open(path, "w").write(txt)
    return entries, static_only


def build_driver(d):
    gen = os.path.join(vlib.HDIR, "gen_c12")
    entries, static_only = gen_stubs(d, os.path.join(gen, "c07_stubs.inc"))
    exe = vlib.build_harness("c12_drv", ["c12_drv.c"], includes=[gen])
    return exe, entries, static_only


# ------------------------------------------------------------------------------------------------ running the driver
def parse_cases(lines):
    """-> list of dicts, one per case (C ... S ... R ... E ...)"""
    cases, cur = [], None
    for l in lines:
        if l.startswith("C "):
            t = l.split()
            cur = {"name": t[1], "v": int(t[2][2:]), "stderr": []}
            cases.append(cur)
        elif cur is None:
            continue
        elif l.startswith("S ") or l.startswith("D "):
            for kv in l.split()[3:]:
                if "=" in kv:
                    k, v = kv.split("=", 1)
                    cur[k] = v
                elif kv == "OPENFAIL":
                    cur["openfail"] = True
        elif l.startswith("R "):
            m = re.match(r"R (\S+) v=(\d+) out=(\S+) ms=(\d+) desc=(.*)", l)
            if m:
                cur.update(out=m.group(3), ms=int(m.group(4)), desc=m.group(5))
        elif l.startswith("E "):
            cur["stderr"].append(l[2:])
    return cases


def san_summary(c):
    txt = "\n".join(c.get("stderr", []))
    m = re.search(r"ERROR: AddressSanitizer: (\S+)", txt)
    if m:
        fr = [f for f in re.findall(r"#\d+ 0x[0-9a-f]+ in (\w+)", txt) if not f.startswith("__")][:3]
        return "asan:%s@%s" % (m.group(1), ">".join(fr))
    m = re.search(r"runtime error: ([^\n]*)", txt)
    if m:
        return "ubsan:" + m.group(1)[:70]
    return c.get("out", "?")


def run_inv(exe, tmpl, workdir, backend, mode, n, tag, vto=None, timeout=1200):
    """all entries [0, n) split over JOBS processes; -> cases"""
    procs, per = [], (n + JOBS - 1) // JOBS
    env = dict(os.environ); env.update(vlib.ASAN_ENV); env["C12_BACKEND"] = backend
    for j in range(JOBS):
        a, b = j * per, min(n, (j + 1) * per)
        if a >= b:
            continue
        wk = os.path.join(workdir, "w_%s_%d.cgns" % (tag, j))
        args = [exe, "inv", tmpl, wk, str(mode), str(a), str(b), "0"] + ([str(vto)] if vto is not None else [])
        of = open(wk + ".out", "w")             # a file, not a pipe: the four drivers must not block on a full pipe
        procs.append((subprocess.Popen(args, stdout=of, stderr=subprocess.DEVNULL, cwd=workdir, env=env), of, wk + ".out"))
    cases = []
    for p, of, path in procs:
        try:
            p.wait(timeout=timeout)
        except subprocess.TimeoutExpired:
            p.kill()
            p.wait()
        of.close()
        cases += parse_cases(open(path, errors="replace").read().split("\n"))
    return cases


def make_templates(exe, work, states=STATES):
    t = {}
    for b in BACKENDS:
        for s in states:
            p = os.path.join(work, "t_%s_%s.cgns" % (b, s))
            lines, outcome = vlib.run_impl(exe, "", args=["build", b, s, p], cwd=work)
            if outcome != "ok" or not os.path.exists(p):
                raise vlib.Infra("template %s/%s could not be built: %s %s" % (b, s, outcome, lines[-3:]))
            t[(b, s)] = p
    return t


def judge(c, e, mode, must=1):
    """the property's oracle on one case with an invalid argument: -> list of what is wrong (empty = holds)"""
    bad = []
    if c.get("openfail"):
        return bad
    if c.get("out") != "ok":
        bad.append("sanitizer/signal: " + san_summary(c))
        return bad
    if must == 1 and c.get("st") == "0":
        bad.append("accepted (status CG_OK)")
    elif must == 1 and c.get("msg") == "EMPTY":
        bad.append("error status with an EMPTY message")
    if c.get("view") == "CHANGED":
        bad.append("session view changed")
    if c.get("tree") not in ("same",):
        bad.append("file content %s" % c.get("tree"))
    if mode == 0 and c.get("file") == "CHANGED":
        bad.append("bytes of a read-mode file changed")
    return bad


def run(ck):
    raise vlib.Infra("C12 is under construction")


def replay(ck, path):
    print("under construction")
    return 1
